"""Round-2 hardening families for C01 / C02 (see /verif/HARDENING.md), shared by both modules.

S  run_heavy:      a few structured large instances per run, judged by construction (no truth table, no kernel replay):
                   many independent satisfiable blocks (thousands of low-lbd learned clauses, several reduce_db rounds),
                   selector-guarded pigeonhole needing thousands of conflicts in one call, sparse huge variable indices,
                   > 64 / > 1024 / > 2048 variables, planted 3-SAT with duplicate literals and tautologies at scale.
A  run_sequences:  the same input object solved repeatedly and under different options in both orders; inputs unmodified.
I/A/O shapes for SMALL cases (container forms, aliased clause objects, option corners) are generated here (gen_shape_case,
   corner_cases) but run through sat_common.run_engine like every other small case: truth-table oracle + kernel replay.
"""
from __future__ import annotations

import os
import copy
import itertools

from harness.core import Ctx, guarded, pmap
from harness.props import sat_common as SC


# ------------------------------------------------------------------------------------------- S: heavy, by construction
def planted_block(rng, base, k, m):
    """m random 3-clauses over variables base+1..base+k, all satisfied by a planted assignment"""
    planted = [rng.random() < 0.3 for _ in range(k)]
    block = []
    while len(block) < m:
        c = [(base + v + 1) * (1 if rng.random() < 0.5 else -1) for v in rng.sample(range(k), 3)]
        if any(planted[abs(l) - base - 1] == (l > 0) for l in c):
            block.append(c)
    return block, {base + i + 1: planted[i] for i in range(k)}


def inst_blocks(rng, g, k):
    """g independent satisfiable k-variable blocks: each costs a conflict or two, learned clauses are short and low-lbd"""
    cl, ref = [], {}
    for b in range(g):
        blk, pl = planted_block(rng, b * k, k, int(4.8 * k))
        cl += blk
        ref.update(pl)
    return cl, ref


def inst_guarded_php(rng, holes):
    """selector s guards PHP(holes+1, holes): s=True must be refuted (thousands of conflicts) before s=False is found.
    Satellite variables hang off s and off pigeon variables through random implication chains / cycles / equivalences, so they are
    assigned only by propagation while the refutation runs; a few free variables and a free binary pair follow."""
    p, h = holes + 1, holes
    s = 1
    var = lambda i, j: 2 + i * h + j  # noqa: E731
    cl = [[-s] + [var(i, j) for j in range(h)] for i in range(p)]
    for j in range(h):
        for a in range(p):
            for b in range(a + 1, p):
                cl.append([-s, -var(a, j), -var(b, j)])
    nxt = 2 + p * h
    ref = {v: False for v in range(1, nxt)}
    for _ in range(rng.randint(1, 3)):  # satellites
        k = rng.randint(2, 6)
        vs = list(range(nxt, nxt + k))
        nxt += k
        root = s if rng.random() < 0.7 else var(rng.randrange(p), rng.randrange(h))
        cl.append([-root, vs[0]])
        for i in range(k - 1):
            cl.append([-vs[i], vs[i + 1]])
        if rng.random() < 0.6:
            cl.append([-vs[-1], vs[0]])  # cycle
        for v in vs:
            ref[v] = False
    a = nxt
    cl += [[s, a, a + 1], [s, -a, -a - 1]]
    ref[a], ref[a + 1] = True, False
    nxt += 2
    for _ in range(rng.randint(0, 3)):  # variables that occur in one wide clause only
        cl.append([nxt, -s, a])
        ref[nxt] = False
        nxt += 1
    rng.shuffle(cl)
    return cl, ref


def inst_sparse(rng, top):
    """a small satisfiable formula over a handful of huge, gapped variable indices (1, ~1000, ~top)"""
    names = sorted({1, rng.randint(900, 1100), rng.randint(top // 2, top - 1), top, rng.randint(2, 64), rng.randint(65, 300)})
    k = len(names)
    blk, pl = planted_block(rng, 0, k, 3 * k)
    cl = [[(names[abs(l) - 1] if l > 0 else -names[abs(l) - 1]) for l in c] for c in blk]
    ref = {v: False for v in range(1, top + 1)}
    ref.update({names[i - 1]: val for i, val in pl.items()})
    return cl, ref


def inst_chain(rng, n):
    """unit x1, implications x_i -> x_{i+1} in shuffled order, a few 3-clauses on top: one long propagation, n > 64 / 1024 / 2048"""
    cl = [[1]] + [[-i, i + 1] for i in range(1, n)]
    for _ in range(n // 8):
        a, b, c = rng.sample(range(1, n + 1), 3)
        cl.append([a, -b, -c])
    rng.shuffle(cl)
    return cl, {v: True for v in range(1, n + 1)}


def inst_planted_noisy(rng, n, ratio):
    """planted 3-SAT with duplicate literals, tautologies and repeated clauses at scale"""
    planted = {v: rng.random() < 0.5 for v in range(1, n + 1)}
    cl = []
    while len(cl) < int(ratio * n):
        vs = rng.sample(range(1, n + 1), 3)
        c = [v if rng.random() < 0.5 else -v for v in vs]
        if not any(planted[abs(l)] == (l > 0) for l in c):
            continue
        r = rng.random()
        if r < 0.25:
            c.insert(rng.randint(0, 3), c[rng.randrange(3)])  # duplicate literal
        elif r < 0.4:
            c.insert(rng.randint(0, 3), -c[rng.randrange(3)])  # tautology
        elif r < 0.5:
            cl.append(list(c))  # repeated clause (distinct object)
        cl.append(c)
    return cl, planted


def heavy_instances(rng, big):
    """(family, clauses, reference model, options, time guard)"""
    out = []
    g_main = rng.choice([1500, 1700, 2000])
    if big:
        out.append((f"blocks{g_main}x5", *inst_blocks(rng, g_main, 5), {}, 300))
        out.append((f"blocks{g_main}x5-lf", *inst_blocks(rng, g_main, 5), {"luby_factor": rng.choice([30, 50, 200])}, 300))
    else:
        out.append((f"blocks{g_main}x5", *inst_blocks(rng, g_main, 5), rng.choice([{}, {}, {"luby_factor": 50}, {"luby_factor": 200}]), 300))
    for _ in range(3 if big else 1):
        g, k = rng.choice([(300, 5), (700, 4), (900, 6), (1200, 5)])
        out.append((f"blocks{g}x{k}", *inst_blocks(rng, g, k), {"luby_factor": rng.choice([10, 100])}, 300))
    for _ in range(4 if big else 2):
        out.append(("guarded-php8_7", *inst_guarded_php(rng, 7), {"luby_factor": rng.choice([100, 100, 40, 300])}, 300))
    if big:
        out.append(("guarded-php7_6", *inst_guarded_php(rng, 6), {}, 300))
    out.append(("sparse100000", *inst_sparse(rng, 100000), {}, 300))
    out.append(("sparse2000", *inst_sparse(rng, rng.randint(1500, 2500)), {"solution_limit": 3}, 300))
    for n in (rng.randint(65, 80), rng.randint(1025, 1100), rng.randint(2049, 2200)) + ((rng.randint(257, 300), 4097) if big else ()):
        out.append((f"chain{'>2048' if n > 2048 else '>1024' if n > 1024 else '>256' if n > 256 else '>64'}", *inst_chain(rng, n), {}, 300))
    for n in (rng.randint(70, 120), rng.randint(250, 400)) + ((rng.randint(1030, 1200),) if big else ()):
        out.append((f"planted-noisy{'>1024' if n > 1024 else '>256' if n > 256 else '>64'}", *inst_planted_noisy(rng, n, 3.0), {}, 300))
    return out


# ------------------------------------------------------------------------------------------- W: work volume (round 3)
def shift_vars(cl, k):
    return [[l + k if l > 0 else l - k for l in c] for c in cl]


def inst_planted(rng, n, ratio):
    planted = {v: rng.random() < 0.5 for v in range(1, n + 1)}
    cl = []
    while len(cl) < int(ratio * n):
        c = [v if rng.random() < 0.5 else -v for v in rng.sample(range(1, n + 1), 3)]
        if any(planted[abs(l)] == (l > 0) for l in c):
            cl.append(c)
    return cl, planted


def work_instances(rng, big):
    """Instances that push one internal counter of the solver across 2^10, 2^12, 5001, 8191, 10^4 at moderate input size:
    number of recorded models / blocking clauses (full enumerations with a KNOWN model count), conflicts inside one restart
    interval (huge luby_factor), learned clauses and reduce_db rounds, restarts (luby_factor 1).  Items are dicts:
    fam, clauses, assumptions, opts, guard, and one of ref (a model, by construction) / count (number of models) / unsat."""
    W = []
    huge = lambda: rng.choice([10**6, 10**9, 2**40, 5001, 20000])  # noqa: E731
    # -- enumerations: one clause over k variables has 2^k - 1 models; k independent 2-clauses have 3^k
    k = 13
    W.append(dict(fam="enum-clause13-all", clauses=[list(range(1, k + 1))], count=2**k - 1, guard=300,
                  opts={"solution_limit": 10**6, "luby_factor": rng.choice([1, 2, 3])}))
    W.append(dict(fam="enum-clause13-limit", clauses=[list(range(1, k + 1))], count=2**k - 1, guard=300,
                  opts={"solution_limit": rng.randint(5400, 8100), "luby_factor": rng.choice([1, 2])}))
    kk = rng.choice([10, 11, 12])
    W.append(dict(fam=f"enum-clause{kk}-asm", clauses=[list(range(1, kk + 2))], assumptions=[-rng.randint(1, kk + 1)], count=2**kk - 1, guard=300,
                  opts={"solution_limit": rng.choice([10**6, 2**kk - 1, 2**kk]), "luby_factor": rng.choice([1, 2, 100])}))
    p = 7
    W.append(dict(fam=f"enum-pairs3^{p}", clauses=[[2 * i + 1, 2 * i + 2] for i in range(p)], count=3**p, guard=300,
                  opts={"solution_limit": 10**6, "luby_factor": rng.choice([1, 2, 100])}))
    if big:
        W.append(dict(fam="enum-clause14-all", clauses=[list(range(1, 15))], count=2**14 - 1, guard=600, opts={"solution_limit": 10**6, "luby_factor": 2}))
        W.append(dict(fam="enum-pairs3^8-limit", clauses=[[2 * i + 1, 2 * i + 2] for i in range(8)], count=3**8, guard=300,
                      opts={"solution_limit": rng.randint(5001, 6561), "luby_factor": 1}))
        blk, _ = planted_block(rng, 0, 5, 12)
        cnt = sum(1 for bits in itertools.product([False, True], repeat=5) if all(any(bits[abs(l) - 1] == (l > 0) for l in c) for c in blk))
        reps = 1
        while cnt ** (reps + 1) <= 12000:
            reps += 1
        W.append(dict(fam="enum-blocks", clauses=[c for r in range(reps) for c in shift_vars(blk, 5 * r)], count=cnt**reps, guard=300,
                      opts={"solution_limit": 10**6, "luby_factor": rng.choice([1, 3, 100])}))
    # -- conflicts inside ONE restart interval (restarts practically off), satisfiable or unsatisfiable by construction
    cl, ref = inst_guarded_php(rng, 7)
    W.append(dict(fam="interval-guarded-php8_7", clauses=cl, ref=ref, guard=300, opts={"luby_factor": huge()}))
    c1, r1 = inst_guarded_php(rng, 7)
    c2, r2 = inst_guarded_php(rng, 7)
    n1 = SC.n_vars_of(c1)
    ref = dict(r1)
    ref.update({v + n1: b for v, b in r2.items()})
    W.append(dict(fam="interval-double-guarded-php", clauses=c1 + shift_vars(c2, n1), ref=ref, guard=300, opts={"luby_factor": rng.choice([10**6, 10**9, 2**40, 10001])}))
    for _ in range(4 if big else 1):
        n = rng.choice([250, 300])
        cl, ref = inst_planted(rng, n, rng.choice([4.0, 4.1, 4.2]))
        W.append(dict(fam=f"interval-planted{n}", clauses=cl, ref=ref, guard=300, opts={"luby_factor": huge(), "max_conflicts": 20000}))  # without restarts a planted
        # instance near the threshold can need > 10^5 conflicts (seed 7: not finished after 300 s - our false alarm); the budget bounds the work, crossing
        # 5001 and 10^4 conflicts in one restart interval is still reached, and MAX_ITER at the budget is an accepted answer
    W.append(dict(fam="interval-php8_7", clauses=SC.pigeonhole(7), unsat=True, guard=300, opts={"luby_factor": huge()}))
    # -- restarts >= 2^10 (luby_factor 1) and learned clauses >= 10^4 with many reduce_db rounds
    cl, ref = inst_guarded_php(rng, 7)
    W.append(dict(fam="restarts-guarded-php8_7", clauses=cl, ref=ref, guard=300, opts={"luby_factor": 1, "max_restarts": 10**6}))
    c1, r1 = inst_guarded_php(rng, 7)
    c2, r2 = inst_guarded_php(rng, 7)
    n1 = SC.n_vars_of(c1)
    ref = dict(r1)
    ref.update({v + n1: b for v, b in r2.items()})
    W.append(dict(fam="learned-double-guarded-php", clauses=c1 + shift_vars(c2, n1), ref=ref, guard=300, opts={"luby_factor": rng.choice([100, 30, 300])}))
    return W


def as_item(t):
    fam, cl, ref, opts, guard = t
    return dict(fam=fam, clauses=cl, ref=ref, opts=opts, guard=guard)


def item_case(item):
    return SC.mk(item["clauses"], item.get("assumptions", []), "heavy-" + item["fam"], timeout=item["guard"], **item["opts"])


def run_heavy_one(item):
    case = item_case(item)
    cl = item["clauses"]
    snapshot = copy.deepcopy(cl)
    # broken tree (the small-case engine has already seen >= 5 calls that do not return, SC.BROKEN_FLAG exists): the violation is
    # established; do not spend 300 CPU-seconds on each remaining heavy instance
    def engine_state(wait=0.0):
        """'ok' | 'broken' as written by SC.run_engine after its first batch of small cases (>= 5 of them not returning = broken tree:
        the violation is established, long guards are not worth their time); None while that batch is still running"""
        import time as _t

        t_end = _t.time() + wait
        while True:
            try:
                v = open(SC.BROKEN_FLAG).read().strip() if SC.BROKEN_FLAG else "ok"
                if v:
                    return v
            except OSError:
                pass
            if _t.time() >= t_end:
                return None
            _t.sleep(1.0)

    # first 25 CPU-seconds (the slowest instance needs ~17 on the unchanged tree); if that expires the worker waits for the engine's
    # verdict on the tree and repeats the call on a fresh copy with the full guard only when the tree is not evidently broken
    first = 10 if engine_state() == "broken" else min(25, item["guard"])
    # (run_impl takes max(timeout, case["timeout"]): the first attempt runs on a copy of the case record with the short guard)
    out = SC.run_impl(dict(case, timeout=first), first, clauses_obj=cl, assumptions_obj=list(item.get("assumptions", [])) or None)
    if out["outcome"] == "hang" and first < item["guard"] and engine_state(wait=600) != "broken":
        cl = copy.deepcopy(snapshot)
        item = dict(item, clauses=cl)
        case = item_case(item)
        out = SC.run_impl(case, item["guard"], clauses_obj=cl, assumptions_obj=list(item.get("assumptions", [])) or None)
    learns = sum(1 for e in out["trace"] if e[0] == "learn" and not e[2])
    out["learns"] = learns
    out["blocking"] = sum(1 for e in out["trace"] if e[0] == "learn" and e[2])
    # counters of the solver recomputed from the learn events: restarts and the longest run of conflicts without a restart
    kw = case["kw"]
    csr, idx, restarts, longest = 0, 1, 0, 0
    nxt = kw["luby_factor"] * SC.py_luby(1)
    for _ in range(learns):
        csr += 1
        longest = max(longest, csr)
        if csr >= nxt and restarts < kw["max_restarts"]:
            restarts += 1
            idx += 1
            nxt = kw["luby_factor"] * SC.py_luby(idx)
            csr = 0
    out["restarts"], out["longest_interval"] = restarts, longest
    out["trace"] = [e for e in out["trace"] if e[0] == "verdict"]  # keep the pickled result small
    out["input_modified"] = cl != snapshot
    return out


def judge_heavy(item, case, out, pid):
    """by construction: `ref` is a model (INFEASIBLE is wrong, a model is due under generous budgets) / `count` is the exact number
    of models (an enumeration returns min(limit, count) pairwise distinct models and ends OPTIMAL) / `unsat` (only INFEASIBLE or a
    justified MAX_ITER).  Every returned assignment is evaluated against ALL clauses and assumptions and must assign every variable
    1..n_vars (what the unchanged code guarantees).  A crash is a violation."""
    cl, asm = case["clauses"], case["assumptions"]
    nv = SC.n_vars_of(cl)
    models = SC.returned_models(out) if out["outcome"] == "ok" else []
    if pid == "C01":
        if out["outcome"] != "ok":
            return None
        for m in models:
            missing = [v for v in range(1, nv + 1) if v not in m]
            bad = next((c for c in cl if not any(m.get(abs(l)) is (l > 0) for l in c)), None)
            if bad is not None:
                return (f"returned assignment leaves clause {bad} without a true literal (assignment covers {len(m)} of {nv} variables"
                        + (f"; unassigned e.g. {missing[:6]}" if missing else "") + ")")
            if missing:
                return f"returned assignment is partial: {len(m)} of {nv} variables (unassigned e.g. {missing[:6]})"
            if not all(m.get(abs(a)) is (a > 0) for a in asm):
                return f"returned assignment disagrees with an assumption of {asm}"
        if out.get("solution") is not None and out["objective"] != len(out["solution"]):
            return f"objective {out['objective']} is not the number of assigned variables {len(out['solution'])}"
        sols = out.get("solutions")
        if sols is not None:
            distinct = len({tuple(sorted(s.items())) for s in sols})
            if distinct != len(sols):
                return (f"solutions are not pairwise distinct: {len(sols)} entries, {distinct} distinct"
                        + (f" (the formula has {item['count']} models)" if item.get("count") else ""))
        return None
    if out["outcome"] == "hang":
        return f"did not return within {item['guard']} s"
    if out["outcome"] == "exc":
        return f"raised {out['exc'][0]}: {out['exc'][1]}"
    st = out["status"]
    if st not in ("OPTIMAL", "INFEASIBLE", "MAX_ITER"):
        return f"status {st}"
    far_from_budget = out["learns"] + 1 < case["kw"]["max_conflicts"] and out["restarts"] < case["kw"]["max_restarts"]
    if item.get("unsat"):
        if models:
            return "reports a model for a formula that is unsatisfiable by construction"
        if st == "MAX_ITER" and far_from_budget:
            return f"MAX_ITER after {out['learns']} analysed conflicts although neither budget is met"
        return None
    if st == "INFEASIBLE":
        return "INFEASIBLE although the formula is satisfiable by construction"
    if st == "OPTIMAL" and not models:
        return "status OPTIMAL without a model"
    if st == "MAX_ITER" and far_from_budget:
        return f"MAX_ITER after {out['learns']} analysed conflicts and {out['restarts']} restarts although neither budget is met"
    if item.get("count") and st == "OPTIMAL":
        want = min(max(case["kw"]["solution_limit"], 1), item["count"])
        got = len(out["solutions"]) if out.get("solutions") is not None else len(models)
        if got != want:
            return f"enumeration returned {got} solutions, the formula has exactly {item['count']} models and solution_limit is {case['kw']['solution_limit']}"
    if out.get("input_modified"):
        return "modified the caller's clause lists"
    return None


def start_heavy(ctx: Ctx, pid: str):
    """generate the heavy (S) and work-volume (W) instances and start solving them in a forked pool, longest first
    (overlaps with the small-case engine)"""
    import multiprocessing as mp

    big = ctx.tier == "thorough"
    SC.BROKEN_FLAG = str(ctx.casedir) + ".broken_tree"  # set before the fork so the workers know where to look
    items = [as_item(t) for t in heavy_instances(ctx.rng, big)] + work_instances(ctx.rng, big)
    for it in items:  # the construction itself is checked: the reference assignment is a model
        ref = it.get("ref")
        if ref is not None and not all(any(ref.get(abs(l)) is (l > 0) for l in c) for c in it["clauses"]):
            ctx.internal_errors.append(f"generator bug: reference assignment of {it['fam']} is not a model")
    items.sort(key=lambda it: -(10**7 if it["fam"].startswith(("enum", "blocks1", "blocks2")) else len(it["clauses"])))
    pool = mp.get_context("fork").Pool(min(8, len(items)))
    return items, pool, pool.map_async(run_heavy_one, items, chunksize=1)


def finish_heavy(ctx: Ctx, pid: str, handle):
    items, pool, pending = handle
    try:
        outs = pending.get(timeout=1800)
    finally:
        pool.terminate()
        if SC.BROKEN_FLAG and os.path.exists(SC.BROKEN_FLAG):
            os.unlink(SC.BROKEN_FLAG)
        SC.BROKEN_FLAG = None
    wmax = ctx.extra.setdefault("work_volume_max", {})

    def bump(key, val):
        wmax[key] = max(wmax.get(key, 0), val)

    def bucket(x):
        return "<2^10" if x < 1024 else "<2^12" if x < 4096 else "<=5000" if x <= 5000 else "<8191" if x < 8191 else "<10^4" if x < 10**4 else ">=10^4"

    for it, out in zip(items, outs):
        fam, cl, opts = it["fam"], it["clauses"], it["opts"]
        case = item_case(it)
        nv = SC.n_vars_of(cl)
        ctx.evaluations += 1
        ctx.count("heavy_family", re_digits(fam))
        ctx.count("heavy_outcome", out["outcome"] if out["outcome"] != "ok" else out["status"])
        ctx.count("heavy_n_vars", "<=64" if nv <= 64 else "<=1024" if nv <= 1024 else "<=10000" if nv <= 10000 else ">10000")
        ctx.count("trace_replay", "skipped-heavy(judged by construction)")
        ctx.count("work_learned_clauses", bucket(out["learns"]))
        ctx.count("work_models_recorded", bucket(len(out.get("solutions") or [])))
        ctx.count("work_longest_restart_interval", bucket(out["longest_interval"]))
        ctx.count("work_restarts", "<2^7" if out["restarts"] < 128 else "<2^10" if out["restarts"] < 1024 else ">=2^10")
        bump("analysed_conflicts", out["learns"])
        bump("blocking_clauses", out["blocking"])
        bump("models_recorded", len(out.get("solutions") or []))
        bump("conflicts_in_one_restart_interval", out["longest_interval"])
        bump("restarts", out["restarts"])
        bump("propagations", out.get("propagations") or 0)
        bump("decisions", out.get("decisions") or 0)
        bump("variables", nv)
        bump("clauses", len(cl))
        ctx.extra["heavy_slowest_s"] = max(ctx.extra.get("heavy_slowest_s", 0), out["time"])
        if out["learns"] >= 1:
            ctx.nontriv(("heavy", fam, len(cl), tuple(sorted(opts.items())), out["learns"]))
        bad = judge_heavy(it, case, out, pid)
        if bad:
            big_input = len(cl) > 3000
            ctx.violation(f"solve_sat on {fam} ({nv} variables, {len(cl)} clauses, assumptions {case['assumptions']}, options {opts}; "
                          f"{out['learns']} analysed conflicts, {out['restarts']} restarts, longest restart interval {out['longest_interval']}, "
                          f"{out['blocking']} blocking clauses): {bad}",
                          {"family": "heavy-" + fam, "clauses": cl, "assumptions": case["assumptions"], "kw": case["kw"], "timeout": it["guard"],
                           "by_construction": {k: it[k] for k in ("count", "unsat") if k in it},
                           "reference_model_true_vars": ([v for v, b in it["ref"].items() if b][:2000] if it.get("ref") else None),
                           "observed": {k: out.get(k) for k in ("outcome", "status", "exc", "time", "learns", "restarts", "objective")},
                           "note": "large input, stored in full" if big_input else ""})


def re_digits(fam):
    import re

    return re.sub(r"\d{3,}", "N", fam)


# ------------------------------------------------------------------------------------------- A: call sequences
def canon_out(out):
    return (out["outcome"], out.get("status"), out.get("solution"), out.get("solutions"), out.get("objective"), out.get("exc"))


def run_sequences(ctx: Ctx, pid: str):
    """answers must not depend on earlier calls; a shared input object passed to consecutive calls is not modified"""
    rng = ctx.rng
    n_cases = ctx.budget(60, 400) if not ctx.extra.get("broken_tree_hangs") else 3
    for _ in range(n_cases):
        case = SC.gen_case(rng, False)
        if not SC.valid_input(case) or not case["clauses"]:
            continue
        o1 = dict(case["kw"])
        o2 = dict(o1)
        o2["solution_limit"] = rng.choice([x for x in (1, 2, 3, 10) if x != o1["solution_limit"]])
        o2["luby_factor"] = rng.choice([1, 2, 100])
        X = [list(c) for c in case["clauses"]]
        XA = list(case["assumptions"])
        snap, snap_a = copy.deepcopy(X), list(XA)
        c1 = dict(case, kw=o1)
        c2 = dict(case, kw=o2)
        seq = [SC.run_impl(c1, clauses_obj=X, assumptions_obj=XA), SC.run_impl(c2, clauses_obj=X, assumptions_obj=XA),
               SC.run_impl(c1, clauses_obj=X, assumptions_obj=XA)]
        Y = [list(c) for c in case["clauses"]]
        rev = [SC.run_impl(c2, clauses_obj=Y, assumptions_obj=list(XA)), SC.run_impl(c1, clauses_obj=Y, assumptions_obj=list(XA))]
        ctx.evaluations += 5
        ctx.count("call_sequences", "cases")
        bad = None
        if canon_out(seq[0]) != canon_out(seq[2]):
            bad = f"same input object, same options, called again after another call: {canon_out(seq[0])[:3]} then {canon_out(seq[2])[:3]}"
        elif canon_out(seq[0]) != canon_out(rev[1]) or canon_out(seq[1]) != canon_out(rev[0]):
            bad = "result depends on the order of two calls sharing one input object"
        elif X != snap or XA != snap_a:
            bad = f"modified the caller's input: clauses {snap} became {X}" if X != snap else "modified the caller's assumption list"
        if not bad:
            # A2: mutate the caller's clause lists IN PLACE between two calls; the second answer must be the one a fresh call gives
            r = rng.random()
            i = rng.randrange(len(X))
            if r < 0.35 and X[i]:
                X[i][rng.randrange(len(X[i]))] *= -1
            elif r < 0.6:
                nv = SC.n_vars_of(X)
                X.append([rng.randint(1, nv) * rng.choice([1, -1]) for _ in range(rng.randint(1, 3))])
            elif r < 0.8 and len(X) > 1:
                X.pop(i)
            else:
                X[i] = [l for l in X[rng.randrange(len(X))]]
            ok_asm = [a for a in XA if abs(a) <= SC.n_vars_of(X)]
            if SC.n_vars_of(X) > 0 and all(len(c) > 0 for c in X):
                cm = dict(case, clauses=[list(c) for c in X], assumptions=ok_asm, kw=o1)
                again = SC.run_impl(cm, clauses_obj=X, assumptions_obj=list(ok_asm))
                fresh = SC.run_impl(cm, clauses_obj=copy.deepcopy(X), assumptions_obj=list(ok_asm))
                ctx.evaluations += 2
                ctx.count("call_sequences", "in-place-edit")
                if canon_out(again) != canon_out(fresh):
                    bad = (f"after an in-place edit of the caller's clause lists the second call answers {canon_out(again)[:3]}, "
                           f"a fresh call on a copy answers {canon_out(fresh)[:3]} (edited clauses: {X})")
        if bad and (pid == "C02" or "modified" not in bad):
            ctx.violation("solve_sat " + bad, {"clauses": case["clauses"], "assumptions": case["assumptions"], "kw": o1, "kw_second_call": o2,
                                               "sequence": "call(X,kw); call(X,kw_second_call); call(X,kw)  vs  fresh Y: call(Y,kw_second_call); call(Y,kw)"})
            break


# ------------------------------------------------------------------------------------------- I / A / O for small cases
CFORMS = ["list-list", "tuple-tuple", "list-tuple", "tuple-list", "list-gen", "gen-list", "gen-tuple"]
AFORMS = ["list", "tuple", "set", "gen", "iter", "map"]
OUTSIDE_SIGNATURE_C = {"list-gen", "gen-list", "gen-tuple"}   # the hint is Sequence[Sequence[int]]
OUTSIDE_SIGNATURE_A = {"set", "gen", "iter", "map"}           # the hint is Sequence[int] | None


def gen_shape_case(rng, big=False):
    """a small case (truth-table oracle applies) with a container form and/or aliased clause objects"""
    while True:
        case = SC.gen_case(rng, big)
        if SC.valid_input(case) and case["clauses"]:
            break
    shape = {}
    r = rng.random()
    if r < 0.5:
        # aliasing: the SAME list object at several positions of the clause list (equal content, one object)
        tagged = [[c, None] for c in case["clauses"]]
        long_idx = [i for i, (c, _) in enumerate(tagged) if len(c) >= 3] or list(range(len(tagged)))
        for gid, src in enumerate(rng.sample(long_idx, min(len(long_idx), rng.randint(1, 4)))):
            tagged[src][1] = gid
        for c, gid in [t for t in tagged if t[1] is not None]:
            for _ in range(rng.randint(1, 2)):
                tagged.insert(rng.randint(0, len(tagged)), [list(c), gid])
        case["clauses"] = [c for c, _ in tagged]
        groups = {}
        for i, (_, gid) in enumerate(tagged):
            if gid is not None:
                groups.setdefault(gid, []).append(i)
        shape["alias"] = list(groups.values())
        case["family"] += "+alias"
    else:
        shape["cform"] = rng.choice(CFORMS)
        case["family"] += "+form"
    if rng.random() < 0.6:
        if not case["assumptions"]:
            occ = sorted({abs(l) for c in case["clauses"] for l in c})
            case["assumptions"] = [rng.choice(occ) * rng.choice([1, -1]) for _ in range(rng.randint(1, 3))]
        shape["aform"] = rng.choice(AFORMS)
    case["shape"] = shape
    return case


def corner_cases(rng, n):
    """O: every numeric option at 0, 1, its default and default +-1, on small formulas (run through the normal engine)"""
    out = []
    for _ in range(n):
        case = SC.gen_case(rng, False)
        if not SC.valid_input(case) or not case["clauses"]:
            continue
        kw = case["kw"]
        kw["solution_limit"] = rng.choice([0, 0, 1, 2, 3])
        kw["max_conflicts"] = rng.choice([0, 1, 2, 99_999, 100_000, 100_001])
        kw["max_restarts"] = rng.choice([0, 1, 2, 9_999, 10_000, 10_001])
        kw["luby_factor"] = rng.choice([0, 1, 2, 3, 99, 100, 101])
        case["family"] = "corner"
        if kw["luby_factor"] == 0 and kw["max_restarts"] > 100 and kw["max_conflicts"] > 100:
            # every conflict restarts (and reduce_db runs at restarts), so an unsatisfiable formula can legitimately use all ~10^4 restarts
            # before MAX_ITER: ~40 CPU-seconds, bounded by the budgets - not a hang (seed 7 reported it under the 5 s guard: our false alarm)
            case["timeout"] = 150
        out.append(case)
    return out
