"""C11 (part A) - bellman_ford, floyd_warshall, bfs, dfs and the shared path reconstruction.

Tie to /repo: random small weighted multigraphs / successor dictionaries are run on the working tree
(pure-Python back-ends) and on the Gallina models SV.C11.{BellmanFord,FloydWarshall,Bfs} inside coqc
(vm_compute); status, objective, path, distance vector / matrix must be equal.  Independently a Python
oracle (simple-path / simple-cycle enumeration up to 7 nodes, min-plus closure above) judges the
implementation's outputs against the property itself, and the Coq boolean spec checkers (proved sound in
C11/*Spec.v) judge them a second time inside coqc.  Part B (dijkstra, astar, astar_grid) lives in
harness/props/C11_bestfirst.py and is called at the end of run().
"""
import json
from itertools import product

from harness.core import COQ, VERIF, Ctx, cbool, clist, cnat, copt, cpair, cz, guarded

ID = "C11"
ANCHORS = ["solvor/bellman_ford.py", "solvor/floyd_warshall.py", "solvor/bfs.py", "solvor/utils/helpers.py",
           "solvor/dijkstra.py", "solvor/a_star.py"]
INF = float("inf")

IMPORTS = ("From SV Require Import C11.Paths C11.Bfs C11.BellmanFord C11.FloydWarshall "
           "C11.BfsSpec C11.BellmanFordSpec.")


# ---------------------------------------------------------------- generators
def gen_wgraph(rng, big=False):
    """(n, edges, kind): small weighted digraph with duplicates, self loops, zero weights, cycles."""
    n = rng.choice([1, 2, 2, 3, 3, 4, 4, 4, 5, 5, 5, 6, 6, 7] + ([8, 9, 10, 12] if big else []))
    kind = rng.choice(["nonneg", "potential", "anyneg", "anyneg", "fewneg", "sparse", "dag"])
    m = rng.randint(0, max(1, int(n * rng.choice([0.8, 1.5, 2.0, 2.5, 3.5]))))
    edges = []
    pot = [rng.randint(-4, 4) for _ in range(n)]
    for _ in range(m):
        u, v = rng.randrange(n), rng.randrange(n)
        r = rng.random()
        if r < 0.08:
            v = u  # self loop
        elif r < 0.2 and edges:
            u, v, _ = rng.choice(edges)  # duplicate / parallel edge
            if rng.random() < 0.3:
                u, v = v, u  # anti-parallel: 2-cycles
        if kind == "nonneg" or kind == "sparse":
            w = rng.choice([0, 0, 1, 1, 2, 3, 5])
        elif kind == "potential":  # negative edges, no negative cycle (reduced costs of a non-negative graph)
            w = rng.choice([0, 0, 1, 2, 3]) + pot[u] - pot[v]
        elif kind == "fewneg":
            w = rng.choice([0, 1, 2, 3, 4, 6]) if rng.random() < 0.8 else rng.randint(-3, -1)
        elif kind == "dag":
            if u == v:
                w = rng.choice([0, 1, 2])
            else:
                u, v = min(u, v), max(u, v)
                w = rng.randint(-4, 5)
        else:
            w = rng.randint(-3, 5)
        edges.append((u, v, w))
    if kind == "sparse" and n >= 4 and rng.random() < 0.7:
        # an unreachable-from-low-nodes negative cycle in the top two nodes
        a, b = n - 1, n - 2
        edges = [(u, v, w) for (u, v, w) in edges if v not in (a, b) or u in (a, b)]
        edges += [(a, b, -2), (b, a, 1)]
    rng.shuffle(edges)
    return n, edges, kind


LABEL_KINDS = ["int", "str", "tuple", "mixed"]


def _labels(rng, n):
    k = rng.choice(LABEL_KINDS)
    if k == "int":
        base = rng.sample(range(-3, 40), n)
        return base
    if k == "str":
        return [chr(97 + i) * rng.choice([1, 2]) + str(i) for i in range(n)]
    if k == "tuple":
        return [(i // 3, i % 3) for i in range(n)]
    return [(i if i % 2 else f"n{i}") for i in range(n)]


def gen_search(rng, big=False):
    """(labels, adj as list of (label, [labels]), start, goal spec, max_iter).  goal spec:
    ('none',) | ('val', label) | ('pred', [labels])."""
    n = rng.choice([1, 2, 3, 3, 4, 4, 5, 5, 6, 6, 7, 8] + ([10, 12, 16] if big else []))
    labels = _labels(rng, n)
    shape = rng.choice(["random", "random", "dense", "chain", "layers", "split"])
    adj = {}
    order = list(range(n))
    rng.shuffle(order)
    for i in order:
        if shape == "chain":
            outs = [j for j in (i + 1, i + 2) if j < n and rng.random() < 0.8]
            if rng.random() < 0.2:
                outs.append(rng.randrange(n))
        elif shape == "layers":
            outs = [j for j in range(n) if j // 2 == i // 2 + 1 and rng.random() < 0.8] + ([rng.randrange(n)] if rng.random() < 0.3 else [])
        elif shape == "split":
            half = n // 2
            outs = [j for j in range(n) if (j < half) == (i < half) and rng.random() < 0.5]
            if i >= half and rng.random() < 0.3:
                outs.append(rng.randrange(n))
        else:
            p = 0.6 if shape == "dense" else rng.choice([0.15, 0.3, 0.45])
            outs = [j for j in range(n) if rng.random() < p]
        rng.shuffle(outs)
        if outs and rng.random() < 0.25:
            outs.append(rng.choice(outs))  # duplicate neighbour
        if rng.random() < 0.15:
            outs.insert(rng.randrange(len(outs) + 1), i)  # self loop
        if outs or rng.random() < 0.5:
            adj[i] = outs  # nodes without an entry: neighbours() returns []
    start = rng.randrange(n)
    if adj and rng.random() < 0.85:
        start = rng.choice([i for i in adj if adj[i]] or [start])
    r = rng.random()
    if r < 0.12:
        goal = ("none",)
    elif r < 0.6:
        g = rng.randrange(n)
        if rng.random() < 0.12:
            g = start
        goal = ("val", labels[g])
        if rng.random() < 0.06:
            goal = ("val", "absent-node")
    else:
        k = rng.choice([0, 1, 1, 2, 2, 3])
        goal = ("pred", [labels[j] for j in rng.sample(range(n), min(k, n))])
    r = rng.random()
    if r < 0.6:
        max_iter = 1_000_000
    elif r < 0.9:
        max_iter = rng.randint(0, n + 1)
    else:
        max_iter = rng.choice([-1, 0, 1, n, n + 1, 2 * n])
    return labels, [(labels[i], [labels[j] for j in adj[i]]) for i in adj], labels[start], goal, max_iter


# ---------------------------------------------------------------- canonicalisation
def canon_num(x):
    if x is None or isinstance(x, bool):
        return x
    if isinstance(x, float):
        if x == INF:
            return None
        if x == -INF:
            return "-inf"
        if x == int(x):
            return int(x)
    return x


def status_name(r):
    return getattr(r.status, "name", str(r.status))


# ---------------------------------------------------------------- implementation runs
HANGS = [0]


def _limit():
    """5 s per call; once 3 calls have hung, 0.5 s (a hanging implementation must not stall the whole check)"""
    return 5 if HANGS[0] < 3 else 0.5


def _seen_hang():
    HANGS[0] += 1


def _bf_call(start, edges, n, target):
    from solvor.bellman_ford import bellman_ford

    if target is None:
        r = bellman_ford(start, edges, n, backend="python")
    else:
        r = bellman_ford(start, edges, n, target=target, backend="python")
    st = status_name(r)
    if st == "UNBOUNDED":
        return ("Unbounded", canon_num(r.objective), r.solution)
    if st == "INFEASIBLE":
        return ("Infeasible", canon_num(r.objective), r.solution)
    if target is None:
        d = r.solution
        return ("Dists", [canon_num(d[i]) if i in d else None for i in range(n)], canon_num(r.objective), st, sorted(d) == list(d))
    return ("Path", list(r.solution), canon_num(r.objective), st)


def _dijkstra_call(start, target, edges):
    from solvor.dijkstra import dijkstra

    adj = {}
    for u, v, w in edges:
        adj.setdefault(u, []).append((v, w))
    r = dijkstra(start, target, lambda x: adj.get(x, []))
    return (status_name(r), canon_num(r.objective))


def run_bf(start, edges, n, target):
    res = guarded(_bf_call, start, [tuple(e) for e in edges], n, target, timeout=_limit())
    if res[0] == "ok":
        return res[1]
    if res[0] == "exc":
        return ("Error", res[1], res[2]) if res[1] == "ValueError" else ("Exc", res[1], res[2])
    _seen_hang()
    return ("Hang",)


def _fw_call(n, edges, directed):
    from solvor.floyd_warshall import floyd_warshall

    r = floyd_warshall(n, edges, directed=directed, backend="python")
    st = status_name(r)
    if st == "UNBOUNDED":
        return ("Unbounded", canon_num(r.objective), r.solution)
    return ("Dist", [[canon_num(x) for x in row] for row in r.solution], canon_num(r.objective), st)


def run_fw(n, edges, directed):
    res = guarded(_fw_call, n, [tuple(e) for e in edges], directed, timeout=_limit())
    if res[0] == "ok":
        return res[1]
    if res[0] == "exc":
        return ("Error", res[1], res[2]) if res[1] == "ValueError" else ("Exc", res[1], res[2])
    _seen_hang()
    return ("Hang",)


def _tolabel(x):
    return tuple(x) if isinstance(x, list) else x


def _search_call(which, adj, start, goal, max_iter):
    from solvor.bfs import bfs, dfs

    d = {k: v for k, v in adj}
    calls = []

    def neighbors(s):
        calls.append(s)
        return list(d.get(s, []))

    if goal[0] == "none":
        g = None
    elif goal[0] == "val":
        g = goal[1]
    else:
        gs = set(goal[1])
        g = lambda s: s in gs  # noqa: E731
    fn = bfs if which == "bfs" else dfs
    r = fn(start, g, neighbors) if max_iter == 1_000_000 else fn(start, g, neighbors, max_iter=max_iter)
    st = status_name(r)
    if r.solution is None:
        return ("NotFound", st, canon_num(r.objective))
    if goal[0] == "none":
        return ("Visited", st, list(r.solution), canon_num(r.objective))
    return ("Found", st, list(r.solution), canon_num(r.objective))


def run_search(which, adj, start, goal, max_iter):
    res = guarded(_search_call, which, adj, start, goal, max_iter, timeout=_limit())
    if res[0] == "ok":
        return res[1]
    if res[0] == "exc":
        return ("Exc", res[1], res[2])
    _seen_hang()
    return ("Hang",)


def _edges_call(which, n, edges, source, target):
    from solvor.bfs import bfs_edges, dfs_edges

    fn = bfs_edges if which == "bfs" else dfs_edges
    r = fn(n, edges, source, backend="python") if target is None else fn(n, edges, source, target=target, backend="python")
    st = status_name(r)
    if r.solution is None:
        return ("NotFound", st, canon_num(r.objective))
    if target is None:
        return ("Visited", st, list(r.solution), canon_num(r.objective))
    return ("Found", st, list(r.solution), canon_num(r.objective))


# ---------------------------------------------------------------- independent oracle (the property itself)
class GraphOracle:
    """Exact reference for a weighted multigraph on nodes 0..n-1.
    n <= 7: enumeration of simple paths and simple cycles.  n > 7: min-plus closure (n and 2n steps)."""

    def __init__(self, n, edges):
        self.n = n
        self.minw = {}
        self.ws = {}
        for u, v, w in edges:
            self.ws.setdefault((u, v), []).append(w)
            if (u, v) not in self.minw or w < self.minw[(u, v)]:
                self.minw[(u, v)] = w
        self.out = {u: [] for u in range(n)}
        for (u, v) in self.minw:
            self.out[u].append(v)
        self.reach = [self._reach(s) for s in range(n)]
        if n <= 7:
            self._enumerate()
        else:
            self._closure()

    def _reach(self, s):
        seen = {s}
        todo = [s]
        while todo:
            u = todo.pop()
            for v in self.out[u]:
                if v not in seen:
                    seen.add(v)
                    todo.append(v)
        return seen

    def _enumerate(self):
        n = self.n
        self.simple = [[None] * n for _ in range(n)]  # min weight over simple paths
        self.cyc = [None] * n  # min weight over simple cycles through v

        for s in range(n):
            best = self.simple[s]
            on = [False] * n

            def go(u, w):
                if best[u] is None or w < best[u]:
                    best[u] = w
                if (u, s) in self.minw:
                    c = w + self.minw[(u, s)]
                    if self.cyc[s] is None or c < self.cyc[s]:
                        self.cyc[s] = c
                on[u] = True
                for v in self.out[u]:
                    if not on[v]:
                        go(v, w + self.minw[(u, v)])
                on[u] = False

            go(s, 0)
        self.negnodes = {v for v in range(n) if self.cyc[v] is not None and self.cyc[v] < 0}

    def _closure(self):
        n = self.n

        def steps(k):
            d = [[0 if i == j else None for j in range(n)] for i in range(n)]
            for _ in range(k):
                nd = [row[:] for row in d]
                for i in range(n):
                    for (u, v), w in self.minw.items():
                        if d[i][u] is not None and (nd[i][v] is None or d[i][u] + w < nd[i][v]):
                            nd[i][v] = d[i][u] + w
                d = nd
            return d

        a = steps(n - 1)  # best walks of <= n-1 edges
        b = steps(2 * n)
        self.simple = a
        # v lies on / is reachable from a negative cycle from i iff walks keep improving
        self.negfrom = [any(a[i][j] != b[i][j] for j in range(n)) for i in range(n)]
        self.negnodes = None

    def neg_cycle_reachable(self, s):
        if self.negnodes is not None:
            return any(v in self.negnodes for v in self.reach[s])
        return self.negfrom[s]

    def neg_cycle_anywhere(self):
        return any(self.neg_cycle_reachable(s) for s in range(self.n))

    def dist(self, s, t):
        """true distance when no negative cycle is reachable from s; None = unreachable"""
        return self.simple[s][t] if t in self.reach[s] else None

    def path_ok(self, s, t, path, obj):
        if not path or path[0] != s or path[-1] != t:
            return f"path {path} does not run from {s} to {t}"
        sums = {0}
        for a, b in zip(path, path[1:]):
            if (a, b) not in self.ws:
                return f"path {path} uses the non-edge {a}->{b}"
            sums = {x + w for x in sums for w in self.ws[(a, b)]}
        if obj not in sums:
            return f"edge weights along {path} sum to {sorted(sums)}, objective is {obj}"
        return None


def oracle_bf(orc, start, target, out):
    """None if the bellman_ford output obeys the property."""
    if out[0] in ("Exc", "Hang", "Error"):
        return f"implementation {out}"
    neg = orc.neg_cycle_reachable(start)
    if neg:
        return None if out[0] == "Unbounded" and out[1] == "-inf" and out[2] is None else f"negative cycle reachable from {start} but result is {out}"
    if out[0] == "Unbounded":
        return f"UNBOUNDED but no negative cycle is reachable from {start}"
    if target is None:
        if out[0] != "Dists":
            return f"expected distances, got {out}"
        want = [orc.dist(start, t) for t in range(orc.n)]
        if out[1] != want:
            return f"distances {out[1]} differ from the true distances {want}"
        if out[2] != 0 or out[3] != "OPTIMAL":
            return f"objective/status {out[2:4]}"
        return None
    d = orc.dist(start, target)
    if d is None:
        return None if out[0] == "Infeasible" and out[1] is None and out[2] is None else f"target {target} unreachable but result is {out}"
    if out[0] != "Path":
        return f"target {target} reachable (distance {d}) but result is {out}"
    if out[2] != d:
        return f"objective {out[2]} is not the distance {d}"
    if out[3] != "OPTIMAL":
        return f"status {out[3]}"
    return orc.path_ok(start, target, out[1], out[2])


def oracle_fw(orc, out):
    if out[0] in ("Exc", "Hang", "Error"):
        return f"implementation {out}"
    if orc.neg_cycle_anywhere():
        return None if out[0] == "Unbounded" and out[1] == "-inf" and out[2] is None else f"a negative cycle exists but result is {out[0]}"
    if out[0] == "Unbounded":
        return "UNBOUNDED but the graph has no negative cycle"
    want = [[orc.dist(i, j) for j in range(orc.n)] for i in range(orc.n)]
    if out[1] != want:
        bad = [(i, j) for i in range(orc.n) for j in range(orc.n) if out[1][i][j] != want[i][j]][:3]
        return f"matrix differs from the true distances at {bad}: got {[out[1][i][j] for i, j in bad]}, want {[want[i][j] for i, j in bad]}"
    if out[2] != 0 or out[3] != "OPTIMAL":
        return f"objective/status {out[2:4]}"
    return None


def hop_reference(adj, start):
    """hop distance of every reachable label: naive fixpoint of d[v] = min(d[u] + 1)"""
    d = {start: 0}
    changed = True
    succ = {k: v for k, v in adj}
    while changed:
        changed = False
        for u in list(d):
            for v in succ.get(u, []):
                if v not in d or d[u] + 1 < d[v]:
                    d[v] = d[u] + 1
                    changed = True
    return d


def oracle_search(which, adj, start, goal, max_iter, out):
    if out[0] in ("Exc", "Hang"):
        return f"implementation {out}"
    hop = hop_reference(adj, start)
    succ = {k: v for k, v in adj}
    nreach = len(hop)
    if goal[0] == "none":
        if out[0] != "Visited":
            return f"goal None: expected the visited set, got {out}"
        vs = out[2]
        if len(set(vs)) != len(vs) or out[3] != len(vs) or out[1] != "OPTIMAL":
            return f"visited set / objective / status inconsistent: {out}"
        if not set(vs) <= set(hop) or start not in vs:
            return f"visited {vs} contains an unreachable node or misses the start"
        if max_iter >= nreach and set(vs) != set(hop):
            return f"visited {sorted(map(str, vs))} is not the reachable set {sorted(map(str, hop))}"
        return None
    isg = (lambda x: x == goal[1]) if goal[0] == "val" else (lambda x: x in goal[1])
    gd = [hop[v] for v in hop if isg(v)]
    best = min(gd) if gd else None
    if out[0] == "Found":
        path, obj = out[2], out[3]
        if best is None:
            return f"no goal node is reachable but a path {path} was returned"
        if not path or path[0] != start or not isg(path[-1]):
            return f"path {path} does not run from the start to a goal node"
        for a, b in zip(path, path[1:]):
            if b not in succ.get(a, []):
                return f"path {path} uses the non-edge {a}->{b}"
        if obj != len(path) - 1:
            return f"objective {obj} is not the number of edges of {path}"
        if which == "bfs":
            if obj != best or out[1] != "OPTIMAL":
                return f"bfs path has {obj} edges / status {out[1]}, shortest has {best}"
            # found within max_iter pops: needs more pops than there are strictly closer nodes
            closer = sum(1 for v in hop if hop[v] < best)
            if max_iter < closer + 1:
                return f"found with max_iter={max_iter} although {closer} nodes are strictly closer"
        else:
            if out[1] != "FEASIBLE":
                return f"dfs status {out[1]}"
            if max_iter < 1:
                return f"found with max_iter={max_iter}"
        return None
    if out[0] != "NotFound" or out[2] is not None:
        return f"unexpected result {out}"
    if out[1] == "INFEASIBLE":
        if best is not None:
            return f"INFEASIBLE but a goal node is reachable in {best} steps"
        if max_iter <= 0:
            return "INFEASIBLE without a single iteration"
        return None
    if out[1] == "MAX_ITER":
        # legitimate only if the limit can really have stopped the search
        if best is None:
            return None if max_iter <= nreach else f"MAX_ITER with max_iter={max_iter} > {nreach} reachable nodes (goal unreachable)"
        if which == "bfs":
            upto = sum(1 for v in hop if hop[v] <= best)
            return None if max_iter < upto else f"MAX_ITER with max_iter={max_iter} although only {upto} nodes are within distance {best}"
        return None if max_iter < nreach else f"MAX_ITER with max_iter={max_iter} >= {nreach} reachable nodes and a reachable goal"
    return f"unexpected status {out[1]}"


# ---------------------------------------------------------------- Coq terms
def c_edges(edges):
    return clist(edges, lambda e: f"({cnat(e[0])}, {cnat(e[1])}, {cz(e[2])})")


def c_oz(x):
    return copt(x, cz)


def c_bf_result(out):
    if out[0] == "Error":
        return "BF.Error"
    if out[0] == "Unbounded" and out[1] == "-inf" and out[2] is None:
        return "BF.Unbounded"
    if out[0] == "Infeasible" and out[1] is None and out[2] is None:
        return "BF.Infeasible"
    if out[0] == "Path" and isinstance(out[2], int) and out[3] == "OPTIMAL" and all(isinstance(x, int) and x >= 0 for x in out[1]):
        return f"BF.Path {clist(out[1], cnat)} {cz(out[2])}"
    if out[0] == "Dists" and out[2] == 0 and out[3] == "OPTIMAL" and out[4] and all(x is None or isinstance(x, int) for x in out[1]):
        return f"BF.Dists {clist(out[1], c_oz)}"
    return "BF.Hang"  # anything else (exception, hang, non-integral value): never equal to a model result on valid input


def c_fw_result(out):
    if out[0] == "Error":
        return "FW.Error"
    if out[0] == "Unbounded" and out[1] == "-inf" and out[2] is None:
        return "FW.Unbounded"
    if out[0] == "Dist" and out[2] == 0 and out[3] == "OPTIMAL" and all(x is None or isinstance(x, int) for row in out[1] for x in row):
        return f"FW.Dist {clist(out[1], lambda row: clist(row, c_oz))}"
    return "FW.Dist []"


class Numbering:
    def __init__(self):
        self.ix = {}

    def __call__(self, lab):
        lab = _tolabel(lab)
        if lab not in self.ix:
            self.ix[lab] = len(self.ix)
        return self.ix[lab]


def c_search_case(adj, start, goal, max_iter, out):
    """(adj, start, goal, max_iter, result) with labels numbered in first-occurrence order"""
    num = Numbering()
    s = num(start)
    cadj = [(num(k), [num(x) for x in vs]) for k, vs in adj]
    if goal[0] == "none":
        g = "None"
    elif goal[0] == "val":
        g = f"(Bfs.goal_val {cnat(num(goal[1]))})"
    else:
        g = f"(Bfs.goal_set {clist([num(x) for x in goal[1]], cnat)})"
    known = set(num.ix)
    if out[0] == "Found" and all(_tolabel(x) in known for x in out[2]) and isinstance(out[3], int):
        r = f"Bfs.Found Bfs.{out[1]} {clist([num(x) for x in out[2]], cnat)} {cz(out[3])}"
    elif out[0] == "NotFound" and out[2] is None and out[1] in ("INFEASIBLE", "MAX_ITER"):
        r = f"Bfs.NotFound Bfs.{out[1]}"
    elif out[0] == "Visited" and out[1] == "OPTIMAL" and all(_tolabel(x) in known for x in out[2]) and isinstance(out[3], int):
        r = f"Bfs.Visited {clist(sorted(num(x) for x in out[2]), cnat)} {cz(out[3])}"
    else:
        r = "Bfs.Hang"
    cadj_s = clist(cadj, lambda kv: f"({cnat(kv[0])}, {clist(kv[1], cnat)})")
    return f"({cadj_s}, {cnat(s)}, {g}, {cz(max_iter)}, {r})"


# ---------------------------------------------------------------- corpus / fixed edge cases
def fixed_graph_cases():
    return [
        (1, [], "fixed"),
        (1, [(0, 0, 0)], "fixed"),
        (1, [(0, 0, -1)], "fixed"),  # negative self loop: negative cycle of one edge
        (1, [(0, 0, 3)], "fixed"),
        (2, [(0, 1, 5), (0, 1, 2), (0, 1, 7)], "fixed"),  # parallel edges: the minimum counts
        (2, [(0, 1, 1), (1, 0, -1)], "fixed"),  # zero-weight 2-cycle
        (2, [(0, 1, 1), (1, 0, -2)], "fixed"),  # negative 2-cycle
        (3, [(1, 2, -1), (2, 1, 0)], "fixed"),  # negative cycle unreachable from 0
        (3, [(0, 1, 0), (1, 2, 0), (2, 0, 0)], "fixed"),  # all-zero cycle
        (4, [(2, 3, 1), (1, 2, 1), (0, 1, 1)], "fixed"),  # chain listed backwards: needs n-1 rounds
        (5, [(3, 4, -1), (2, 3, -1), (1, 2, -1), (0, 1, -1)], "fixed"),
        (4, [(0, 1, 4), (0, 2, 1), (2, 1, 2), (1, 3, -5), (3, 1, 5)], "fixed"),  # zero cycle behind negative edge
        (4, [(0, 1, 1), (1, 2, 1), (2, 3, 1), (3, 1, -3)], "fixed"),  # negative cycle not through the source
        (3, [(0, 1, 2), (1, 2, -1)], "fixed"),
    ]


def fixed_search_cases():
    big = 1_000_000
    a = [("a", ["b", "c"]), ("b", ["d"]), ("c", ["d"]), ("d", [])]
    return [
        (["a"], [], "a", ("val", "a"), big),
        (["a"], [], "a", ("val", "z"), big),
        (["a"], [("a", ["a"])], "a", ("none",), big),
        (list("abcd"), a, "a", ("val", "d"), big),
        (list("abcd"), a, "a", ("val", "d"), 3),
        (list("abcd"), a, "a", ("val", "d"), 4),
        (list("abcd"), a, "a", ("val", "zz"), 4),  # queue empty exactly when the limit is reached: MAX_ITER
        (list("abcd"), a, "a", ("val", "zz"), 5),
        (list("abcd"), a, "a", ("none",), 2),
        (list("abcd"), a, "a", ("pred", []), big),
        (list("abcd"), a, "a", ("pred", ["c", "d"]), big),
        (list("abcd"), a, "a", ("val", "a"), 0),
        ([0, 1, 2], [(0, [1, 1, 2, 0]), (1, [0, 2]), (2, [2])], 0, ("val", 2), big),
        ([0, 1, 2, 3], [(0, [1, 2]), (2, [3]), (1, [3])], 0, ("val", 3), big),
    ]


def _corpus():
    out = []
    d = VERIF / "corpus" / "C11"
    if d.exists():
        for f in sorted(d.glob("partA_*.json")):  # part B keeps its own files (best_*.json) in the same directory
            out.append(json.loads(f.read_text()))
    return out


def _unjson_label(x):
    return tuple(x) if isinstance(x, list) else x


def _search_from_json(o):
    adj = [(_unjson_label(k), [_unjson_label(x) for x in vs]) for k, vs in o["adj"]]
    goal = tuple(o["goal"])
    if goal[0] == "val":
        goal = ("val", _unjson_label(goal[1]))
    elif goal[0] == "pred":
        goal = ("pred", [_unjson_label(x) for x in goal[1]])
    return adj, _unjson_label(o["start"]), goal, o["max_iter"]


# ---------------------------------------------------------------- judging one case (also used by search / replay)
def judge_graph(n, edges, directed_too=True):
    """Run bellman_ford (every start, no target + every target) and floyd_warshall on one graph.
    Returns (records, problems): records for the Coq checks, problems = list of (what, replay)."""
    problems = []
    recs = {"bf": [], "fw": []}
    orc = GraphOracle(n, edges)
    fw = run_fw(n, edges, True)
    bad = oracle_fw(orc, fw)
    if bad:
        problems.append((f"floyd_warshall: {bad}", {"kind": "fw", "n": n, "edges": edges, "directed": True, "impl": fw}))
    recs["fw"].append((n, edges, True, fw))
    if directed_too:
        sym = [e for (u, v, w) in edges for e in ((u, v, w), (v, u, w))]
        orc2 = GraphOracle(n, sym)
        fwu = run_fw(n, edges, False)
        bad = oracle_fw(orc2, fwu)
        if bad:
            problems.append((f"floyd_warshall(directed=False): {bad}", {"kind": "fw", "n": n, "edges": edges, "directed": False, "impl": fwu}))
        recs["fw"].append((n, edges, False, fwu))
    nonneg = all(w >= 0 for (_, _, w) in edges)
    for s in range(n):
        outs = {}
        for t in [None] + list(range(n)):
            o = run_bf(s, edges, n, t)
            outs[t] = o
            bad = oracle_bf(orc, s, t, o)
            if bad:
                problems.append((f"bellman_ford(start={s}, target={t}): {bad}", {"kind": "bf", "n": n, "edges": edges, "start": s, "target": t, "impl": o}))
        recs["bf"].append((s, edges, n, outs))
        # agreement with dijkstra (part B's solver) on non-negative graphs: same distance / same INFEASIBLE
        if nonneg:
            for t in range(n):
                dj = guarded(_dijkstra_call, s, t, edges, timeout=_limit())
                o = outs[t]
                same = dj[0] == "ok" and ((dj[1][0] == "INFEASIBLE" and o[0] == "Infeasible") or
                                          (dj[1][0] == "OPTIMAL" and o[0] == "Path" and dj[1][1] == o[2]))
                if not same:
                    problems.append((f"dijkstra {dj} and bellman_ford {o} disagree for {s}->{t}",
                                     {"kind": "bf", "n": n, "edges": edges, "start": s, "target": t, "impl": o}))
        # agreement between the two solvers on the shared input
        if fw[0] == "Dist" and outs[None][0] == "Dists" and outs[None][1] != fw[1][s]:
            problems.append((f"bellman_ford and floyd_warshall disagree from source {s}: {outs[None][1]} vs {fw[1][s]}",
                             {"kind": "bf", "n": n, "edges": edges, "start": s, "target": None, "impl": outs[None]}))
        if fw[0] == "Dist" and outs[None][0] == "Unbounded":
            problems.append((f"bellman_ford UNBOUNDED from {s} but floyd_warshall found no negative cycle",
                             {"kind": "bf", "n": n, "edges": edges, "start": s, "target": None, "impl": outs[None]}))
    return recs, problems, orc


def judge_search(adj, start, goal, max_iter):
    problems = []
    outs = {}
    for which in ("bfs", "dfs"):
        o = run_search(which, adj, start, goal, max_iter)
        outs[which] = o
        bad = oracle_search(which, adj, start, goal, max_iter, o)
        if bad:
            problems.append((f"{which}: {bad}", {"kind": "search", "which": which, "adj": adj, "start": start, "goal": list(goal), "max_iter": max_iter, "impl": o}))
    # agreement: dfs finds a path iff bfs does (when no iteration limit interferes)
    b, d = outs["bfs"], outs["dfs"]
    if max_iter >= 1_000_000 and b[0] in ("Found", "NotFound") and d[0] in ("Found", "NotFound") and b[0] != d[0]:
        problems.append((f"bfs and dfs disagree on reachability: {b} vs {d}",
                         {"kind": "search", "which": "bfs", "adj": adj, "start": start, "goal": list(goal), "max_iter": max_iter, "impl": b}))
    return outs, problems


def judge_edges_variants(n, edges, source, target):
    """bfs_edges / dfs_edges (python back-end) against bfs / dfs on the adjacency they build, and against bellman_ford
    on unit weights."""
    problems = []
    pairs = [(u, v) for (u, v, _) in edges]
    adj = [(u, [v for (a, v) in pairs if a == u]) for u in range(n)]
    goal = ("none",) if target is None else ("val", target)
    for which in ("bfs", "dfs"):
        res = guarded(_edges_call, which, n, pairs, source, target, timeout=_limit())
        if res[0] == "hang":
            _seen_hang()
        o = res[1] if res[0] == "ok" else ("Exc",) + tuple(res[1:]) if res[0] == "exc" else ("Hang",)
        base = run_search(which, adj, source, goal, 1_000_000)
        rep = {"kind": "edges", "which": which, "n": n, "edges": pairs, "source": source, "target": target, "impl": o}
        if target is None:
            if o[0] != "Visited" or base[0] != "Visited" or o[2] != sorted(base[2]) or o[3] != 0:
                problems.append((f"{which}_edges without target: {o} vs {which}: {base}", rep))
        else:
            bad = oracle_search(which, adj, source, goal, 1_000_000, o)
            if bad:
                problems.append((f"{which}_edges: {bad}", rep))
            elif o != base:
                problems.append((f"{which}_edges {o} differs from {which} {base} on the same adjacency", rep))
            if which == "bfs":
                unit = [(u, v, 1) for (u, v) in pairs]
                bf = run_bf(source, unit, n, target)
                same = (o[0] == "Found" and bf[0] == "Path" and o[3] == bf[2]) or (o[0] == "NotFound" and bf[0] == "Infeasible")
                if not same:
                    problems.append((f"bfs_edges {o} and bellman_ford on unit weights {bf} disagree", rep))
    return problems


# ---------------------------------------------------------------- shrinking
def shrink_edges(n, edges, still_bad):
    import time

    edges = list(edges)
    changed = True
    t0 = time.time()
    while changed and time.time() - t0 < 20:
        changed = False
        for i in range(len(edges)):
            cand = edges[:i] + edges[i + 1:]
            if still_bad(n, cand):
                edges = cand
                changed = True
                break
    return edges


def _graph_bad(n, edges):
    try:
        _, problems, _ = judge_graph(n, edges)
    except Exception:  # noqa: BLE001
        return False
    return bool(problems)


def malformed_stream(ctx):
    """inputs the code rejects: only 'raises ValueError' is checked (and the model says Error for the nat-expressible ones)"""
    bad = []
    cases = [
        ("bf", (0, [], 0, None)), ("bf", (0, [], -1, None)), ("bf", (2, [], 2, None)), ("bf", (-1, [], 2, None)),
        ("bf", (0, [(0, 2, 1)], 2, None)), ("bf", (0, [(-1, 0, 1)], 2, None)), ("bf", (0, [(0, 1, 1)], 2, 2)), ("bf", (0, [(0, 1, 1)], 2, -1)),
        ("fw", (0, [], True)), ("fw", (2, [(0, 2, 1)], True)), ("fw", (2, [(2, 0, 1)], False)), ("fw", (2, [(0, -1, 1)], True)),
    ]
    for kind, args in cases:
        out = run_bf(*args) if kind == "bf" else run_fw(*args)
        ctx.evaluations += 1
        ctx.count("malformed", out[0])
        if out[0] != "Error":
            bad.append((kind, args, out))
    return bad


# ---------------------------------------------------------------- main entry
def run(ctx: Ctx):
    ctx.rule = ("random weighted multigraphs on 1..7 nodes (thorough: ..12) with duplicate / anti-parallel edges, self loops, zero and "
                "negative weights (non-negative, potential-shifted without negative cycle, arbitrary negative, DAG, unreachable negative "
                "cycle) run through bellman_ford from every start to every target and without target, and floyd_warshall directed and "
                "undirected; random successor dictionaries over int/str/tuple labels (duplicate neighbours, self loops, missing "
                "entries) through bfs/dfs with goal value / predicate / None and max_iter limits.  non-trivial = graph with a cycle or "
                "parallel edges and at least one finite off-diagonal distance, or UNBOUNDED / search with >= 3 reachable nodes; "
                "distinct = canonical JSON of the input")
    ctx.proof_step(["C11"])
    big = ctx.tier == "thorough"
    n_graph = ctx.budget(110, 2000)
    n_search = ctx.budget(350, 5000)

    # ---- cases
    graphs = []
    searches = []
    for o in _corpus():
        if o["kind"] in ("bf", "fw"):
            graphs.append((o["n"], [tuple(e) for e in o["edges"]], "corpus"))
        elif o["kind"] == "search":
            searches.append(_search_from_json(o))
    graphs += fixed_graph_cases()
    searches += [(adj, s, g, mi) for (_, adj, s, g, mi) in fixed_search_cases()]
    graphs += [gen_wgraph(ctx.rng, big) for _ in range(n_graph)]
    for _ in range(n_search):
        _, adj, s, g, mi = gen_search(ctx.rng, big)
        searches.append((adj, s, g, mi))

    for f in ctx.open_findings():
        for wit in f.get("witnesses", []):
            if isinstance(wit, dict) and wit.get("kind") in ("bf", "fw", "search") and replay(dict(wit)) == 1:
                ctx.known_hit(f["id"], f"witness still reproduces: {json.dumps(wit)[:200]}")

    bad_malformed = malformed_stream(ctx)
    for kind, args, out in bad_malformed:
        ctx.violation(f"{kind} accepts malformed input {args}: {out}", {"kind": "malformed", "which": kind, "args": list(args), "impl": out})

    # ---- weighted graphs: bellman_ford + floyd_warshall
    bf_cases, bf_meta, fw_cases, fw_meta, bfspec_cases, fwspec_cases = [], [], [], [], [], []
    for n, edges, kind in graphs:
        recs, problems, orc = judge_graph(n, edges)
        ctx.count("graph_n", n)
        ctx.count("graph_kind", kind)
        for what, rep in problems[:1]:
            if len(ctx.violations) < 3:  # minimise the first few, report the rest as found
                small = shrink_edges(n, edges, _graph_bad)
                _, p2, _ = judge_graph(n, small)
                what, rep = (p2[0] if p2 else (what, rep))
            ctx.violation(what, rep)
        for (gn, ge, directed, out) in recs["fw"]:
            ctx.evaluations += 1
            ctx.count("fw_status" + ("" if directed else "_undirected"), out[0])
            fw_cases.append(f"({cnat(gn)}, {c_edges(ge)}, {cbool(directed)}, {c_fw_result(out)})")
            fw_meta.append((gn, ge, directed, out))
            if out[0] == "Dist":
                fwspec_cases.append(f"({cnat(gn)}, {c_edges(ge)}, {cbool(directed)}, {clist(out[1], lambda row: clist(row, c_oz))})")
        for (s, ge, gn, outs) in recs["bf"]:
            for t, out in outs.items():
                ctx.evaluations += 1
                ctx.count("bf_status", out[0])
                bf_cases.append(f"({cnat(s)}, {c_edges(ge)}, {cnat(gn)}, {copt(t, cnat)}, {c_bf_result(out)})")
                bf_meta.append((s, ge, gn, t, out))
            if outs[None][0] == "Dists" and all(outs[t][0] in ("Path", "Infeasible") for t in range(gn)):
                qs = clist([(t, outs[t]) for t in range(gn)], lambda q: f"({cnat(q[0])}, {c_bf_result(q[1])})")
                bfspec_cases.append(f"({cnat(s)}, {c_edges(ge)}, {cnat(gn)}, {clist(outs[None][1], c_oz)}, {qs})")
        has_par = len({(u, v) for u, v, _ in edges}) < len(edges)
        has_cyc = any(u in orc.reach[v] for (u, v, _) in edges)
        finite = any(recs["bf"][s][3][None][0] == "Dists" and sum(x is not None for x in recs["bf"][s][3][None][1]) > 1 for s in range(n))
        if ((has_par or has_cyc) and finite) or recs["fw"][0][3][0] == "Unbounded":
            ctx.nontriv(("g", n, tuple(edges)))
        ctx.sample({"kind": "graph", "n": n, "edges": edges, "fw": recs["fw"][0][3][0], "bf0": recs["bf"][0][3][None]}, 2)
        # edge-list bfs/dfs wrappers and unit-weight agreement, a few per graph
        if n >= 2 and kind != "corpus":
            src = ctx.rng.randrange(n)
            for tgt in (None, ctx.rng.randrange(n)):
                ctx.evaluations += 2
                for what, rep in judge_edges_variants(n, edges, src, tgt)[:1]:
                    ctx.violation(what, rep)

    chk_bf = "fun c => let '(s, es, n, t, r) := c in BF.result_eqb (BF.bellman_ford s es n t) r"
    bf_fail = ctx.coq_check("bf", IMPORTS, "nat * wgraph * nat * option nat * BF.result", chk_bf, bf_cases, shard=400)
    chk_fw = "fun c => let '(n, es, dir, r) := c in FW.result_eqb (FW.floyd_warshall n es dir) r"
    fw_fail = ctx.coq_check("fw", IMPORTS, "nat * wgraph * bool * FW.result", chk_fw, fw_cases, shard=200)
    # Coq spec checkers (proved sound, independent of the models) on the implementation's outputs
    bfspec_fail = ctx.coq_check("bfspec", IMPORTS, "nat * wgraph * nat * BF.dvec * list (nat * BF.result)",
                                "fun c => let '(s, es, n, d, qs) := c in BFSpec.spec_check s es n d qs", bfspec_cases, shard=200)
    fwspec_fail = ctx.coq_check("fwspec", IMPORTS, "nat * wgraph * bool * FW.mat",
                                "fun c => let '(n, es, dir, m) := c in BFSpec.fw_spec_check n es dir m", fwspec_cases, shard=200)

    # ---- bfs / dfs
    s_cases, s_meta, sspec_cases = {"bfs": [], "dfs": []}, {"bfs": [], "dfs": []}, []
    for adj, start, goal, max_iter in searches:
        outs, problems = judge_search(adj, start, goal, max_iter)
        for what, rep in problems[:1]:
            ctx.violation(what, rep)
        hop = hop_reference(adj, start)
        ctx.count("search_nodes", len(hop))
        ctx.count("search_goal", goal[0])
        ctx.count("search_limit", "default" if max_iter >= 1_000_000 else "small")
        for which in ("bfs", "dfs"):
            out = outs[which]
            ctx.evaluations += 1
            ctx.count(which + "_status", out[1] if len(out) > 1 else out[0])
            s_cases[which].append(c_search_case(adj, start, goal, max_iter, out))
            s_meta[which].append((adj, start, goal, max_iter, out))
            if out[0] in ("Found", "Visited"):
                sspec_cases.append(c_search_case(adj, start, goal, max_iter, out))
        if len(hop) >= 3:
            ctx.nontriv(("s", json.dumps([adj, start, list(goal), max_iter], default=str)))
        ctx.sample({"kind": "search", "adj": adj, "start": start, "goal": list(goal), "max_iter": max_iter, "bfs": outs["bfs"], "dfs": outs["dfs"]}, 4)
    ctype = "Bfs.adjl * nat * option (nat -> bool) * Z * Bfs.result"
    s_fail = {}
    for which in ("bfs", "dfs"):
        chk = f"fun c => let '(adj, s, g, mi, r) := c in Bfs.obs_eqb (Bfs.{which} adj s g mi) r"
        s_fail[which] = ctx.coq_check(which, IMPORTS, ctype, chk, s_cases[which], shard=300)
    sspec_fail = ctx.coq_check("searchspec", IMPORTS, ctype,
                               "fun c => let '(adj, s, g, mi, r) := c in BfsSpec.spec_check adj s g mi r", sspec_cases, shard=400)

    disagree = []
    for i in bf_fail[:3]:
        disagree.append(("bf", bf_meta[i]))
    for i in fw_fail[:3]:
        disagree.append(("fw", fw_meta[i]))
    for which in ("bfs", "dfs"):
        for i in s_fail[which][:3]:
            disagree.append((which, s_meta[which][i]))
    spec_fail = [("bfspec", bfspec_fail), ("fwspec", fwspec_fail), ("searchspec", sspec_fail)]
    for tag, fl in spec_fail:
        if fl and not ctx.violations:
            src = {"bfspec": bfspec_cases, "fwspec": fwspec_cases, "searchspec": sspec_cases}[tag]
            ctx.violation(f"Coq spec checker {tag} rejects an implementation output (Python oracle accepted it)",
                          {"kind": "spec", "tag": tag, "coq_case": src[fl[0]]}, no_input=True)

    ctx.notes += [
        "floats: harness feeds integer weights; integral float objectives/distances are canonicalised to int, inf to None (exact below 2^53)",
        "bellman_ford / floyd_warshall / bfs_edges / dfs_edges are called with backend='python' (the Rust side is C12)",
        "neighbours call-back modelled as the adjacency association list the harness hands to the implementation; labels numbered in first-occurrence order",
        "oracle: simple path / simple cycle enumeration for n <= 7, min-plus closure (n-1 vs 2n steps) above",
        "iterations / evaluations counters of Result are not compared",
    ]

    # ---- search on break
    if (disagree or ctx.broken) and not ctx.violations:
        found = False
        for _ in range(4000):
            n, edges, _ = gen_wgraph(ctx.rng, True)
            _, problems, _ = judge_graph(n, edges)
            if problems:
                small = shrink_edges(n, edges, _graph_bad)
                _, p2, _ = judge_graph(n, small)
                ctx.violation(*(p2[0] if p2 else problems[0]))
                found = True
                break
            _, adj, s, g, mi = gen_search(ctx.rng, True)
            _, problems = judge_search(adj, s, g, mi)
            if problems:
                ctx.violation(*problems[0])
                found = True
                break
        if not found:
            for which, m in disagree[:2]:
                if which == "bf":
                    s, ge, gn, t, out = m
                    model = ctx.coq_eval("bf_show", IMPORTS, f"BF.bellman_ford {cnat(s)} {c_edges(ge)} {cnat(gn)} {copt(t, cnat)}")
                    rep = {"kind": "bf", "n": gn, "edges": ge, "start": s, "target": t, "impl": out, "model": model, "lemma": "Cases/C11/bf_*.v corr"}
                elif which == "fw":
                    gn, ge, directed, out = m
                    model = ctx.coq_eval("fw_show", IMPORTS, f"FW.floyd_warshall {cnat(gn)} {c_edges(ge)} {cbool(directed)}")
                    rep = {"kind": "fw", "n": gn, "edges": ge, "directed": directed, "impl": out, "model": model, "lemma": "Cases/C11/fw_*.v corr"}
                else:
                    adj, start, goal, max_iter, out = m
                    case = c_search_case(adj, start, goal, max_iter, out)
                    model = ctx.coq_eval(which + "_show", IMPORTS, f"let '(adj, s, g, mi, r) := {case} in Bfs.{which} adj s g mi")
                    rep = {"kind": "search", "which": which, "adj": adj, "start": start, "goal": list(goal), "max_iter": max_iter,
                           "impl": out, "model": model, "lemma": f"Cases/C11/{which}_*.v corr"}
                ctx.violation(f"correspondence lemma {which}: Gallina model and implementation differ (status / objective / path / distances)",
                              rep, no_input=True)

    # ---- part B (dijkstra, astar, astar_grid), built by another agent
    try:
        from harness.props import C11_bestfirst  # type: ignore
    except ImportError:
        C11_bestfirst = None
    if C11_bestfirst is not None:
        C11_bestfirst.run_part(ctx)
    if (COQ / "Props" / "C11_bestfirst.v").exists():
        ctx.proof_step(["C11"], props_file="Props/C11_bestfirst.v")
    if (COQ / "Props" / "C11_deep.v").exists(): ctx.proof_step(["C11"], props_file="Props/C11_deep.v")

    # ---- round-2/3 input-shape families for all ten C11 functions (harness/props/C11_shapes.py); run last so that the
    # random stream seen by part B does not depend on how many cases the shape families draw
    from harness.props import C11_shapes

    C11_shapes.run_shapes(ctx)


def replay(obj):
    if obj.get("part") == "shapes":
        from harness.props import C11_shapes

        return C11_shapes.replay(obj)
    k = obj.get("kind") if obj.get("part") != "bestfirst" else "part-B"
    if k in ("bf", "fw"):
        n, edges = obj["n"], [tuple(e) for e in obj["edges"]]
        _, problems, _ = judge_graph(n, edges)
        for what, rep in problems[:5]:
            print("violation:", what)
            print("  impl:", rep.get("impl"))
        if not problems:
            print("bellman_ford / floyd_warshall outputs on this graph satisfy the reference")
        return 1 if problems else 0
    if k == "search":
        adj, start, goal, max_iter = _search_from_json(obj)
        outs, problems = judge_search(adj, start, goal, max_iter)
        print("implementation outputs:", outs)
        for what, _ in problems:
            print("violation:", what)
        return 1 if problems else 0
    if k == "edges":
        problems = judge_edges_variants(obj["n"], [(u, v, 1) for u, v in obj["edges"]], obj["source"], obj["target"])
        for what, _ in problems:
            print("violation:", what)
        return 1 if problems else 0
    if k == "malformed":
        args = obj["args"]
        out = run_bf(*args) if obj["which"] == "bf" else run_fw(*args)
        print("implementation:", out)
        return 0 if out[0] == "Error" else 1
    try:
        from harness.props import C11_bestfirst  # type: ignore

        if hasattr(C11_bestfirst, "replay"):
            return C11_bestfirst.replay(obj)
    except ImportError:
        pass
    print("replay names an unchecked obligation:", obj.get("unchecked") or obj.get("what"))
    return 1
