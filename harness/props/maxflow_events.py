"""Event-directed search for rare execution histories of max_flow (helper of harness/props/C08.py).

`ref_run` is an instrumented Python port of the augmenting-path algorithm as modelled in coq/C08/MaxFlow.v
(capacity keys in insertion order incl. the registered reverse keys, BFS with path lists, cancel-reverse-
flow-first augmentation).  It is NOT an oracle: C08.py checks on every case that its result equals the
implementation's (histogram `reference_port_agrees`); the verdicts come from the min-cut oracle and the Coq
checks.  It reports which rare events a run exhibits:

  e1  a residual arc is used up by an augmentation, later restored by an augmentation through the opposite
      direction, and later crossed again (exhausted -> restored -> reused; needs BFS distances to grow twice)
  e2  partial cancellation on an anti-parallel pair of INPUT arcs (both pooled capacities > 0):
      an augmentation crosses u->v while 0 < flow[v][u] < path_flow
  e3  e2 where adding the whole path_flow to u->v would exceed cap[u][v] (the remainder matters)
  e4  one node pair is crossed by >= 3 different augmentations
  e5  BFS returns None although an augmentation crossed a reverse-only residual arc (capacity 0) earlier

`event_search` = generate (gadget families below) + filter + hill-climb by small mutations (adjacency order,
capacities 1..3, anti-parallel companions, subdivided arcs, extra arcs), everything driven by the rng passed in.
"""
import json

EVENTS = ("e1", "e2", "e3", "e4", "e5")
MAX_NODES = 12


def ref_run(case, fixed=True):
    """-> dict(total, its, flow {(u, v): x > 0}, events set, prog dict of partial progress, cancels)"""
    cap = {}
    for u, adj in case["graph"]:
        for e in adj:
            v, c = e[0], e[1]
            cu = cap.setdefault(u, {})
            cu[v] = cu.get(v, 0) + c
            if fixed:
                cap.setdefault(v, {}).setdefault(u, 0)
    s, t = case["source"], case["sink"]
    cap.setdefault(s, {})
    for u in list(cap):
        for v in cap[u]:
            cap.setdefault(v, {})
    flow = {}
    fget = flow.get
    total = its = cancels = 0
    events = set()
    state = {}    # directed residual arc -> 1 exhausted, 2 restored through the opposite direction, 3 crossed again
    uses = {}     # unordered pair -> number of augmentations crossing it
    rev_only = False
    prog = {"e1": 0, "e2": 0, "e4": 0}
    if s == t:
        return {"total": None, "its": 0, "flow": {}, "events": events, "prog": prog, "cancels": 0, "hot": []}
    while True:
        vis, q, path = {s}, [(s, [s])], None
        qi = 0
        while qi < len(q):
            n, p = q[qi]
            qi += 1
            if n == t:
                path = p
                break
            for nb, cnb in cap[n].items():
                if nb not in vis and cnb - fget((n, nb), 0) + fget((nb, n), 0) > 0:
                    vis.add(nb)
                    q.append((nb, p + [nb]))
        if not path:
            if rev_only:
                events.add("e5")
            break
        its += 1
        prs = list(zip(path, path[1:]))
        d = min(cap[u].get(v, 0) - fget((u, v), 0) + fget((v, u), 0) for u, v in prs)
        for u, v in prs:
            cuv, cvu, fvu, fuv = cap[u].get(v, 0), cap[v].get(u, 0), fget((v, u), 0), fget((u, v), 0)
            if state:
                if state.get((u, v)) == 2:
                    state[(u, v)] = 3
                    events.add("e1")
                if state.get((v, u)) == 1:
                    state[(v, u)] = 2
            k = (v, u) if (v, u) in uses else (u, v)
            nu = uses[k] = uses.get(k, 0) + 1
            if nu >= 3:
                events.add("e4")
            if fvu > 0:
                cancels += 1
                if cuv == 0:
                    rev_only = True
                if cuv > 0 and cvu > 0:
                    if prog["e2"] < 1:
                        prog["e2"] = 1
                    if fvu < d:
                        events.add("e2")
                        prog["e2"] = 2
                        if fuv + d > cuv:
                            events.add("e3")
                r = d if d < fvu else fvu
                flow[(v, u)] = fvu = fvu - r
                flow[(u, v)] = fuv = fuv + d - r
            else:
                flow[(u, v)] = fuv = fuv + d
            if cuv - fuv + fvu == 0 and state.get((u, v), 0) < 3:
                state[(u, v)] = max(1, state.get((u, v), 0))
        total += d
    prog["e1"] = max(state.values(), default=0)
    hot = [a for a, st in state.items() if st == prog["e1"] and st >= 2]
    prog["e4"] = max(uses.values(), default=0)
    return {"total": total, "its": its, "flow": {k: x for k, x in flow.items() if x > 0}, "events": events,
            "prog": prog, "cancels": cancels, "hot": hot}


def n_nodes(case):
    ns = {case["source"], case["sink"]}
    for u, adj in case["graph"]:
        ns.add(u)
        for e in adj:
            ns.add(e[0])
    return len(ns)


def _case(arcs, s, t, rng=None, shuffle_adj=0.0):
    """arcs (u, v, c) in reading order -> case; adjacency lists keep the order of `arcs`"""
    adj, order = {}, []
    for u, v, c in arcs:
        if u not in adj:
            adj[u] = []
            order.append(u)
        adj[u].append([v, c])
    if rng is not None and rng.random() < shuffle_adj:
        rng.shuffle(order)
    return {"graph": [[u, adj[u]] for u in order], "source": s, "sink": t}


# ---------------------------------------------------------------- gadget families
def gen_zigzag(rng):
    """k s-t routes of growing length that successively re-route one another through one middle arc u->v:
    route 1 crosses u->v, route 2 crosses it backwards (v->u residual), route 3 crosses u->v again, ..."""
    k = rng.choice([2, 3, 3, 3])
    cm = rng.choice([1, 1, 1, 2])
    arcs = [("s", "u", cm), ("u", "v", cm), ("v", "t", cm)]
    fresh = iter("abcdefghijklmnop")
    for i in range(2, k + 1):
        extra = i - 2 + rng.choice([0, 0, 0, 1])          # chain length on both sides grows with i
        enter, leave = ("v", "u") if i % 2 == 0 else ("u", "v")
        chain_in = ["s"] + [next(fresh) for _ in range(extra + 1)] + [enter]
        chain_out = [leave] + [next(fresh) for _ in range(extra + 1)] + ["t"]
        c = rng.choice([1, 1, 1, cm])
        arcs += [(a, b, c) for a, b in zip(chain_in, chain_in[1:])]
        arcs += [(a, b, c) for a, b in zip(chain_out, chain_out[1:])]
    if rng.random() < 0.5:
        rng.shuffle(arcs)
    nodes = sorted({x for a in arcs for x in a[:2]})
    for _ in range(rng.choice([0, 0, 1, 2])):
        a, b = rng.sample(nodes, 2)
        arcs.insert(rng.randrange(len(arcs) + 1), (a, b, rng.choice([1, 1, 2])))
    return _case(arcs, "s", "t", rng, 0.3)


def gen_antiparallel(rng):
    """an anti-parallel pair u<->v with capacities like (1,2),(2,3),(1,3) inside a 2-3 layer network: a short route
    first puts flow on v->u, then a longer route with a LARGER bottleneck crosses u->v (partial cancellation)"""
    cuv, cvu = rng.choice([(1, 2), (2, 1), (2, 3), (3, 2), (1, 3), (3, 1), (1, 1), (2, 2)])
    small = rng.randint(1, max(1, cvu))
    big = rng.choice([2, 3, 3, 4])
    arcs = [("s", "v", small), ("v", "u", cvu), ("u", "t", rng.randint(small, 3)),
            ("s", "a", big), ("a", "u", big), ("u", "v", cuv), ("v", "b", big), ("b", "t", big)]
    if rng.random() < 0.4:      # a third layer on the long route
        arcs = [x for x in arcs if x[:2] != ("b", "t")] + [("b", "c", big), ("c", "t", big)]
    if rng.random() < 0.3:      # second short route so that v->u carries more
        arcs += [("s", "w", 1), ("w", "v", 1)]
    if rng.random() < 0.5:
        rng.shuffle(arcs)
    nodes = sorted({x for a in arcs for x in a[:2]})
    for _ in range(rng.choice([0, 0, 1, 2])):
        a, b = rng.sample(nodes, 2)
        arcs.insert(rng.randrange(len(arcs) + 1), (a, b, rng.choice([1, 2, 3])))
    return _case(arcs, "s", "t", rng, 0.3)


def gen_layers(rng):
    """3-4 layers, capacities 1..3, a few anti-parallel companions: raw material for the hill-climber"""
    widths = rng.choice([(2, 2), (2, 2, 2), (3, 2, 2), (2, 3, 2), (2, 2, 3), (3, 3), (2, 2, 2, 2), (3, 3, 3)])
    unit = rng.random() < 0.5
    cap = (lambda: 1) if unit else (lambda: rng.choice([1, 1, 2, 2, 3]))
    layers, n = [["s"]], 0
    for w in widths:
        layers.append([f"n{n + i}" for i in range(w)])
        n += w
    layers.append(["t"])
    arcs = []
    for A, B in zip(layers, layers[1:]):
        for a in A:
            picked = [b for b in B if rng.random() < 0.55] or [rng.choice(B)]
            arcs += [(a, b, cap()) for b in picked]
    for _ in range(rng.choice([0, 1, 2, 3])):
        u, v, c = rng.choice(arcs)
        if u != "s" and v != "t":
            arcs.append((v, u, cap()))
    if rng.random() < 0.5:
        rng.shuffle(arcs)
    return _case(arcs, "s", "t", rng, 0.3)


FAMILIES = (gen_zigzag, gen_antiparallel, gen_layers)


# ---------------------------------------------------------------- mutations
def mutate(rng, case):
    c = json.loads(json.dumps(case))
    g = c["graph"]
    if not g:
        return c
    r = rng.random()
    adjs = [ua for ua in g if ua[1]]
    if r < 0.22 and adjs:                       # reorder one adjacency list
        ua = rng.choice(adjs)
        if len(ua[1]) >= 2:
            i, j = rng.sample(range(len(ua[1])), 2)
            ua[1][i], ua[1][j] = ua[1][j], ua[1][i]
    elif r < 0.34 and len(g) >= 2:              # reorder the outer keys (changes where reverse keys land)
        i, j = rng.sample(range(len(g)), 2)
        g[i], g[j] = g[j], g[i]
    elif r < 0.56 and adjs:                     # capacity 1..3
        rng.choice(rng.choice(adjs)[1])[1] = rng.choice([1, 1, 2, 3])
    elif r < 0.70 and adjs:                     # anti-parallel companion
        ua = rng.choice(adjs)
        e = rng.choice(ua[1])
        if e[0] != ua[0]:
            _add_arc(rng, g, e[0], ua[0], rng.choice([1, 2, 3]))
    elif r < 0.80 and adjs and n_nodes(c) < MAX_NODES:   # subdivide an arc (one more layer on that route)
        ua = rng.choice(adjs)
        k = rng.randrange(len(ua[1]))
        v, cap = ua[1][k][0], ua[1][k][1]
        m = _fresh(c)
        ua[1][k] = [m, cap]
        g.insert(rng.randrange(len(g) + 1), [m, [[v, cap]]])
    elif r < 0.90 and adjs:                     # a new s-t route through an existing arc, forwards or backwards
        ua = rng.choice(adjs)
        u, v = ua[0], rng.choice(ua[1])[0]
        if rng.random() < 0.5:
            u, v = v, u
        route_through(rng, c, u, v)
    elif r < 0.95:                              # extra arc
        ns = _nodes(c)
        if len(ns) >= 2:
            a, b = rng.sample(ns, 2)
            _add_arc(rng, g, a, b, rng.choice([1, 1, 2, 3]))
    elif adjs:                                  # drop an arc
        ua = rng.choice(adjs)
        del ua[1][rng.randrange(len(ua[1]))]
    return c


def route_through(rng, c, u, v):
    """add chains source -> ... -> u and v -> ... -> sink (0-2 new nodes each) so that a new route can cross u -> v"""
    cap = rng.choice([1, 1, 2, 3])
    at_end = rng.random() < 0.6     # read last = tried last by BFS, so older routes keep their priority
    for a, b in ((c["source"], u), (v, c["sink"])):
        if a == b:
            continue
        chain = [a]
        for _ in range(rng.choice([0, 1, 1, 2, 2])):
            if n_nodes(c) + len(chain) - 1 < MAX_NODES:
                chain.append(None)
        names = []
        for x in chain[1:]:
            m = _fresh(c, names)
            names.append(m)
        full = [a] + names + [b]
        for x, y in zip(full, full[1:]):
            _add_arc(rng, c["graph"], x, y, cap, at_end)


def _nodes(c):
    ns = []
    for x in [c["source"], c["sink"]] + [u for u, _ in c["graph"]] + [e[0] for _, a in c["graph"] for e in a]:
        if x not in ns:
            ns.append(x)
    return ns


def _fresh(c, taken=()):
    ns = set(map(str, _nodes(c))) | set(taken)
    k = 0
    while f"m{k}" in ns:
        k += 1
    return f"m{k}"


def _add_arc(rng, g, a, b, cap, at_end=False):
    for ua in g:
        if ua[0] == a:
            ua[1].insert(len(ua[1]) if at_end else rng.randrange(len(ua[1]) + 1), [b, cap])
            return
    g.insert(len(g) if at_end else rng.randrange(len(g) + 1), [a, [[b, cap]]])


def score(res, target):
    p = res["prog"]
    if target in res["events"]:
        return 100
    if target == "e1":
        return 10 * p["e1"] + min(res["its"], 6)
    if target in ("e2", "e3"):
        return 10 * p["e2"] + (5 if "e2" in res["events"] else 0) + min(res["cancels"], 3)
    if target == "e4":
        return 10 * p["e4"] + min(res["its"], 5)
    return min(res["cancels"], 3) + (5 if res["cancels"] and res["its"] >= 2 else 0)   # e5


def minimise(case, target, budget=200):
    """drop arcs / empty keys while the run still exhibits `target`"""
    cur = json.loads(json.dumps(case))
    calls = 0
    changed = True
    while changed and calls < budget:
        changed = False
        for i in range(len(cur["graph"])):
            for j in range(len(cur["graph"][i][1])):
                cand = json.loads(json.dumps(cur))
                del cand["graph"][i][1][j]
                calls += 1
                if target in ref_run(cand)["events"]:
                    cur, changed = cand, True
                    break
            if changed:
                break
    cur["graph"] = [ua for ua in cur["graph"] if ua[1]]
    return cur


def event_search(rng, evals, seeds=(), steps=60, targets=EVENTS):
    """-> list of (case, events) found; `evals` = number of reference runs to spend.  Each round picks a target
    event (round robin), a start (family instance or a mutated seed) and hill-climbs on `score`."""
    found, seen = [], set()
    spent, rnd = 0, 0
    seeds = list(seeds)
    while spent < evals:
        target = targets[rnd % len(targets)]
        rnd += 1
        if seeds and rng.random() < 0.25:
            cur = mutate(rng, rng.choice(seeds))
        else:
            cur = rng.choice(FAMILIES)(rng)
        if n_nodes(cur) > MAX_NODES:
            continue
        res = ref_run(cur)
        spent += 1
        sc = score(res, target)
        for _ in range(steps):
            if target in res["events"] or spent >= evals:
                break
            if target == "e1" and res["hot"] and rng.random() < 0.3:
                # feedback from the instrumentation: an arc was exhausted and restored - offer a further route through it
                cand = json.loads(json.dumps(cur))
                route_through(rng, cand, *rng.choice(res["hot"]))
            else:
                cand = mutate(rng, cur)
            if n_nodes(cand) > MAX_NODES:
                continue
            r2 = ref_run(cand)
            spent += 1
            s2 = score(r2, target)
            if s2 >= sc:
                cur, res, sc = cand, r2, s2
        if res["events"]:
            key = json.dumps(cur, sort_keys=True)
            if key not in seen:
                seen.add(key)
                found.append((cur, set(res["events"])))
    return found
