"""C04 - MILP answers are integer-feasible and OPTIMAL means proven optimal.

Tie to /repo.  Small integer MILPs (n <= 4 variables, m <= 4 rows plus explicit box rows x_j <= u_j, u <= 5; every subset
of integer variables; min and max) are solved by solvor.milp.solve_milp (working tree) under several option sets
(warm start feasible / infeasible / wrong length / fractional, heuristics on/off, lns_iterations 0/3, solution_limit 1/3,
max_iter default/tiny, max_nodes default/tiny, gap_tol 1e-6 / 0.1 / 0).  solvor.milp._lns_improve is wrapped: its return
value is recorded (it is the LNS oracle's answer handed to the model) and it is checked with the code's own
_is_feasible (the hypothesis of the theorems about that oracle).
The same calls are evaluated by the Gallina model SV.C04.Milp.solve_milp instantiated with the C03 simplex model
(SV.C04.MilpInst.run_case) inside coqc by vm_compute: status, solution, objective, `solutions` and - for
heuristics=False - the node count must agree (values within 1e-7 relative, everything discrete exactly).
Independently of Coq, an exact oracle written here (enumeration of the integer points of the box x exact LP by vertex
enumeration over the continuous variables, fractions.Fraction) judges every answer against the property itself, and the
verdicts of all option sets of one instance are compared with each other.
Floats vs Q: a replica of the model in Fractions (C04_port.py) flags runs where some comparison of the model is an exact
tie or within 1e-7 of its threshold; such a run is skipped (and counted) when, and only when, the replica and the
implementation disagree on it.
"""
from __future__ import annotations

import itertools
import json
import math
from fractions import Fraction

from harness.core import COQ, Ctx, VERIF, cbool, clist, cnat, copt, cq, guarded, pmap
from harness.props import C04_families as FAM
from harness.props import C04_port as PORT

ID = "C04"
ANCHORS = ["solvor/milp.py", "solvor/simplex.py", "solvor/lns.py"]
IMPORTS = ("From Coq Require Import QArith.\nFrom SV Require Import C03.Simplex C04.Milp C04.MilpInst.\nOpen Scope Q_scope.")
TOL = 1e-6
F = Fraction


# ---------------------------------------------------------------------------------- generators
def gen_instance(rng, big=False):
    """-> dict(c, A, b, ints (sorted), minimize, family, x0)"""
    n = rng.choice([1, 2, 2, 3, 3, 3, 4, 4])
    m = rng.choice([1, 2, 2, 3, 3, 4])
    fam = rng.choices(["binary", "general", "implicit", "openbox"], [38, 42, 8, 12])[0]
    r = rng.random()
    if r < 0.4:
        ints = list(range(n))
    elif r < 0.8:
        ints = sorted(rng.sample(range(n), rng.randint(1, n)))
    elif r < 0.85:
        ints = []
    else:
        ints = [rng.randrange(n)]
    if fam == "binary":
        u = [1 if j in ints else rng.choice([1, 2, 3]) for j in range(n)]
        lo, hi = rng.choice([(0, 5), (-2, 5), (-3, 4), (1, 6)])
    elif fam == "implicit":
        u = [rng.choice([2, 3, 5]) for j in range(n)]
        lo, hi = rng.choice([(0, 4), (1, 4), (-1, 4)])
    else:
        u = [rng.randint(1, 5 if not big else 6) for _ in range(n)]
        lo, hi = rng.choice([(-5, 5), (-3, 5), (0, 5), (-2, 3)])
    pz = rng.choice([0.0, 0.2, 0.4])
    A = [[0 if rng.random() < pz else rng.randint(lo, hi) for _ in range(n)] for _ in range(m)]
    x0 = [rng.randint(0, u[j]) for j in range(n)]
    style = rng.random()
    if fam == "implicit" and len(ints) >= 2 and rng.random() < 0.6:
        # k*x_j <= k-1 keeps x_j fractional (< 1) in the relaxation, x_i + k*x_j <= k then keeps x_i <= 1 at the LP optimum while
        # integer points with x_j = 0 reach x_i = k: the root "looks binary" but the integers are not binary
        i, j = rng.sample(ints, 2)
        k = rng.choice([2, 2, 3])
        x0 = [0] * n
        r1 = [0] * n
        r1[j] = k
        r2 = [0] * n
        r2[i], r2[j] = 1, k
        A = [r1, r2] + [[rng.choice([0, 0, 1]) if t not in (i, j) else 0 for t in range(n)] for _ in range(max(0, m - 2))]
        b = [k - 1, k] + [rng.choice([1, 2, 3]) for _ in range(max(0, m - 2))]
        cc = [rng.choice([0, 0, 1]) for _ in range(n)]
        cc[i], cc[j] = 1, k + rng.choice([1, 2])
        mn = rng.random() < 0.5
        implicit_c = [-v for v in cc] if mn else cc
        implicit_min = mn
    elif fam == "implicit":
        # rows like x_i + x_k <= 1 keep the LP relaxation of the integer variables inside [0,1] without explicit x_j <= 1 rows
        x0 = [0] * n
        if ints:
            x0[rng.choice(ints)] = rng.choice([0, 1])
        A[0] = [1 if j in ints else 0 for j in range(n)]
        b = [sum(a * x for a, x in zip(row, x0)) + rng.choice([0, 1, 1, 2]) for row in A]
        b[0] = 1
    elif style < 0.6:
        b = [sum(a * x for a, x in zip(row, x0)) + rng.choice([0, 0, 1, 2, 3]) for row in A]
    elif style < 0.8:
        # halves / thirds on the rhs side: 2x <= odd, 3x <= k
        b = [sum(a * x for a, x in zip(row, x0)) + rng.choice([0, 1]) for row in A]
        i = rng.randrange(m)
        A[i] = [a * rng.choice([2, 3]) for a in A[i]]
        b[i] = sum(a * x for a, x in zip(A[i], x0)) + rng.choice([1, 1, 2])
    else:
        b = [rng.randint(-4, 9) for _ in range(m)]
    c = [rng.randint(-5, 5) if rng.random() > 0.15 else 0 for _ in range(n)]
    implicit_c = locals().get("implicit_c")
    if fam != "implicit" and rng.random() < 0.75:
        # packing / covering flavour (fractional LP vertices): maximise profits under positive weights, or minimise costs with >= rows
        minimize = rng.random() < 0.5
        c = [abs(v) + (1 if rng.random() < 0.5 else 0) for v in c]
        A = [[(abs(a) + rng.choice([0, 1, 2])) * (1 if rng.random() < 0.9 else -1) if rng.random() > pz else 0 for a in row] for row in A]
        tot = [sum(abs(a) * u[j] for j, a in enumerate(row)) for row in A]
        b = [max(1, int(t * rng.uniform(0.25, 0.75))) if t else rng.choice([0, 1]) for t in tot]
        if minimize:
            A = [[-a for a in row] for row in A]
            b = [-v for v in b]
    else:
        minimize = rng.random() < 0.5
    if implicit_c is not None:
        c, minimize = implicit_c, locals()["implicit_min"]
    if ints and rng.random() < 0.15 and implicit_c is None:
        # parity rows: k*(x_i +- x_j) = odd number  (relaxation feasible, no integer point) or <= odd
        i = rng.choice(ints)
        j = rng.choice(ints)
        k = rng.choice([2, 2, 3])
        row = [0] * n
        row[i] += k
        row[j] += rng.choice([k, -k]) if j != i else 0
        r = rng.choice([1, 3, 5]) if k == 2 else rng.choice([1, 2, 4])
        A.append(row)
        b.append(r)
        if rng.random() < 0.6:
            A.append([-a for a in row])
            b.append(-r)
    # explicit box rows
    box = []
    for j in range(n):
        if fam == "openbox" and j not in ints and rng.random() < 0.6:
            continue
        box.append(([1 if k == j else 0 for k in range(n)], u[j]))
    if rng.random() < 0.2:
        rng.shuffle(box)
    rows = list(zip(A, b))
    if rng.random() < 0.25:
        rows = box + rows
    else:
        rows = rows + box
    return {"c": c, "A": [list(r[0]) for r in rows], "b": [r[1] for r in rows], "ints": ints, "minimize": minimize,
            "family": fam, "x0": x0}


def root_is_trivial(inst):
    """the LP relaxation (exact, replica simplex) is infeasible/unbounded or already integral in the integer variables"""
    st, x, _, _ = PORT.solve_lp([F(v) for v in inst["c"]], [[F(v) for v in r] for r in inst["A"]], [F(v) for v in inst["b"]],
                                inst["minimize"], F(1, 10**10), 10000)
    return st != "OPTIMAL" or all(x[j].denominator == 1 for j in inst["ints"])


def gen_nontrivial(rng, big=False):
    """two thirds of the instances whose root relaxation settles everything are redrawn"""
    while True:
        inst = gen_instance(rng, big)
        if not (root_is_trivial(inst) and rng.random() < 0.67):
            return inst


def _root_lp(inst):
    return PORT.solve_lp([F(v) for v in inst["c"]], [[F(v) for v in r] for r in inst["A"]], [F(v) for v in inst["b"]],
                         inst["minimize"], F(1, 10**10), 10000)


def gen_bindet(rng):
    """'binary-detection adversaries': mixed instances whose explicit unit-bound rows x_j <= 1 sit on an arbitrary set U of
    variables (integer AND continuous; |U| = #integers with a different set, |U| = #integers - 1, U = integers, supersets,
    arbitrary), written as x_j <= 1 or 2 x_j <= 2, sometimes duplicated; the other variables have boxes up to 5; a coupling row
    x_i + K x_d <= K with a dearer driver d keeps the target integer x_i small in the relaxation while integer points reach
    x_i = K >= 2; a row k x_f <= k-1 makes the relaxation fractional.  Redrawn until the exact root relaxation has every
    integer variable in [0,1] and at least one fractional (the situation in which _detect_binary decides)."""
    last = None
    for _ in range(60):
        n = rng.choice([2, 3, 3, 4, 4])
        allv = list(range(n))
        if rng.random() < 0.75 and n >= 2:
            ints = sorted(rng.sample(allv, rng.randint(1, n - 1)))        # mixed
        else:
            ints = allv[:] if rng.random() < 0.5 else sorted(rng.sample(allv, rng.randint(1, n)))
        cont = [j for j in allv if j not in ints]
        mode = rng.choice(["same_count", "same_count", "one_less", "exact", "arbitrary", "superset", "none"])
        if mode == "same_count" and cont:
            swap = rng.randint(1, min(len(cont), len(ints)))
            U = set(rng.sample(ints, len(ints) - swap)) | set(rng.sample(cont, swap))
        elif mode == "one_less":
            U = set(rng.sample(allv, max(0, len(ints) - 1))) if rng.random() < 0.5 else set(rng.sample(ints, len(ints) - 1))
        elif mode == "exact":
            U = set(ints)
        elif mode == "superset":
            U = set(ints) | set(rng.sample(cont, rng.randint(0, len(cont))))
        elif mode == "none":
            U = set()
        else:
            U = set(rng.sample(allv, rng.randint(0, n)))
        u = [1 if j in U else rng.randint(2, 5) for j in allv]
        rows = []
        for j in allv:
            e = [1 if t == j else 0 for t in allv]
            if j in U:
                form = rng.random()
                if form < 0.25:
                    rows.append(([2 * v for v in e], 2))
                else:
                    rows.append((e, 1))
                if rng.random() < 0.2:
                    rows.append((list(e), 1))                              # duplicated unit row
            elif j in ints or rng.random() < 0.8:
                rows.append((e, u[j]))
        free_ints = [j for j in ints if j not in U]
        i = rng.choice(free_ints) if free_ints and rng.random() < 0.85 else rng.choice(ints)
        others = [j for j in allv if j != i]
        d = rng.choice(others)
        K = rng.randint(2, max(2, min(u[i], 3)))
        r = [0] * n
        r[i], r[d] = 1, K
        rows.append((r, K))
        f = d if rng.random() < 0.6 else rng.choice(ints)
        k = rng.choice([2, 3, 3])
        r = [0] * n
        r[f] = k
        rows.append((r, k - 1))
        if rng.random() < 0.4:
            g = rng.choice(allv)
            r = [rng.choice([0, 1, 1, 2]) for _ in allv]
            r[g] = max(r[g], 1)
            rows.append((r, sum(a * uu for a, uu in zip(r, u)) - rng.randint(0, 2)))
        c = [rng.choice([0, 0, 1, 2]) for _ in allv]
        c[i] = rng.randint(1, 3)
        c[d] = c[i] * K + rng.randint(1, 2)
        minimize = rng.random() < 0.5
        if minimize:
            c = [-v for v in c]
        rng.shuffle(rows)
        inst = {"c": c, "A": [list(a) for a, _ in rows], "b": [bb for _, bb in rows], "ints": ints, "minimize": minimize,
                "family": "bindet:" + mode, "x0": [0] * n}
        last = inst
        st, x, _, _ = _root_lp(inst)
        if st == "OPTIMAL" and all(0 <= x[j] <= 1 for j in ints) and any(x[j].denominator != 1 for j in ints):
            return inst
    return last


def gen_nearmiss(rng):
    """'binary near-miss': mixed instances in which EVERY integer variable x_j has a row with right-hand side 1 where it is the only
    integer column and has coefficient 1 - but a random subset of these rows also carries continuous columns (x_j - 2y <= 1,
    x_j + y <= 1), so they are no unit bounds; occasionally one integer gets another near-miss instead (2 x_j <= 1, 2 x_j <= 2,
    x_j + x_k <= 1, rhs 1.0 / coefficient 1.0 as floats).  A coupling row x_i + K x_d <= K with a dearer driver and a row
    k x_f <= k-1 keep the root relaxation inside [0,1] and fractional, while integer points (using the continuous slack) reach
    x_i >= 2.  Small boxes: the exact oracle judges.  Redrawn until the exact root relaxation has all integers in [0,1], one fractional."""
    last = None
    for _ in range(80):
        n = rng.choice([2, 3, 3, 4, 4])
        allv = list(range(n))
        ints = sorted(rng.sample(allv, rng.randint(1, n - 1)))
        cont = [j for j in allv if j not in ints]
        u = [rng.randint(2, 4) if j in ints else rng.randint(1, 3) for j in allv]
        rows = []
        carriers = []                                  # integers whose rhs-1 row has a negative continuous column
        for j in ints:
            r = [0] * n
            r[j] = rng.choice([1, 1, 1.0])
            kind = rng.choices(["genuine", "neg", "pos", "mixed", "other"], [25, 35, 15, 15, 10])[0]
            rhs = rng.choice([1, 1, 1.0])
            if kind == "neg":
                r[rng.choice(cont)] = -rng.choice([1, 2, 2, 3])
                carriers.append(j)
            elif kind == "pos":
                r[rng.choice(cont)] = rng.choice([1, 2])
            elif kind == "mixed":
                for y in cont:
                    r[y] = rng.choice([-2, -1, 0, 1])
                if any(r[y] < 0 for y in cont):
                    carriers.append(j)
            elif kind == "other":
                form = rng.choice(["2x<=1", "2x<=2", "x+xk<=1", "x<=1+"])
                if form == "2x<=1":
                    r[j] = 2
                elif form == "2x<=2":
                    r[j], rhs = 2, 2
                elif form == "x+xk<=1" and len(ints) > 1:
                    r[rng.choice([t for t in ints if t != j])] = 1
                else:
                    rhs = 1 + rng.choice([0.5, 1])
            rows.append((r, rhs))
            if rng.random() < 0.15:
                rows.append((list(r), rhs))
        for j in allv:
            rows.append(([1 if t == j else 0 for t in allv], u[j]))
        i = rng.choice(carriers) if carriers and rng.random() < 0.85 else rng.choice(ints)
        d = rng.choice([j for j in allv if j != i])
        K = rng.randint(2, max(2, min(u[i], 3)))
        r = [0] * n
        r[i], r[d] = 1, K
        rows.append((r, K))
        f = d if rng.random() < 0.6 else rng.choice(ints)
        k = rng.choice([2, 3, 3])
        r = [0] * n
        r[f] = k
        rows.append((r, k - 1))
        c = [rng.choice([0, 0, 1]) if j in ints else -rng.choice([0, 0, 1]) for j in allv]
        c[i] = rng.randint(2, 4)
        c[d] = c[i] * K + rng.randint(1, 2)
        minimize = rng.random() < 0.5
        if minimize:
            c = [-v for v in c]
        rng.shuffle(rows)
        inst = {"c": c, "A": [list(a) for a, _ in rows], "b": [bb for _, bb in rows], "ints": ints, "minimize": minimize,
                "family": "nearmiss", "x0": [0] * n}
        last = inst
        st, x, _, _ = _root_lp(inst)
        if st == "OPTIMAL" and all(0 <= x[j] <= 1 for j in ints) and any(x[j].denominator != 1 for j in ints):
            return inst
    return last


def gen_variants(rng, inst, k):
    n = len(inst["c"])
    out = [_norm_var({"heuristics": False})]
    for _ in range(k):
        v = {"heuristics": rng.random() < 0.65, "lns_iterations": rng.choice([0, 0, 3, 3, 3]),
             "solution_limit": rng.choice([1, 1, 1, 3, 3, 2]),
             "max_iter": None if rng.random() < 0.8 else rng.randint(0, 5),
             "max_nodes": None if rng.random() < 0.8 else rng.choice([1, 2, 3, 5]),
             "gap_tol": None if rng.random() < 0.75 else rng.choice([0.1, 0.0, 0.5]),
             "seed": rng.randint(0, 999)}
        r = rng.random()
        x0 = [float(x) for x in inst["x0"]]
        if r < 0.35:
            ws = None
        elif r < 0.6:
            ws = x0                                         # feasible when b was built from x0
        elif r < 0.7:
            ws = [float(rng.randint(0, 3)) for _ in range(n)]   # mostly infeasible
        elif r < 0.78:
            ws = x0 + [0.0] if rng.random() < 0.5 else x0[:-1]  # wrong length
        elif r < 0.86 and inst["ints"]:
            ws = list(x0)
            ws[rng.choice(inst["ints"])] += 0.5             # fractional
        elif r < 0.93:
            ws = [x + rng.choice([3e-7, -3e-7, 0.0]) for x in x0]   # inside the eps tolerance
        else:
            ws = [0.0] * n
        v["warm_start"] = ws
        v["form"] = rng.choice(FAM.FORMS)
        v["eps"] = None if rng.random() < 0.9 else rng.choice([1e-9, 1e-7])
        v["lns_destroy_frac"] = None
        out.append(v)
    return out


EDGE = [
    # witness of the repaired defect 5461f0f (node/root LP stopped at max_iter)
    ({"c": [1, 1], "A": [[1, 0], [0, 1]], "b": [3, 3], "ints": [0, 1], "minimize": False},
     [{"max_iter": 0}, {"max_iter": 1}, {"max_iter": 2}, {}]),
    # textbook: max 5x+4y, 6x+4y<=24, x+2y<=6 -> (4,0) 20 ; fractional LP optimum (3,1.5)
    ({"c": [5, 4], "A": [[6, 4], [1, 2], [1, 0], [0, 1]], "b": [24, 6, 5, 5], "ints": [0, 1], "minimize": False},
     [{}, {"heuristics": False}, {"solution_limit": 3}, {"warm_start": [4.0, 0.0]}, {"warm_start": [0.0, 0.0], "max_nodes": 1}]),
    # binary knapsack with explicit x<=1 rows (detect_binary tightens), LNS and rounding active
    ({"c": [5, 4, 3], "A": [[2, 3, 1], [1, 0, 0], [0, 1, 0], [0, 0, 1]], "b": [4, 1, 1, 1], "ints": [0, 1, 2], "minimize": False},
     [{}, {"lns_iterations": 3}, {"heuristics": False}, {"solution_limit": 3, "lns_iterations": 3}, {"gap_tol": 0.5}]),
    # looks binary at the root but the integers are not binary (no x<=1 rows): optimum uses x=2
    ({"c": [-1, -1], "A": [[2, 2], [1, 0], [0, 1], [-3, 1]], "b": [1, 3, 3, 0], "ints": [0, 1], "minimize": True},
     [{}, {"heuristics": False}]),
    ({"c": [1, -2], "A": [[2, -2], [1, 0], [0, 1]], "b": [1, 5, 5], "ints": [0, 1], "minimize": True}, [{}, {"lns_iterations": 3}]),
    # root relaxation (1, 1/2) lies in [0,1]^2 but the integer optimum is (2, 0): tightening to binary would lose it
    ({"c": [1, 3], "A": [[1, 2], [0, 2], [1, 0], [0, 1]], "b": [2, 1, 5, 5], "ints": [0, 1], "minimize": False},
     [{}, {"heuristics": False}, {"lns_iterations": 3}, {"warm_start": [1.0, 0.0]}]),
    ({"c": [-1, -3], "A": [[1, 2], [0, 2], [1, 0], [0, 1]], "b": [2, 1, 5, 5], "ints": [0, 1], "minimize": True}, [{}, {"heuristics": False}]),
    # infeasible integer problem with a feasible relaxation: 2x = 1
    ({"c": [1], "A": [[2], [-2], [1]], "b": [1, -1, 3], "ints": [0], "minimize": True}, [{}, {"warm_start": [0.5]}]),
    # infeasible relaxation; unbounded relaxation (continuous variable without box)
    ({"c": [1, 1], "A": [[1, 1], [-1, -1]], "b": [1, -3], "ints": [0], "minimize": True}, [{}]),
    ({"c": [-1, -1], "A": [[1, -1], [1, 0]], "b": [1, 2], "ints": [0], "minimize": True}, [{}, {"warm_start": [0.0, 0.0]}]),
    # incumbent is the zero vector (`best_solution or sol`)
    ({"c": [1, 1], "A": [[-2, -2], [1, 0], [0, 1]], "b": [-1, 3, 3], "ints": [0, 1], "minimize": True},
     [{"warm_start": [0.0, 0.0]}, {"solution_limit": 3, "warm_start": [1.0, 0.0]}, {"solution_limit": 2}]),
    # no integer variables at all; every variable fixed by its box
    ({"c": [1, -1], "A": [[1, 1], [1, 0], [0, 1]], "b": [3, 2, 2], "ints": [], "minimize": False}, [{}]),
    ({"c": [1, 2], "A": [[1, 1], [1, 0], [0, 1]], "b": [0, 0, 0], "ints": [0, 1], "minimize": False}, [{}]),
]


# ---------------------------------------------------------------------------------- implementation
def _kwargs(inst, var):
    kw = {"minimize": inst["minimize"], "heuristics": var.get("heuristics", True),
          "solution_limit": var.get("solution_limit", 1), "lns_iterations": var.get("lns_iterations", 0),
          "seed": var.get("seed", 0)}
    if var.get("warm_start") is not None:
        kw["warm_start"] = list(var["warm_start"])
    if var.get("max_iter") is not None:
        kw["max_iter"] = var["max_iter"]
    if var.get("max_nodes") is not None:
        kw["max_nodes"] = var["max_nodes"]
    if var.get("gap_tol") is not None:
        kw["gap_tol"] = var["gap_tol"]
    if var.get("eps") is not None:
        kw["eps"] = var["eps"]
    if var.get("lns_destroy_frac") is not None:
        kw["lns_destroy_frac"] = var["lns_destroy_frac"]
    if "seed" in var and var["seed"] is None:
        kw["seed"] = None
    return kw


def small_enough(inst):
    """instances the exact replica and the vm_compute correspondence handle in milliseconds"""
    if inst.get("family", "").startswith("work:") or not all(math.isfinite(v) for v in list(inst["c"]) + list(inst["b"]) + [v for r in inst["A"] for v in r]):
        return False
    return len(inst["c"]) <= 5 and len(inst["b"]) <= 12


def run_impl(inst, var, timeout=5, shared=None):
    """-> dict(status, solution, objective, nodes, solutions, lns=record | None) or dict(fail=...).
    `shared`: (c, A, b, ints, ws) objects to pass instead of fresh copies (aliasing / call-sequence checks)"""
    import warnings

    import solvor.milp as M

    warnings.simplefilter("ignore")          # warn_large_coefficients fires on the magnitude family by design
    rec = {}
    orig = M._lns_improve

    def wrapped(solution, c, A, b, int_set, minimize, eps, max_iter, iterations, destroy_frac, rng):
        out = orig(solution, c, A, b, int_set, minimize, eps, max_iter, iterations, destroy_frac, rng)
        ans = out[0]
        rec["given"] = [float(v) for v in solution]
        rec["answer"] = None if ans is None else [float(v) for v in ans]
        rec["passes_is_feasible"] = ans is None or (len(ans) == len(c) and bool(M._is_feasible(ans, A, b, int_set, eps)))
        return out

    # float-level tie information (used only to decide whether a disagreement on a tie of the exact model can be round-off):
    # fractional parts compared by _most_fractional, heap keys compared by heappush
    ties = {"mf": False, "heap": False}
    orig_mf, orig_push = M._most_fractional, M.heappush

    def mf(solution, int_set, eps):
        fr = [abs(solution[j] - round(solution[j])) for j in int_set]
        fr = [f for f in fr if f > eps / 2]
        if any(a != b and abs(a - b) < 1e-7 for a in fr for b in fr):
            ties["mf"] = True
        return orig_mf(solution, int_set, eps)

    def push(heap, item):
        ties["heap_max"] = max(ties.get("heap_max", 0), len(heap) + 1)
        if len(heap) > 64:
            return orig_push(heap, item)          # tie detection is for the small instances; keep the big trees fast
        if any(k[0] != item[0] and abs(k[0] - item[0]) < 1e-7 + 2.0**-45 * max(abs(k[0]), abs(item[0])) for k in heap):
            ties["heap"] = True
        return orig_push(heap, item)

    M._lns_improve, M._most_fractional, M.heappush = wrapped, mf, push
    kw = _kwargs(inst, var)
    if shared is not None:
        a_c, a_A, a_b, a_ints, a_ws = shared
    else:
        a_c, a_A, a_b, a_ints, a_ws = FAM.apply_form(var.get("form", "list"), list(inst["c"]), [list(r) for r in inst["A"]],
                                                     list(inst["b"]), list(inst["ints"]), kw.get("warm_start"))
    if "warm_start" in kw:
        kw["warm_start"] = a_ws
    try:
        res = guarded(M.solve_milp, a_c, a_A, a_b, a_ints, timeout=timeout, **kw)
    finally:
        M._lns_improve, M._most_fractional, M.heappush = orig, orig_mf, orig_push
    if res[0] != "ok":
        return {"fail": list(res), "lns": rec or None}
    r = res[1]
    sol = None if r.solution is None else [float(v) for v in r.solution]
    sols = None if r.solutions is None else [[float(v) for v in s] for s in r.solutions]
    return {"status": r.status.name, "solution": sol, "objective": float(r.objective), "nodes": int(r.iterations),
            "solutions": sols, "lns": rec or None, "float_ties": ties, "lp_iters": int(r.evaluations)}


# ---------------------------------------------------------------------------------- exact oracle (independent of the model)
def _solve_square(M, rhs):
    k = len(M)
    a = [list(M[i]) + [rhs[i]] for i in range(k)]
    for col in range(k):
        p = next((r for r in range(col, k) if a[r][col] != 0), None)
        if p is None:
            return None
        a[col], a[p] = a[p], a[col]
        inv = 1 / a[col][col]
        a[col] = [v * inv for v in a[col]]
        for r in range(k):
            if r != col and a[r][col] != 0:
                f = a[r][col]
                a[r] = [v - f * w for v, w in zip(a[r], a[col])]
    return [a[i][k] for i in range(k)]


def _vertices(G, h):
    """vertices of {x >= 0, G x <= h} (dimension k = len(G[0]) >= 1): k linearly independent tight constraints"""
    k = len(G[0])
    cons = [(list(map(F, row)), F(r)) for row, r in zip(G, h)] + [([F(-1 if t == j else 0) for t in range(k)], F(0)) for j in range(k)]
    for comb in itertools.combinations(range(len(cons)), k):
        x = _solve_square([cons[i][0] for i in comb], [cons[i][1] for i in comb])
        if x is None:
            continue
        if all(sum(a * v for a, v in zip(row, x)) <= r for row, r in cons):
            yield x


def lp_min(w, G, h):
    """min w.x over {x >= 0, G x <= h}, assuming the LP is not unbounded -> (value, x) or None if empty."""
    k = len(w)
    if k == 0:
        return (F(0), []) if all(F(r) >= 0 for r in h) else None
    best = None
    for x in _vertices(G, h):
        val = sum(F(a) * v for a, v in zip(w, x))
        if best is None or val < best[0]:
            best = (val, x)
    return best


def relaxation_unbounded(inst):
    """exact: the LP relaxation is feasible and its objective unbounded in the asked direction (primal feasible, dual
    infeasible).  Cheap exit: every variable has an explicit box row => bounded."""
    c, A, b = inst["c"], inst["A"], inst["b"]
    n = len(c)
    boxed = set()
    for row, r in zip(A, b):
        nz = [j for j in range(n) if row[j] != 0]
        if len(nz) == 1 and row[nz[0]] > 0:
            boxed.add(nz[0])
    if len(boxed) == n:
        return False
    if next(iter(_vertices(A, b)), None) is None:
        return False
    w = [F(v) if inst["minimize"] else -F(v) for v in c]
    # dual: y >= 0, A^T y >= -w   <=>   (-A^T) y <= w
    At = [[-F(A[i][j]) for i in range(len(A))] for j in range(n)]
    return next(iter(_vertices(At, w)), None) is None


def lp_exact(w, G, h):
    """min w.x over {x >= 0, G x <= h}, exact: 'INF' | 'UNB' | (value, x)   (primal vertices + dual feasibility)"""
    k = len(w)
    if next(iter(_vertices(G, h)), None) is None:
        return "INF"
    Gt = [[-F(G[i][j]) for i in range(len(G))] for j in range(k)]
    if next(iter(_vertices(Gt, [F(v) for v in w])), None) is None:
        return "UNB"
    return lp_min(w, G, h)


def int_box(inst):
    """upper bounds of the integer variables: read off explicit single-variable rows, else max x_j over the relaxation
    (exact LP); 'INF' if the relaxation is empty, None if some integer variable is unbounded above"""
    c, A, b = inst["c"], inst["A"], inst["b"]
    n = len(c)
    ub = {}
    for row, r in zip(A, b):
        nz = [j for j in range(n) if row[j] != 0]
        if len(nz) == 1 and row[nz[0]] > 0:
            j = nz[0]
            v = math.floor(F(r) / F(row[j]))
            ub[j] = min(ub.get(j, v), v)
    for j in inst["ints"]:
        if j not in ub:
            r = lp_exact([F(-1 if t == j else 0) for t in range(n)], A, b)
            if r == "INF":
                return "INF"
            if r == "UNB":
                return None
            ub[j] = math.floor(-r[0])
    return [ub[j] for j in inst["ints"]]


def truth(inst):
    """-> ('UNB',) | ('INF',) | ('OPT', value, point)   exact optimum of the MILP in the direction asked (value = c.x)"""
    if inst.get("known") is not None:
        k = inst["known"]
        if k[0] != "OPT":
            return (k[0],)
        return (k[0], F(k[1]), [F(v) for v in k[2]] if k[2] is not None else ["(optimum known by construction)"])
    if inst.get("reference") is not None:
        return truth(inst["reference"])                 # e.g. the same problem without its rows of right-hand side +inf
    if relaxation_unbounded(inst):
        return ("UNB",)
    c, A, b, ints = inst["c"], inst["A"], inst["b"], inst["ints"]
    n = len(c)
    cont = [j for j in range(n) if j not in ints]
    box = int_box(inst)
    assert box is not None, "generator must bound every integer variable"
    if box != "INF":
        size = 1
        for u in box:
            size *= max(1, u + 1)
        if size > 300000:
            raise ValueError("enumeration box too large for the exact oracle (instances of this size carry their answer in 'known')")
    if box == "INF" or any(u < 0 for u in box):
        return ("INF",)
    w = [F(v) if inst["minimize"] else -F(v) for v in c]
    best = None
    G = [[F(row[j]) for j in cont] for row in A]
    for assign in itertools.product(*[range(u + 1) for u in box]):
        h = [F(b[i]) - sum(F(A[i][j]) * v for j, v in zip(ints, assign)) for i in range(len(A))]
        r = lp_min([w[j] for j in cont], G, h)
        if r is None:
            continue
        val = r[0] + sum(w[j] * v for j, v in zip(ints, assign))
        if best is None or val < best[0]:
            x = [F(0)] * n
            for j, v in zip(ints, assign):
                x[j] = F(v)
            for j, v in zip(cont, r[1]):
                x[j] = v
            best = (val, x)
    if best is None:
        return ("INF",)
    return ("OPT", best[0] if inst["minimize"] else -best[0], best[1])


def check_point(inst, x, what):
    c, A, b, ints = inst["c"], inst["A"], inst["b"], inst["ints"]
    if x is None or len(x) != len(c):
        return f"{what}: not a vector of length {len(c)}: {x}"
    if any(not math.isfinite(v) for v in x):
        return f"{what}: non-finite entry {x}"
    if any(v < -TOL for v in x):
        return f"{what}: negative entry in {x}"
    for j in ints:
        if abs(x[j] - round(x[j])) > TOL:
            return f"{what}: x[{j}] = {x[j]} is not integral"
    for i, row in enumerate(A):
        lhs = sum(a * v for a, v in zip(row, x))
        # TOL plus the round-off of forming the row in doubles (1e-12 relative to the terms: negligible for small data)
        if math.isinf(b[i]) and b[i] > 0 and math.isfinite(lhs):
            continue
        if not lhs <= b[i] + TOL + 1e-12 * (abs(b[i]) + sum(abs(a * v) for a, v in zip(row, x))):
            return f"{what}: row {i} violated ({lhs} > {b[i]}) by {x}"
    return None


def judge(inst, var, out, tr):
    """None if the answer obeys the property, else a description."""
    if "fail" in out:
        if var.get("float_options") and out["fail"][0] == "exc" and out["fail"][1] in ("TypeError", "ValueError"):
            return None                                     # an integral float where an int is needed may be refused
        return f"solve_milp did not return: {out['fail']}"
    st = out["status"]
    if tr[0] == "CAP":
        # the documented LP iteration limit is smaller than the pivots this LP needs: the only honest answer is MAX_ITER
        return None if (st == "MAX_ITER" and out["solution"] is None) else f"LP iteration limit reached at the root but status {st}"
    gap = var.get("gap_tol")
    gap = 1e-6 if gap is None else gap
    lim_iter = var.get("max_iter") is not None
    if st in ("OPTIMAL", "FEASIBLE"):
        bad = check_point(inst, out["solution"], "solution")
        if bad:
            return f"status {st}, {bad}"
        cx = sum(a * v for a, v in zip(inst["c"], out["solution"]))
        if abs(cx - out["objective"]) > TOL * (1 + abs(cx)):
            return f"objective {out['objective']} != c.x = {cx}"
    else:
        if out["solution"] is not None:
            return f"status {st} with a solution"
    for k, s in enumerate(out["solutions"] or []):
        bad = check_point(inst, s, f"solutions[{k}]")
        if bad:
            return f"status {st}, {bad}"
    sign = 1 if inst["minimize"] else -1
    if st == "OPTIMAL":
        if tr[0] != "OPT":
            return f"status OPTIMAL but the exact verdict is {tr[0]}"
        opt = float(tr[1])
        slack = 2 * TOL + gap * max(1.0, abs(out["objective"]))
        if sign * out["objective"] > sign * opt + slack:
            return f"status OPTIMAL with objective {out['objective']} but the integer point {[str(v) for v in tr[2]]} has objective {tr[1]}"
    elif st == "INFEASIBLE":
        if tr[0] == "OPT":
            return f"status INFEASIBLE but {[str(v) for v in tr[2]]} is integer-feasible (objective {tr[1]})"
        if tr[0] == "UNB":
            return "status INFEASIBLE but the relaxation is feasible and unbounded"
    elif st == "UNBOUNDED":
        if tr[0] != "UNB":
            return f"status UNBOUNDED but the relaxation is not unbounded (exact verdict {tr[0]})"
    elif st == "MAX_ITER":
        if not lim_iter and var.get("max_nodes") is None:
            return "status MAX_ITER with the default LP iteration / node limits on a tiny problem"
    if tr[0] == "UNB" and st not in ("UNBOUNDED", "MAX_ITER"):
        return f"the relaxation is unbounded but the status is {st}"
    return None


def judge_group(inst, variants, outs, tr):
    """warm starts / heuristics / LNS never change the verdict: all runs with default limits and solution_limit = 1 must
    agree on the status and (within the gap tolerance) on the objective."""
    if tr[0] == "CAP":
        return None                     # the documented default LP iteration limit is the expected answer here
    ref = None
    for var, out in zip(variants, outs):
        if "fail" in out or var.get("max_iter") is not None or var.get("max_nodes") is not None or var.get("solution_limit", 1) != 1:
            continue
        if out["status"] not in ("OPTIMAL", "INFEASIBLE", "UNBOUNDED"):
            return var, f"status {out['status']} with default limits and solution_limit = 1 (no limit can have been hit)"
        gap = 1e-6 if var.get("gap_tol") is None else var["gap_tol"]
        if ref is None:
            if gap <= 1e-6:
                ref = (var, out)
            continue
        if out["status"] != ref[1]["status"]:
            return var, f"verdict changes with the options: {out['status']} here, {ref[1]['status']} with {_optstr(ref[0])}"
        if out["status"] == "OPTIMAL":
            a, r = out["objective"], ref[1]["objective"]
            if abs(a - r) > 3 * TOL + gap * max(1.0, abs(a), abs(r)):
                return var, f"optimal value changes with the options: {a} here, {r} with {_optstr(ref[0])}"
    return None


def _optstr(var):
    return json.dumps({k: v for k, v in var.items() if v is not None}, sort_keys=True)


# ---------------------------------------------------------------------------------- replica of the model (fragility)
def _exactq(x):
    return F(x)


def run_port(inst, var, out):
    """-> (port result | None, fragile reasons)"""
    lns_answer = None
    if out.get("lns") and out["lns"].get("answer") is not None:
        lns_answer = [lns_q(v) for v in out["lns"]["answer"]]
    ws = var.get("warm_start")
    kw = dict(minimize=inst["minimize"], warm_start=None if ws is None else [F(v) for v in ws],
              solution_limit=var.get("solution_limit", 1), heuristics=var.get("heuristics", True),
              lns_iterations=var.get("lns_iterations", 0), lns_answer=lns_answer)
    if var.get("max_iter") is not None:
        kw["max_iter"] = var["max_iter"]
    if var.get("max_nodes") is not None:
        kw["max_nodes"] = var["max_nodes"]
    if var.get("gap_tol") is not None:
        kw["gap_tol"] = F(var["gap_tol"])
    if var.get("eps") is not None:
        kw["eps"] = F(var["eps"])
    res = guarded(PORT.solve_milp, inst["c"], inst["A"], inst["b"], inst["ints"], timeout=20, **kw)
    if res[0] != "ok":
        return None, [f"replica failed: {res[1:]}"]
    r, fr = res[1]
    # exact ties of the model that the floats reproduce exactly (equal fractional parts / equal heap keys as floats) are not fragile
    ft = out.get("float_ties", {"mf": True, "heap": True})
    why = [w for w in fr.why if not (w == "most_fractional: equal fractional parts" and not ft["mf"])
           and not (w == "heap: equal bounds from different parents" and not ft["heap"])]
    lns = out.get("lns")
    if lns and lns.get("answer") is not None and lns["answer"] != lns["given"] and \
            [lns_q(v) for v in lns["answer"]] == [lns_q(v) for v in lns["given"]]:
        # the incumbent handed to _lns_improve and its answer are the same rational point but differ as floats (round-off in an LP
        # value): `improved_obj < best_obj` / `improved not in all_solutions` are then decided by noise
        why = why + ["lns: answer equals the incumbent up to float round-off"]
    return r, why


def lns_q(v):
    """the float returned by _lns_improve as the rational it stands for (values are small-denominator rationals + round-off)"""
    q = F(v).limit_denominator(10**5)
    return q if abs(q - F(v)) < F(1, 10**9) else F(v)


def _close(a, b):
    return abs(a - b) <= 1e-7 * (1 + abs(a))


def same_as_port(port, out, var):
    if port is None or "fail" in out:
        return False
    if port["status"] != out["status"]:
        return False
    if (port["solution"] is None) != (out["solution"] is None):
        return False
    if port["solution"] is not None:
        if len(port["solution"]) != len(out["solution"]) or not all(_close(float(p), q) for p, q in zip(port["solution"], out["solution"])):
            return False
    po = port["objective"]
    if isinstance(po, str):
        if not (math.isinf(out["objective"]) and (out["objective"] > 0) == (po == "inf")):
            return False
    elif not (math.isfinite(out["objective"]) and _close(float(po), out["objective"])):
        return False
    if not var.get("heuristics", True) and port["nodes"] != out["nodes"]:
        return False
    if (port["solutions"] is None) != (out["solutions"] is None):
        return False
    if port["solutions"] is not None:
        if len(port["solutions"]) != len(out["solutions"]):
            return False
        for s, t in zip(port["solutions"], out["solutions"]):
            if len(s) != len(t) or not all(_close(float(p), q) for p, q in zip(s, t)):
                return False
    return True


# ---------------------------------------------------------------------------------- work item (one instance, all variants)
def _work(item):
    inst, variants = item
    import time as _t
    cpu0 = _t.process_time()
    try:
        tr = truth(inst)
    except (ValueError, OverflowError, ZeroDivisionError):
        tr = ("UNKNOWN",)                                   # NaN / overflow in the data: only the observation families get here
    outs, verdicts, ports = [], [], []
    tmo = inst.get("timeout") or (5 if small_enough(inst) else 40)          # structured large instances take up to ~1 s unloaded
    for var in variants:
        out = run_impl(inst, var, timeout=tmo)
        outs.append(out)
        try:
            verdicts.append(judge(inst, var, out, tr))
        except (OverflowError, ValueError) as e:
            if not inst.get("family", "").startswith("observation:"):
                raise
            verdicts.append(f"not judged ({type(e).__name__} in the exact oracle at this magnitude)")
        if not small_enough(inst):
            ports.append((True, ["large"]))
            continue
        port, why = run_port(inst, var, out) if "fail" not in out else (None, [])
        ports.append((same_as_port(port, out, var), why))
    grp = judge_group(inst, variants, outs, tr)
    if grp is None:
        grp = alias_check(inst, variants, outs)
    _CPU[0] = _t.process_time() - cpu0
    return tr, outs, verdicts, ports, grp


_CPU = [0.0]


def _work_timed(item):
    r = _work(item)
    return r, _CPU[0]


def _same_out(a, b):
    keys = ("status", "solution", "objective", "nodes", "solutions")
    if "fail" in a or "fail" in b:
        return ("fail" in a) == ("fail" in b)
    return all(a[k] == b[k] for k in keys)


def alias_check(inst, variants, outs):
    """A: the caller's objects are not modified and the answer does not depend on earlier calls: the first two option sets are run
    again on ONE shared set of input objects in the order v1, v0, v1 and must reproduce the answers of the fresh calls."""
    if len(variants) < 2 or any("fail" in o for o in outs[:2]) or inst.get("timeout") or inst.get("family", "").startswith("observation:"):
        return None
    import copy
    ws0 = variants[0].get("warm_start") or variants[1].get("warm_start")
    shared = (list(inst["c"]), [list(r) for r in inst["A"]], list(inst["b"]), list(inst["ints"]), None if ws0 is None else list(ws0))
    before = copy.deepcopy(shared)
    for k in (1, 0, 1):
        var = variants[k]
        sh = shared if var.get("warm_start") is None or var.get("warm_start") == ws0 else shared[:4] + (list(var["warm_start"]),)
        out = run_impl(inst, var, shared=sh, timeout=inst.get("timeout") or (5 if small_enough(inst) else 40))
        if shared != before:
            return var, f"solve_milp modified its caller's input objects: {before} -> {shared}"
        if not _same_out(out, outs[k]):
            return var, (f"answer depends on earlier calls / shared input objects: fresh call gave {outs[k].get('status')} "
                         f"{outs[k].get('solution')} {outs[k].get('objective')}, the same call after other calls on the same objects gave "
                         f"{out.get('status')} {out.get('solution')} {out.get('objective')}")
    # A2: edit the caller's objects IN PLACE between calls (same list objects, same ids, same lengths), call again - with a call of
    # the module's LP solver on the same objects in between - and compare with a fresh call on a deep copy of the edited input
    if not all(math.isfinite(v) for v in list(inst["c"]) + list(inst["b"]) + [v for r in inst["A"] for v in r]):
        return None
    import random
    import solvor.simplex as SX
    rng = random.Random(json.dumps([inst["c"], inst["b"]], default=str))
    c, A, b, ints, ws = shared
    edits = []
    for _ in range(3):
        kind = rng.choice(["c", "b", "A", "ints"])
        if kind == "c":
            j = rng.randrange(len(c)); c[j] = c[j] + rng.choice([-2, -1, 1, 2]); edits.append(f"c[{j}]")
        elif kind == "b":
            i = rng.randrange(len(b)); b[i] = b[i] + rng.choice([-1, 1, 2]); edits.append(f"b[{i}]")
        elif kind == "A":
            i = rng.randrange(len(b)); j = rng.randrange(len(c))
            if sum(1 for v in A[i] if v) != 1:                       # keep the explicit box rows (the oracle reads the box off them)
                A[i][j] = A[i][j] + rng.choice([-1, 1]); edits.append(f"A[{i}][{j}]")
        elif ints and len(ints) > 1:
            ints.pop(rng.randrange(len(ints))); edits.append("integers.pop")
    guarded(SX.solve_lp, c, A, b, minimize=inst["minimize"], timeout=5)
    var = variants[0]
    inst2 = {"c": list(c), "A": [list(r) for r in A], "b": list(b), "ints": list(ints), "minimize": inst["minimize"]}
    fresh = run_impl(inst2, var)
    again = run_impl(inst2, var, shared=(c, A, b, ints, None if var.get("warm_start") is None else list(var["warm_start"])))
    if not _same_out(again, fresh):
        return var, (f"after editing the caller's objects in place ({', '.join(edits)}) the call on the SAME objects gave {again.get('status')} "
                     f"{again.get('solution')} {again.get('objective')}, a fresh call on a copy of the edited input gave {fresh.get('status')} "
                     f"{fresh.get('solution')} {fresh.get('objective')} (edited input: c={inst2['c']} A={inst2['A']} b={inst2['b']} ints={inst2['ints']})")
    t2 = None
    try:
        if small_enough(inst2):
            box = int_box(inst2)
            size = 1
            for u in (box if isinstance(box, list) else []):
                size *= max(1, u + 1)
            if box is not None and size <= 5000:
                t2 = truth(inst2)
    except (ValueError, AssertionError):
        t2 = None
    if t2 is not None:
        bad = judge(inst2, var, again, t2)
        if bad:
            return var, f"after in-place edits ({', '.join(edits)}): {bad} (edited input: c={inst2['c']} A={inst2['A']} b={inst2['b']} ints={inst2['ints']})"
    return None


# ---------------------------------------------------------------------------------- Coq terms
def _q(x):
    return cq(F(x))


def _qext(x):
    if math.isinf(x):
        return "PInf" if x > 0 else "NInf"
    return f"(Fin {_q(x)})"


def coq_case(inst, var, out):
    lns_answer = None
    if out.get("lns") and out["lns"].get("answer") is not None:
        lns_answer = [lns_q(v) for v in out["lns"]["answer"]]
    ql = lambda xs: clist(xs, _q)  # noqa: E731
    return ("(mkK {c} {A} {b} {ints} {mn} {eps} {gap} {it} {nd} {ws} {lim} {heur} {lns} {ans} {st} {sol} {obj} {nodes} {sols})".format(
        c=ql(inst["c"]), A=clist(inst["A"], ql), b=ql(inst["b"]), ints=clist(inst["ints"], cnat), mn=cbool(inst["minimize"]),
        eps="milp_eps_default" if var.get("eps") is None else _q(var["eps"]), gap="milp_gap_tol_default" if var.get("gap_tol") is None else _q(var["gap_tol"]),
        it=copt(var.get("max_iter"), cnat), nd=copt(var.get("max_nodes"), cnat),
        ws=copt(var.get("warm_start"), ql), lim=cnat(var.get("solution_limit", 1)), heur=cbool(var.get("heuristics", True)),
        lns=cnat(var.get("lns_iterations", 0)), ans=copt(lns_answer, ql),
        st="S_" + out["status"], sol=copt(out["solution"], ql), obj=_qext(out["objective"]),
        nodes=copt(None if var.get("heuristics", True) else out["nodes"], cnat),
        sols=copt(out["solutions"], lambda ss: clist(ss, ql))))


# ---------------------------------------------------------------------------------- shrinking
def shrink(inst, var, still_bad, budget_s=25.0):
    import time
    t_end = time.time() + budget_s
    _sb = still_bad

    def still_bad(i, v):  # noqa: F811  (time-boxed: a hanging implementation makes every probe cost its timeout)
        return time.time() < t_end and _sb(i, v)

    cur = json.loads(json.dumps({k: inst[k] for k in ("c", "A", "b", "ints", "minimize")}))
    cur["x0"] = inst.get("x0", [0] * len(inst["c"]))
    cur["family"] = inst.get("family", "?")
    changed = True
    while changed:
        changed = False
        for i in range(len(cur["b"])):
            if len(cur["b"]) <= 1:
                break
            t = {**cur, "A": cur["A"][:i] + cur["A"][i + 1:], "b": cur["b"][:i] + cur["b"][i + 1:]}
            if still_bad(t, var):
                cur, changed = t, True
                break
        if changed:
            continue
        for i in range(len(cur["b"])):
            for j in range(len(cur["c"])):
                if cur["A"][i][j] not in (0, 1):
                    t = json.loads(json.dumps(cur))
                    t["A"][i][j] = 0
                    if still_bad(t, var):
                        cur, changed = t, True
                        break
            if changed:
                break
    return cur


def _bad(inst, var):
    try:
        if not small_enough(inst) or int_box(inst) is None:
            return False
        tr = truth(inst)
        out = run_impl(inst, var, timeout=3)
        return judge(inst, var, out, tr) is not None
    except Exception:  # noqa: BLE001
        return False


def check_malformed(ctx):
    """inputs the API must reject (check_matrix_dims / check_integers_valid): the same index listed twice, an index out of range, a
    non-int index, ragged rows, length mismatch, empty A"""
    import solvor.milp as M

    cases = [
        ("duplicate index", ([1, 1], [[1, 1]], [2], [0, 0]), "ValueError"),
        ("duplicate index (equal but distinct ints)", ([1, 1], [[1, 1]], [2], [1, int("1")]), "ValueError"),
        ("index out of range", ([1, 1], [[1, 1]], [2], [2]), "ValueError"),
        ("negative index", ([1, 1], [[1, 1]], [2], [-1]), "ValueError"),
        ("float index", ([1, 1], [[1, 1]], [2], [1.0]), "TypeError"),
        ("ragged row", ([1, 1], [[1, 1], [1]], [2, 2], [0]), "ValueError"),
        ("b too short", ([1, 1], [[1, 1], [1, 0]], [2], [0]), "ValueError"),
        ("empty A", ([1, 1], [], [], [0]), "ValueError"),
    ]
    for name, args, exc in cases:
        res = guarded(M.solve_milp, *args, timeout=5)
        ctx.evaluations += 1
        ok = res[0] == "exc" and res[1] == exc
        ctx.count("malformed", f"{name}: {'raises ' + exc if ok else res}")
        if not ok and name.startswith("duplicate"):
            ctx.count("observation_only_rejects", "observation:duplicate-index: " + str(res)[:60])       # POLICY_X (d): outside the property
            continue
        if not ok:
            ctx.violation(f"solve_milp accepts malformed input ({name}): expected {exc}, got {res}", {"kind": "malformed", "args": list(args)})


def _corpus():
    out = []
    d = VERIF / "corpus" / "C04"
    if d.exists():
        for f in sorted(d.glob("*.json")):
            o = json.loads(f.read_text())
            inst = {k: o[k] for k in ("c", "A", "b", "ints", "minimize")}
            inst["ints"] = sorted(inst["ints"])
            inst["family"] = "corpus"
            inst["x0"] = o.get("x0", [0] * len(o["c"]))
            out.append((inst, [dict(v) for v in o.get("variants", [{}])]))
    return out


def _norm_var(v):
    base = {"heuristics": True, "warm_start": None, "solution_limit": 1, "lns_iterations": 0, "max_iter": None,
            "max_nodes": None, "gap_tol": None, "seed": 0, "eps": None, "lns_destroy_frac": None, "form": "list", "float_options": False}
    base.update(v)
    return base


# ---------------------------------------------------------------------------------- the check
def run(ctx: Ctx):
    ctx.rule = ("integer MILPs: n<=4 variables, m<=4 rows (+ explicit box rows x_j<=u_j, u<=5; a continuous variable may be left "
                "unboxed in the 'openbox' family), data -5..5, families binary / general / implicit-binary / openbox, random subset of "
                "integer variables, min and max; plus 150 'binary-detection adversaries' (unit-bound rows on arbitrary sets of integer and "
                "continuous variables, integer optimum >= 2, root relaxation fractional inside [0,1]); each instance is run under a base option set and 4 (adversaries: 2) random ones (warm start "
                "feasible/infeasible/wrong length/fractional/within eps, heuristics, lns_iterations 0/3, solution_limit 1..3, "
                "max_iter default or 0..5, max_nodes default or 1..5, gap_tol 1e-6/0/0.1/0.5); non-trivial = the run explored >= 2 "
                "B&B nodes or used an incumbent from warm start/rounding/LNS; distinct = canonical JSON of (instance, options)")
    ctx.proof_step(["C04"])
    if (COQ / "Props" / "C04_deep.v").exists(): ctx.proof_step(["C04"], props_file="Props/C04_deep.v")
    ctx.notes += [
        "floats are idealised as exact rationals (model in Q, eps = gap_tol = 1e-6 as in the code); discrete outputs compared exactly, "
        "values within 1e-7 relative; runs where a comparison of the model is an exact tie / within 1e-7 of its threshold are "
        "skipped only when model replica and implementation then disagree (histogram 'fragile')",
        "LP kernel: theorems are relative to lp_sound (hypothesis on the kernel); the correspondence runs instantiate it with the C03 "
        "simplex model SV.C03.Simplex.solve_lp at eps = 1e-6",
        "LNS pass (_lns_improve/_solve_sub_mip, random): not modelled; its recorded return value is the oracle's answer; the hypothesis "
        "'the answer passes _is_feasible' is checked on every run with the code's own _is_feasible and by MilpInst.lns_answer_ok in coqc",
        "set iteration order of int_set: integer indices are passed sorted and duplicate-free (small non-negative ints iterate in "
        "increasing order in CPython); `evaluations` (LP iteration total) is not compared; node count compared for heuristics=False",
        "oracle: the enumeration box of the integer variables is read off explicit single-variable rows (else an exact LP bound)",
        "option eps = 0.0 is not swept (a zero tolerance in float arithmetic is outside sensible input; observation in "
        "corpus/C04/observations/eps_zero.json: solve_milp(..., eps=0.0) can answer INFEASIBLE for a feasible problem); eps is swept over "
        "1e-9, 1e-7, 1e-6",
        "outside the property, OBSERVATION-ONLY (coordinator's POLICY_X: counted in histogram observation_only_rejects, never a violation): "
        "NaN / +-inf as data (families observation:nan-entry, observation:inf-rhs), costs near 1e308, integer data whose exact sums exceed "
        "2^53 (observation:cancel-2^60), the same index listed twice in `integers`",
        "cost vectors whose coefficients differ by a ratio > 1e6 (2^40 + a unit cost) are observation-only (family observation:cost-ratio, "
        "histogram observation_only_rejects): since commit 39737f0 solve_lp scales the objective row and a cost below 1e-10 * max|c| no "
        "longer enters - solve_lp([-1, 5497558138881], [[1,0],[0,1]], [2,2]) -> OPTIMAL 0, optimum -2 (corpus/C04/observations/"
        "cost_ratio_2e12.json); badly scaled in the sense of the property's quantifier (coordinator's decision)",
        "LP kernel tolerance: _solve_node calls solve_lp with eps = min(eps, 1e-10) (commit cccee4d); the model instance is "
        "simplex_kernel (lp_eps eps)",
        "eps = 0: histogram 'eps0_same_result' counts the explored runs on which the model with eps = 0 (the instance for which the C03 "
        "kernel statements are formulated) returns the same Result as with eps = 1e-6; differing runs (warm starts inside the tolerance) "
        "are outside the exact corollary",
    ]
    big = ctx.tier == "thorough"
    n_inst = ctx.budget(320, 5000)
    items = []
    for inst, vs in _corpus():
        items.append((inst, [_norm_var(v) for v in vs]))
    for inst, vs in EDGE:
        i2 = dict(inst)
        i2.setdefault("family", "edge")
        i2.setdefault("x0", [0] * len(inst["c"]))
        items.append((i2, [_norm_var(v) for v in vs]))
    for _ in range(n_inst):
        inst = gen_nontrivial(ctx.rng, big)
        items.append((inst, gen_variants(ctx.rng, inst, 4)))
    for _ in range(ctx.budget(150, 1500)):
        inst = gen_bindet(ctx.rng)
        items.append((inst, gen_variants(ctx.rng, inst, 2)))
    for _ in range(ctx.budget(150, 1500)):
        inst = gen_nearmiss(ctx.rng)
        items.append((inst, [_norm_var({"heuristics": False}), _norm_var({"form": ctx.rng.choice(FAM.FORMS)}),
                             _norm_var({"lns_iterations": ctx.rng.choice([0, 3]), "solution_limit": ctx.rng.choice([1, 1, 3])})]))
    # ---- round-2 families (HARDENING.md): H events, M magnitudes, S sizes, O option sweeps (I forms: in gen_variants; A: in _work)
    for inst in FAM.event_corpus(ctx.budget(6, 12)):
        items.append((inst, [_norm_var({"heuristics": False}), _norm_var({}), _norm_var({"lns_iterations": 3, "form": "tuple"})]))
    kept, seen = FAM.event_search(ctx.rng, pmap, ctx.budget(2500, 40000), ctx.budget(5, 40), ctx.budget(2, 6))
    for e, k in seen.items():
        ctx.count("events_seen_in_search", e, k)
    for inst, want in kept:
        for e in want:
            ctx.count("events_kept", e)
        items.append((inst, [_norm_var({"heuristics": False})] + gen_variants(ctx.rng, inst, 2)[1:]))
    for _ in range(ctx.budget(12, 120)):
        base = gen_nontrivial(ctx.rng, False) if ctx.rng.random() < 0.5 else FAM.gen_tiny(ctx.rng)
        for inst in FAM.magnitude_variants(ctx.rng, base):
            items.append((inst, [_norm_var({"heuristics": False}), _norm_var({"form": ctx.rng.choice(FAM.FORMS)}),
                                 _norm_var({"lns_iterations": 3, "solution_limit": ctx.rng.choice([1, 3])})]))
    for inst in FAM.big_box_templates(ctx.rng):
        items.append((inst, [_norm_var({"heuristics": False}), _norm_var({}), _norm_var({"solution_limit": 3, "form": "float", "max_nodes": 200})]))
    for inst in FAM.size_instances(ctx.rng, big):
        items.append((inst, [_norm_var({"heuristics": False}), _norm_var({}), _norm_var({"lns_iterations": 2})]))
    for _ in range(ctx.budget(5, 30)):
        inst = gen_nontrivial(ctx.rng, False) if ctx.rng.random() < 0.6 else gen_bindet(ctx.rng)
        inst = dict(inst)
        inst["family"] = "sweep:" + inst.get("family", "?").split(":")[0]
        vs = []
        for v in FAM.option_sweeps(ctx.rng):
            v = dict(v)
            if v.get("warm_start") == "x0":
                v["warm_start"] = [float(x) for x in inst["x0"]]
            vs.append(_norm_var(v))
        items.append((inst, [_norm_var({"heuristics": False})] + vs))
    # ---- round-3 families: W work volume, X float forms / extremes (A2: in _work.alias_check)
    for inst, vs in FAM.work_instances(ctx.rng, big):
        items.append((inst, [_norm_var(v) for v in vs]))
    for _ in range(ctx.budget(20, 200)):
        base = gen_nontrivial(ctx.rng, False) if ctx.rng.random() < 0.6 else FAM.gen_tiny(ctx.rng)
        fopts = [{"max_nodes": 50.0, "float_options": True}, {"solution_limit": 3.0, "float_options": True},
                 {"lns_iterations": 3.0, "float_options": True}, {"max_iter": 7.0, "float_options": True},
                 {"gap_tol": 0, "eps": 1e-6, "float_options": True}, {"gap_tol": 1, "float_options": True}]
        items.append((FAM.float_forms(ctx.rng, base), [_norm_var({"heuristics": False}), _norm_var({"form": "tuple"}),
                                                         _norm_var(ctx.rng.choice(fopts)), _norm_var(ctx.rng.choice(fopts))]))
        items.append((FAM.inf_rows(ctx.rng, base), [_norm_var({"heuristics": False}), _norm_var({}), _norm_var({"lns_iterations": 3})]))
        if ctx.rng.random() < 0.5:
            for inst in FAM.extreme_observations(ctx.rng, base):
                items.append((inst, [_norm_var({"heuristics": False}), _norm_var({})]))
    check_malformed(ctx)
    import time as _time
    t_gen = _time.time()
    timed = pmap(_work_timed, items, chunksize=1)
    results = [r for r, _ in timed]
    cpu = {}
    for (inst, _), (_, sec) in zip(items, timed):
        k = inst.get("family", "?").split(":")[0] if not inst.get("family", "").startswith("work:") else inst["family"]
        cpu[k] = round(cpu.get(k, 0.0) + sec, 1)
    ctx.extra["cpu_s_by_family"] = cpu
    ctx.extra["timing_s"] = {"generation": round(t_gen - ctx.t0, 1), "implementation+oracle+replica": round(_time.time() - t_gen, 1)}
    t_coq = _time.time()

    coq_cases, metas = [], []
    spec_cases, spec_metas, gate_cases, gate_metas = [], [], [], []
    for (inst, variants), (tr, outs, verdicts, ports, grp) in zip(items, results):
        ctx.count("family", inst.get("family", "?"))
        if inst.get("family", "") == "nearmiss" and tr[0] == "OPT":
            ctx.count("nearmiss_optimum_needs_int_ge_2", any(v >= 2 for j, v in enumerate(tr[2]) if j in inst["ints"]))
        if inst.get("family", "").startswith("bindet") and tr[0] == "OPT":
            ctx.count("bindet_optimum_needs_int_ge_2", any(tr[2][j] >= 2 for j in inst["ints"]))
        ctx.count("exact_verdict", tr[0])
        ctx.count("n_vars", len(inst["c"]))
        ctx.count("n_int", len(inst["ints"]))
        reported = False
        for var, out, bad, (same, why) in zip(variants, outs, verdicts, ports):
            ctx.evaluations += 1
            ctx.count("status", out.get("status", "FAIL"))
            ctx.count("opt_heuristics", var["heuristics"])
            ctx.count("opt_lns", var["lns_iterations"])
            ctx.count("opt_solution_limit", var["solution_limit"])
            ctx.count("opt_warm", "none" if var["warm_start"] is None else "given")
            ctx.count("opt_limits", ("iter" if var["max_iter"] is not None else "") + ("nodes" if var["max_nodes"] is not None else "") or "default")
            if inst.get("family", "").startswith("observation:"):
                # inputs outside the property's quantifier: counted, never a violation, not sent to the Coq checks either
                ctx.count("observation_only_rejects" if bad else "observation_only_accepted",
                          inst["family"] + (": " + " ".join(bad.split()[:4]) if bad else ""))
                continue
            if bad:
                ctx.count("oracle_rejects", inst.get("family", "?").split(":")[0] + ": " + " ".join(bad.split()[:4]))
                if not reported and len(ctx.violations) < 5 and (not small_enough(inst) or inst.get("known") is not None):
                    # large structured instance: its answer is known by construction, not by enumeration - report it as it is
                    ctx.violation(f"solve_milp: {bad}", {"kind": "milp", **{k: v for k, v in inst.items() if k != "known"}, "options": var,
                                                         "impl": out, "exact_verdict": [str(v) for v in tr[:2]], "known": inst.get("known")})
                    reported = True
                elif not reported and len(ctx.violations) < 5:
                    small = shrink(inst, var, _bad)
                    o2 = run_impl(small, var)
                    t2 = truth(small)
                    ctx.violation(f"solve_milp: {judge(small, var, o2, t2) or bad}",
                                  {"kind": "milp", **small, "options": var, "impl": o2, "exact_verdict": [str(v) for v in t2]})
                    reported = True
                continue
            if "fail" in out:
                continue
            for key in ("form", "eps", "lns_destroy_frac"):
                if var.get(key) not in (None, "list"):
                    ctx.count("opt_" + key, var[key])
            if inst.get("family", "").startswith("work:") and "fail" not in out:
                fam = inst["family"]
                w = ctx.extra.setdefault("work_max", {})
                for key, val in (("bb_nodes_explored", out["nodes"]), ("lp_iterations_total", out.get("lp_iters", 0)),
                                 ("heap_entries", out["float_ties"].get("heap_max", 0))):
                    w[f"{fam}: {key}"] = max(w.get(f"{fam}: {key}", 0), val)
                    for thr in (2**7, 2**10, 2**11, 2**12, 10**4, 10**5):
                        if val > thr:
                            ctx.count("work_crossed_" + key, f"> {thr}")
            if why == ["large"]:
                ctx.count("large_instances_judged_by_construction", inst.get("family", "?"))
                ctx.nontriv(json.dumps([inst["family"], len(inst["c"]), len(inst["b"]), var], sort_keys=True, default=str))
                continue
            lns = out.get("lns")
            if lns:
                ctx.count("lns_called", "improved" if lns["answer"] != lns["given"] else "same")
                if not lns["passes_is_feasible"]:
                    ctx.violation("_lns_improve returned a point that fails the code's own _is_feasible (hypothesis of the C04 theorems "
                                  "about the LNS oracle; heuristic incumbents are not feasibility-checked)",
                                  {"kind": "milp", **inst, "options": var, "impl": out})
                    continue
            spec_cases.append(coq_case(inst, var, out))
            spec_metas.append((inst, var, out))
            nontrivial = out["nodes"] >= 2 or (lns is not None) or (out["solutions"] is not None and len(out["solutions"]) > 1)
            if nontrivial:
                ctx.nontriv(json.dumps([inst["c"], inst["A"], inst["b"], inst["ints"], inst["minimize"], var], sort_keys=True, default=str))
            ctx.count("nodes", out["nodes"] if out["nodes"] < 10 else "10+")
            if why:
                ctx.count("fragile", "flagged, agree" if same else "flagged, disagree -> skipped")
                if not same:
                    ctx.count("fragile_reason", why[0])
                    continue
            else:
                ctx.count("fragile", "not flagged")
            ctx.sample({"input": {k: inst[k] for k in ("c", "A", "b", "ints", "minimize")}, "options": var,
                        "impl": {k: out[k] for k in ("status", "solution", "objective", "nodes", "solutions")}, "exact": [str(v) for v in tr[:2]]})
            ctx.traces_validated += 1
            coq_cases.append(coq_case(inst, var, out))
            metas.append((inst, var, out))
        if small_enough(inst):
            gate_cases.append(coq_case(inst, _norm_var({}), {"status": "OPTIMAL", "solution": None, "objective": 0.0, "nodes": 0, "solutions": None}))
            gate_metas.append(inst)
        if grp and not reported and len(ctx.violations) < 8 and not inst.get("family", "").startswith("observation:"):
            var, what = grp
            ctx.violation(f"solve_milp: {what}", {"kind": "milp-group", **{k: v for k, v in inst.items() if k != "known"}, "options": var, "all_options": variants,
                                                   "impl": outs, "exact_verdict": [str(v) for v in tr[:2]]})

    # the implementation's results judged by the boolean specification proved sound in Coq (independent of the model's answer)
    spec_bad = ctx.coq_check("spec", IMPORTS, "milp_case", "impl_spec_check", spec_cases, shard=200)
    for i in spec_bad[:3]:
        inst, var, out = spec_metas[i]
        ctx.violation("spec_check (proved sound: C04_spec_check_sound) rejects the implementation's result: a returned point fails "
                      "A x <= b + eps / x >= -eps / integrality within eps, or objective != c.x", {"kind": "milp", **inst, "options": var, "impl": out})
    # the boolean hypotheses of the theorems (milp_input_ok, LP kernel = simplex model) on every explored input
    gate_bad = ctx.coq_check("gate", IMPORTS, "milp_case", "gate_check", gate_cases, shard=100)
    ctx.count("theorem_hypotheses_hold", "yes", len(gate_cases) - len(gate_bad))
    if gate_bad:
        ctx.count("theorem_hypotheses_hold", "no", len(gate_bad))
        inst = gate_metas[gate_bad[0]]
        ctx.violation("milp_input_ok is false on an explored input (eps range, dimensions / sorted integer indices, or a non-zero "
                      "coefficient of absolute value <= eps): the C04 theorems do not cover it",
                      {"kind": "milp", **inst, "options": _norm_var({}), "lemma": "Cases/C04/gate_*.v corr"}, no_input=True)
    failing = ctx.coq_check("corr", IMPORTS, "milp_case", "corr_check", coq_cases, shard=40)
    disagree = [metas[i] for i in failing]
    # exact arithmetic with eps = 0 takes the same decisions as eps = 1e-6 (counted, not a failure: cases where it does not are
    # outside the eps = 0 corollary C04_exact_simplex_corollary)
    ok_cases = [c for i, c in enumerate(coq_cases) if i not in set(failing)]
    diff0 = ctx.coq_check("eps0", IMPORTS, "milp_case", "eps0_check", ok_cases, shard=40)
    ctx.count("eps0_same_result", "yes", len(ok_cases) - len(diff0))
    ctx.count("eps0_same_result", "no", len(diff0))
    # coq_check counts a shard with failing indices as not discharged; these shards are measurements, not obligations
    ctx.obligations -= len({i // 40 for i in diff0})
    lns_bad = ctx.coq_check("lnsok", IMPORTS, "milp_case", "lns_answer_ok", [c for c, m in zip(coq_cases, metas) if m[2].get("lns")], shard=200)
    if lns_bad and not ctx.violations:
        ctx.violation("lns_answer_ok: a recorded _lns_improve answer fails the model's is_feasible", {"lemma": "Cases/C04/lnsok_*.v corr"}, no_input=True)

    ctx.extra["timing_s"]["coq_cases"] = round(_time.time() - t_coq, 1)
    if (disagree or ctx.broken) and not ctx.violations:
        found = False
        search = []
        for inst, var, out in disagree[:10]:
            for _ in range(6):
                search.append((inst, gen_variants(ctx.rng, inst, 4)))
        search += [(i, gen_variants(ctx.rng, i, 4)) for i in (gen_nontrivial(ctx.rng, True) for _ in range(ctx.budget(1500, 8000)))]
        for (inst, variants), (tr, outs, verdicts, ports, grp) in zip(search, pmap(_work, search, chunksize=2)):
            for var, out, bad in zip(variants, outs, verdicts):
                if bad:
                    small = shrink(inst, var, _bad)
                    o2 = run_impl(small, var)
                    t2 = truth(small)
                    ctx.violation(f"solve_milp: {judge(small, var, o2, t2) or bad}",
                                  {"kind": "milp", **small, "options": var, "impl": o2, "exact_verdict": [str(v) for v in t2]})
                    found = True
                    break
            if not found and grp:
                var, what = grp
                ctx.violation(f"solve_milp: {what}", {"kind": "milp-group", **inst, "options": var, "all_options": variants, "impl": outs})
                found = True
            if found:
                break
        if not found:
            for inst, var, out in disagree[:1]:
                model = ctx.coq_eval("corr_show", IMPORTS, "run_case " + coq_case(inst, var, out))
                ctx.violation("correspondence lemma corr: model SV.C04.Milp.solve_milp (LP kernel = C03 simplex model) and "
                              "solvor.milp.solve_milp differ (status / solution / objective / solutions / node count)",
                              {"kind": "milp", **inst, "options": var, "impl": out, "model": model[-1500:], "lemma": "Cases/C04/corr_*.v corr"},
                              no_input=True)


def replay(obj):
    kind = obj.get("kind")
    if kind in ("milp", "milp-group"):
        inst = {k: obj[k] for k in ("c", "A", "b", "ints", "minimize")}
        if obj.get("known") is not None:
            inst["known"] = obj["known"]
        var = _norm_var(obj.get("options", {}))
        tr = truth(inst)
        rc = 0
        for v in ([var] if kind == "milp" else [_norm_var(x) for x in obj.get("all_options", [var])]):
            out = run_impl(inst, v)
            bad = judge(inst, v, out, tr)
            print("options:", _optstr(v))
            print("solve_milp:", out)
            print("judgement:", bad or "ok")
            if out.get("lns") and not out["lns"]["passes_is_feasible"]:
                print("LNS answer fails _is_feasible")
                rc = 1
            rc = rc or (1 if bad else 0)
        if kind == "milp-group":
            vs = [_norm_var(x) for x in obj.get("all_options", [var])]
            outs = [run_impl(inst, v) for v in vs]
            g = judge_group(inst, vs, outs, tr)
            print("group judgement:", g[1] if g else "ok")
            rc = rc or (1 if g else 0)
        print("exact verdict:", [str(v) for v in tr])
        return rc
    if kind == "malformed":
        import solvor.milp as M

        res = guarded(M.solve_milp, *obj["args"], timeout=5)
        print("result:", res)
        return 0 if res[0] == "exc" else 1
    print("replay names an unchecked obligation:", obj.get("unchecked") or obj.get("what"))
    return 1
