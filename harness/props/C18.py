"""C18 - job-shop schedules (this module) and VRPTW routes (harness/props/C18_vrp.py, if present) are
structurally valid and honestly scored.

Job-shop part.  Tie to /repo: random job lists x dispatch rules x seeds x local-search lengths are run on
solvor.job_shop.solve_job_shop (working tree) with `Random` in the module namespace replaced by a recording
subclass (every rng.choice / rng.randrange answer is logged in call order).  The Gallina model
SV.C18.JobShop.solve is evaluated inside coqc (vm_compute) on the same input with the recorded answers as
its oracle list: schedule, objective and status must be equal and every recorded answer consumed.
Independently, (a) a Python oracle written from the property text and (b) the Coq boolean `spec_check`
(proved sound w.r.t. js_spec in C18/JobShopSpec.v) judge the implementation's outputs.
"""
import json
import random as _random

from harness.core import COQ, VERIF, Ctx, cbool, clist, cnat, copt, cz, guarded, pmap

ID = "C18"
ANCHORS = ["solvor/job_shop.py", "solvor/vrp.py", "solvor/lns.py"]

RULES = ["spt", "lpt", "mwkr", "fifo", "random"]
RULE_COQ = {"fifo": "Fifo", "spt": "Spt", "lpt": "Lpt", "mwkr": "Mwkr", "random": "Rnd"}
IMPORTS = "From SV Require Import C18.JobShop C18.JobShopSpec."


# ---------------------------------------------------------------- generators
def gen_jobs(rng, big=False):
    n_jobs = rng.choice([1, 2, 2, 3, 3, 3, 4, 4] + ([5] if big else []))
    n_mach = rng.choice([1, 2, 2, 3, 3, 4])
    max_ops = rng.choice([1, 2, 3, 4, 4] + ([5] if big else []))
    dur_hi = rng.choice([1, 3, 5, 9])
    jobs = []
    for _ in range(n_jobs):
        k = rng.randint(1, max_ops)
        job = []
        for _ in range(k):
            m = rng.randrange(n_mach)
            if job and rng.random() < 0.15:
                m = job[-1][0]  # repeated machine inside a job
            d = 0 if rng.random() < 0.12 else rng.randint(1, dur_hi)
            job.append([m, d])
        jobs.append(job)
    return jobs


def gen_case(rng, big=False):
    jobs = gen_jobs(rng, big)
    rule = rng.choice(RULES)
    r = rng.random()
    if r < 0.04:
        rule = rule.upper()  # rule.lower() in the code
    case = {
        "jobs": jobs,
        "rule": rule,
        "seed": rng.randrange(1000),
        "local_search": rng.random() < 0.8,
        # 150 > max_no_improve = 100: reaches the `no_improve >= max_no_improve` exit (kept to small instances: cost)
        "max_iter": rng.choice([0, 1, 1, 5, 5, 5, 30, 30, 30, 30] + ([150] if rng.random() < 0.25 and sum(map(len, jobs)) <= 12 else [])),
        "cb_k": None,
        "interval": 0,
    }
    if rng.random() < 0.12:  # on_progress call-back asking to stop from iteration K on, every `interval` iterations
        case["cb_k"] = rng.randint(1, 8)
        case["interval"] = rng.choice([0, 1, 1, 2, 3])
    # the input classes named by the quantifier / the validation code
    r = rng.random()
    if r < 0.02:
        case["jobs"] = []
    elif r < 0.04:
        jobs[rng.randrange(len(jobs))] = []  # empty job -> ValueError
    elif r < 0.055:
        rng.choice(rng.choice(jobs))[0] = -1  # negative machine -> ValueError
    elif r < 0.07:
        rng.choice(rng.choice(jobs))[1] = -2  # negative duration -> ValueError
    elif r < 0.085:
        case["rule"] = "xyz"  # unknown rule -> ValueError
    elif r < 0.11:
        # sparse machine indices (n_machines = max + 1)
        for job in jobs:
            for o in job:
                o[0] = o[0] * 3 + 1
    return case


FIXED = [
    {"jobs": [[[0, 3], [1, 2], [2, 2]], [[0, 2], [2, 1], [1, 4]]], "rule": "spt", "seed": 0, "local_search": True, "max_iter": 30, "cb_k": None, "interval": 0},
    {"jobs": [[[0, 0]]], "rule": "fifo", "seed": 1, "local_search": True, "max_iter": 5, "cb_k": None, "interval": 0},
    {"jobs": [[[0, 2], [0, 2], [0, 0]], [[0, 1], [0, 3]]], "rule": "random", "seed": 3, "local_search": True, "max_iter": 30, "cb_k": None, "interval": 0},
    {"jobs": [[[1, 5]], [[1, 1]], [[1, 3]], [[1, 0]]], "rule": "lpt", "seed": 2, "local_search": True, "max_iter": 150, "cb_k": None, "interval": 0},
    {"jobs": [[[0, 4], [1, 1]], [[1, 3], [0, 1]], [[0, 1], [1, 1]]], "rule": "mwkr", "seed": 7, "local_search": True, "max_iter": 30, "cb_k": 2, "interval": 1},
    {"jobs": [[[0, 4], [1, 1]], [[1, 3], [0, 1]]], "rule": "MWKR", "seed": 7, "local_search": False, "max_iter": 30, "cb_k": None, "interval": 0},
    {"jobs": [], "rule": "spt", "seed": 0, "local_search": True, "max_iter": 5, "cb_k": None, "interval": 0},
    {"jobs": [[[0, 1]], []], "rule": "spt", "seed": 0, "local_search": True, "max_iter": 5, "cb_k": None, "interval": 0},
    {"jobs": [[[0, 1]]], "rule": "nope", "seed": 0, "local_search": False, "max_iter": 5, "cb_k": None, "interval": 0},
]


# ---------------------------------------------------------------- implementation run (records the RNG answers)
def run_impl(case):
    import solvor.job_shop as js

    draws = []

    class RecRandom(_random.Random):
        def choice(self, seq):
            r = super().choice(seq)
            draws.append(list(seq).index(r))
            return r

        def randrange(self, *a, **kw):
            r = super().randrange(*a, **kw)
            draws.append(int(r))
            return r

    kw = dict(rule=case["rule"], local_search=case["local_search"], max_iter=case["max_iter"], seed=case["seed"])
    if case.get("cb_k") is not None:
        k = case["cb_k"]
        kw["on_progress"] = lambda p: p.iteration >= k
        kw["progress_interval"] = case["interval"]
    jobs = [[tuple(o) for o in job] for job in case["jobs"]]
    orig = js.Random
    js.Random = RecRandom
    try:
        res = guarded(js.solve_job_shop, jobs, timeout=20, **kw)  # worst generated case runs < 1 s; 20 s = a real hang, also under load
    finally:
        js.Random = orig
    if res[0] == "ok":
        r = res[1]
        sol = r.solution
        if not isinstance(sol, dict):
            return {"kind": "bad", "what": f"solution is {type(sol).__name__}", "draws": draws}
        try:
            items = sorted([int(k[0]), int(k[1]), _num(v[0]), _num(v[1])] for k, v in sol.items())
        except Exception as e:  # noqa: BLE001
            return {"kind": "bad", "what": f"malformed schedule: {e}", "draws": draws}
        return {"kind": "ok", "schedule": items, "objective": _num(r.objective), "status": r.status.name,
                "iterations": r.iterations, "draws": draws}
    if res[0] == "exc":
        return {"kind": "exc", "type": res[1], "msg": res[2], "draws": draws}
    return {"kind": "hang", "draws": draws}


def _num(x):
    if isinstance(x, bool):
        return x
    if isinstance(x, float) and x == int(x):
        return int(x)
    return x


def run_pair(case):
    """Implementation output + (for the histogram) the objective of the same call without local search."""
    out = run_impl(case)
    base = None
    if out["kind"] == "ok" and case["local_search"]:
        b = run_impl({**case, "local_search": False, "cb_k": None})
        if b["kind"] == "ok":
            base = b["objective"]
    return out, base


# ---------------------------------------------------------------- independent oracle (the property text)
def input_valid(case):
    jobs = case["jobs"]
    if not jobs:
        return True
    for job in jobs:
        if not job:
            return False
        for m, d in job:
            if m < 0 or d < 0:
                return False
    return case["rule"].lower() in RULES


def oracle(case, out):
    """None if the output obeys the property, else a description."""
    jobs = case["jobs"]
    if out["kind"] == "hang":
        return "implementation hangs (> 20 s)"
    if out["kind"] == "bad":
        return out["what"]
    if out["kind"] == "exc":
        if not input_valid(case) and out["type"] == "ValueError":
            return None
        return f"implementation raises {out['type']}: {out['msg']}"
    sched = {}
    for j, k, s, e in out["schedule"]:
        sched[(j, k)] = (s, e)
    ops = {(j, k): tuple(o) for j, job in enumerate(jobs) for k, o in enumerate(job)}
    missing = sorted(set(ops) - set(sched))
    extra = sorted(set(sched) - set(ops))
    if missing:
        return f"operations without start/end: {missing}"
    if extra:
        return f"schedule has entries for non-existing operations: {extra}"
    for key, (s, e) in sched.items():
        if not (isinstance(s, int) and isinstance(e, int)):
            return f"operation {key}: non-integral times {(s, e)} on integer data"
        if e - s != ops[key][1]:
            return f"operation {key}: end - start = {e - s}, duration {ops[key][1]}"
    for j, job in enumerate(jobs):
        for k in range(len(job) - 1):
            if sched[(j, k + 1)][0] < sched[(j, k)][1]:
                return f"job {j}: operation {k + 1} starts at {sched[(j, k + 1)][0]} before operation {k} ends at {sched[(j, k)][1]}"
    keys = sorted(ops)
    for a in range(len(keys)):
        for b in range(a + 1, len(keys)):
            if ops[keys[a]][0] != ops[keys[b]][0]:
                continue
            s1, e1 = sched[keys[a]]
            s2, e2 = sched[keys[b]]
            if max(s1, s2) < min(e1, e2):
                return f"machine {ops[keys[a]][0]}: operations {keys[a]} {(s1, e1)} and {keys[b]} {(s2, e2)} overlap"
    latest = max((e for _, e in sched.values()), default=0)
    if out["objective"] != latest:
        return f"objective {out['objective']} but the latest end time is {latest}"
    want = "FEASIBLE" if jobs else "OPTIMAL"
    if out["status"] != want:
        return f"status {out['status']}, expected {want}"
    return None


def shrink(case, still_bad):
    """Drop jobs / operations / options while the case still fails."""
    cur = json.loads(json.dumps(case))
    changed = True
    while changed:
        changed = False
        cands = []
        for j in range(len(cur["jobs"])):
            c = json.loads(json.dumps(cur))
            del c["jobs"][j]
            cands.append(c)
            for k in range(len(cur["jobs"][j])):
                c = json.loads(json.dumps(cur))
                del c["jobs"][j][k]
                if c["jobs"][j]:
                    cands.append(c)
        if cur.get("cb_k") is not None:
            cands.append({**cur, "cb_k": None, "interval": 0})
        for mi in (0, 1, 5):
            if cur["max_iter"] > mi:
                cands.append({**cur, "max_iter": mi})
        for c in cands:
            if still_bad(c):
                cur = c
                changed = True
                break
    return cur


def _fails(case):
    return oracle(case, run_impl(case)) is not None


# ---------------------------------------------------------------- Coq terms
def c_jobs(jobs):
    return clist(jobs, lambda job: clist(job, lambda o: f"({cz(o[0])}, {cz(o[1])})"))


def c_sched(items):
    return clist(items, lambda it: f"(({cnat(it[0])}, {cnat(it[1])}), ({cz(it[2])}, {cz(it[3])}))")


def c_obs(out):
    if out["kind"] == "ok":
        ok = all(isinstance(x, int) and not isinstance(x, bool) for it in out["schedule"] for x in it) \
            and all(it[0] >= 0 and it[1] >= 0 for it in out["schedule"]) \
            and isinstance(out["objective"], int) and out["status"] in ("OPTIMAL", "FEASIBLE")
        if ok:
            return f"IOk {c_sched(out['schedule'])} {cz(out['objective'])} {'Optimal' if out['status'] == 'OPTIMAL' else 'Feasible'}"
        return "IOther"
    if out["kind"] == "exc" and out["type"] == "ValueError":
        return "IErrValue"
    return "IOther"


def c_case(case, out):
    rule = RULE_COQ.get(case["rule"].lower(), "BadRule")
    return ("(" + ", ".join([c_jobs(case["jobs"]), rule, cbool(case["local_search"]), cz(case["max_iter"]),
                             copt(case.get("cb_k"), cnat), cz(case.get("interval", 0)),
                             clist(out["draws"], cnat), c_obs(out)]) + ")")


def canon(case):
    return json.dumps(case, sort_keys=True)


def nontrivial(case):
    """>= 2 jobs compete for a machine (the clocks matter) on a valid input."""
    if not input_valid(case) or len(case["jobs"]) < 2:
        return False
    seen = {}
    for j, job in enumerate(case["jobs"]):
        for m, _ in job:
            seen.setdefault(m, set()).add(j)
    return any(len(s) >= 2 for s in seen.values())


def _corpus():
    out = []
    d = VERIF / "corpus" / "C18"
    if d.exists():
        for f in sorted(d.glob("js_*.json")):
            o = json.loads(f.read_text())
            out.append({k: o.get(k, dflt) for k, dflt in (("jobs", []), ("rule", "spt"), ("seed", 0), ("local_search", True),
                                                          ("max_iter", 1000), ("cb_k", None), ("interval", 0))})
    return out


# ---------------------------------------------------------------- the check
def run_js(ctx: Ctx):
    big = ctx.tier == "thorough"
    cases = _corpus() + [json.loads(json.dumps(c)) for c in FIXED]
    n_corpus = len(cases)
    cases += [gen_case(ctx.rng, big) for _ in range(ctx.budget(700, 9000))]

    # open known findings of this part: replay their witnesses first
    for f in ctx.open_findings():
        for w in f.get("witnesses", []):
            if isinstance(w, dict) and "jobs" in w:
                wc = {"rule": "spt", "seed": 0, "local_search": True, "max_iter": 1000, "cb_k": None, "interval": 0, **w}
                bad = oracle(wc, run_impl(wc))
                if bad:
                    ctx.known_hit(f["id"], f"witness still reproduces: {bad}")

    results = pmap(run_pair, cases)
    coq_cases, spec_cases, metas, spec_metas = [], [], [], []
    for idx, (case, (out, base)) in enumerate(zip(cases, results)):
        ctx.evaluations += 1
        valid = input_valid(case)
        ctx.count("js_rule", case["rule"].lower() if valid else "invalid-input")
        ctx.count("js_n_jobs", len(case["jobs"]))
        ctx.count("js_total_ops", sum(len(j) for j in case["jobs"]))
        ctx.count("js_max_iter", case["max_iter"] if case["local_search"] else "no-local-search")
        ctx.count("js_outcome", out.get("status") or out.get("type") or out["kind"])
        if out["kind"] == "ok" and base is not None:
            ctx.count("js_local_search_effect", "improved" if out["objective"] < base else ("same" if out["objective"] == base else "WORSE"))
        if case.get("cb_k") is not None:
            ctx.count("js_callback", "with on_progress")
        if out["kind"] == "ok" and case["local_search"] and case["max_iter"] >= 1 and case["jobs"]:
            full = out["iterations"] == case["max_iter"]
            ctx.count("js_loop_exit", "all passes" if full else ("call-back stop" if case.get("cb_k") is not None and case["interval"] > 0
                                                                 else "no_improve >= 100"))
        bad = oracle(case, out)
        if bad:
            small = shrink(case, _fails) if len(ctx.violations) < 3 else case
            sout = run_impl(small)
            ctx.violation(f"solve_job_shop: {oracle(small, sout) or bad}",
                          {"kind": "js", **small, "impl": {k: v for k, v in sout.items() if k != "draws"}})
        if nontrivial(case):
            ctx.nontriv(canon(case))
        if idx >= n_corpus:
            ctx.sample({"kind": "js", **case, "impl": {k: v for k, v in out.items() if k != "draws"}}, 3)
        if out["kind"] == "hang":
            continue
        coq_cases.append(c_case(case, out))
        metas.append((case, out))
        if out["draws"]:
            ctx.traces_validated += 1
        if out["kind"] == "ok" and c_obs(out) != "IOther":
            spec_cases.append(f"({c_jobs(case['jobs'])}, {c_obs(out)})")
            spec_metas.append((case, out))

    failing = ctx.coq_check("js_corr", IMPORTS, "jcase", "corr_chk", coq_cases)
    disagree = [metas[i] for i in failing]
    sfailing = ctx.coq_check("js_spec", IMPORTS, "list job * iobs", "fun c => spec_check (fst c) (snd c)", spec_cases)
    for i in sfailing:
        case, out = spec_metas[i]
        if not oracle(case, out):  # the Python oracle accepted what the Coq checker rejects
            ctx.violation("solve_job_shop output rejected by the Coq checker spec_check (sound w.r.t. js_spec) although the Python oracle accepts it",
                          {"kind": "js", **case, "impl": {k: v for k, v in out.items() if k != "draws"}, "lemma": "Cases/C18/js_spec_*.v corr"}, no_input=True)

    # model and implementation disagree (or a proof broke) and no violating input so far: search harder
    if (disagree or ctx.broken) and not any(not v["no_input"] for v in ctx.violations):
        found = False
        pool = [gen_case(ctx.rng, True) for _ in range(20000)]
        for case, _o in disagree[:20]:  # neighbours of the disagreeing inputs
            for _ in range(100):
                c = json.loads(json.dumps(case))
                c["seed"] = ctx.rng.randrange(1000)
                c["max_iter"] = ctx.rng.choice([0, 1, 5, 30])
                c["rule"] = ctx.rng.choice(RULES) if ctx.rng.random() < 0.5 else c["rule"]
                pool.append(c)
        outs = pmap(run_impl, pool)
        for case, out in zip(pool, outs):
            bad = oracle(case, out)
            if bad:
                small = shrink(case, _fails)
                sout = run_impl(small)
                ctx.violation(f"solve_job_shop: {oracle(small, sout) or bad}",
                              {"kind": "js", **small, "impl": {k: v for k, v in sout.items() if k != "draws"}})
                found = True
                break
        if not found:
            for case, out in disagree[:1]:
                model = ctx.coq_eval("js_show", IMPORTS, f"run_case {c_case(case, out)}")
                ctx.violation("correspondence lemma js_corr: model SV.C18.JobShop.solve and solve_job_shop differ "
                              "(observable: schedule, objective, status, number of random draws)",
                              {"kind": "js", **case, "impl": out, "model": model[-1500:], "lemma": "Cases/C18/js_corr_*.v corr"}, no_input=True)

    ctx.notes += [
        "job shop: Random is replaced in solvor.job_shop's namespace by a recording subclass; rng.choice / rng.randrange answers are the model's oracle list (the model is not a model of the Mersenne twister)",
        "job shop: durations and machines are Python ints (exact); float durations are outside the generated inputs",
        "job shop: the model represents _rebuild_schedule's `scheduled` set by the next_op vector (the set is prefix-closed per job)",
        "job shop: on_progress is modelled as a total function iteration -> bool; the harness uses threshold call-backs",
        "job shop oracle: invalid inputs (empty job, negative machine/duration, unknown rule) may raise ValueError; any other exception or a hang is a violation",
    ]


def run(ctx: Ctx):
    ctx.rule = ("job shop: 1-4 jobs (..5 thorough) x 1-4 operations (..5) on machines 0..3 (also sparse indices, repeated machines inside a job, "
                "zero durations) x rule in spt/lpt/mwkr/fifo/random (+upper case, unknown) x seed x local_search x max_iter in {0,1,5,30,150} "
                "(+ on_progress stop), plus empty job list / empty job / negative machine / negative duration; "
                "non-trivial = valid input where >= 2 jobs compete for one machine; distinct = canonical JSON of the call")
    ctx.proof_step(["C18"])
    run_js(ctx)
    try:
        from harness.props import C18_vrp
    except ImportError:
        C18_vrp = None
    if C18_vrp is not None:
        C18_vrp.run_part(ctx)
    if (COQ / "Props" / "C18_vrp.v").exists():
        ctx.proof_step(["C18"], props_file="Props/C18_vrp.v")


def replay(obj):
    if obj.get("kind") == "js" and "jobs" in obj:
        case = {k: obj.get(k, d) for k, d in (("jobs", []), ("rule", "spt"), ("seed", 0), ("local_search", True),
                                              ("max_iter", 1000), ("cb_k", None), ("interval", 0))}
        out = run_impl(case)
        bad = oracle(case, out)
        print("call: solve_job_shop(%r, rule=%r, local_search=%r, max_iter=%r, seed=%r%s)" % (
            case["jobs"], case["rule"], case["local_search"], case["max_iter"], case["seed"],
            "" if case["cb_k"] is None else f", on_progress=lambda p: p.iteration >= {case['cb_k']}, progress_interval={case['interval']}"))
        print("implementation:", {k: v for k, v in out.items() if k != "draws"})
        print("oracle verdict:", bad or "ok")
        return 1 if bad else 0
    if obj.get("kind", "").startswith("vrp"):
        try:
            from harness.props import C18_vrp
        except ImportError:
            print("no VRP part installed")
            return 1
        return C18_vrp.replay(obj)
    print("replay names an unchecked obligation:", obj.get("unchecked") or obj.get("what"))
    return 1
