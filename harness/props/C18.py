"""C18 - job-shop schedules (this module) and VRPTW routes (harness/props/C18_vrp.py, if present) are
structurally valid and honestly scored.

Job-shop part.  Tie to /repo: random job lists x dispatch rules x seeds x local-search lengths are run on
solvor.job_shop.solve_job_shop (working tree) with `Random` in the module namespace replaced by a recording
subclass (every rng.choice / rng.randrange answer is logged in call order).  The Gallina model
SV.C18.JobShop.solve is evaluated inside coqc (vm_compute) on the same input with the recorded answers as
its oracle list: schedule, objective and status must be equal and every recorded answer consumed.
Independently, (a) a Python oracle written from the property text and (b) the Coq boolean `spec_check`
(proved sound w.r.t. js_spec in C18/JobShopSpec.v) judge the implementation's outputs.
"""
import collections.abc
import copy
import json
import math
import random as _random

from harness.core import COQ, VERIF, Ctx, cbool, clist, cnat, copt, cz, guarded, pmap
from harness.props import jobshop_events as EV
from harness.props import jobshop_families as FAM

ID = "C18"
ANCHORS = ["solvor/job_shop.py", "solvor/vrp.py", "solvor/lns.py"]

RULES = ["spt", "lpt", "mwkr", "fifo", "random"]
RULE_COQ = {"fifo": "Fifo", "spt": "Spt", "lpt": "Lpt", "mwkr": "Mwkr", "random": "Rnd"}
IMPORTS = "From SV Require Import C18.JobShop C18.JobShopSpec."


# ---------------------------------------------------------------- generators
def gen_jobs(rng, big=False):
    n_jobs = rng.choice([1, 2, 2, 3, 3, 3, 4, 4] + ([5] if big else []))
    n_mach = rng.choice([1, 2, 2, 3, 3, 4])
    max_ops = rng.choice([1, 2, 3, 4, 4] + ([5] if big else []))
    dur_hi = rng.choice([1, 3, 5, 9])
    jobs = []
    for _ in range(n_jobs):
        k = rng.randint(1, max_ops)
        job = []
        for _ in range(k):
            m = rng.randrange(n_mach)
            if job and rng.random() < 0.15:
                m = job[-1][0]  # repeated machine inside a job
            d = 0 if rng.random() < 0.12 else rng.randint(1, dur_hi)
            job.append([m, d])
        jobs.append(job)
    return jobs


def gen_case(rng, big=False):
    jobs = gen_jobs(rng, big)
    rule = rng.choice(RULES)
    r = rng.random()
    if r < 0.04:
        rule = rule.upper()  # rule.lower() in the code
    case = {
        "jobs": jobs,
        "rule": rule,
        "seed": rng.randrange(1000),
        "local_search": rng.random() < 0.8,
        # 150 > max_no_improve = 100: reaches the `no_improve >= max_no_improve` exit (kept to small instances: cost)
        "max_iter": rng.choice([0, 1, 1, 5, 5, 5, 30, 30, 30, 30] + ([150] if rng.random() < 0.25 and sum(map(len, jobs)) <= 12 else [])),
        "cb_k": None,
        "interval": 0,
    }
    if rng.random() < 0.12:  # on_progress call-back asking to stop from iteration K on, every `interval` iterations
        case["cb_k"] = rng.randint(1, 8)
        case["interval"] = rng.choice([0, 1, 1, 2, 3])
    # the input classes named by the quantifier / the validation code
    r = rng.random()
    if r < 0.02:
        case["jobs"] = []
    elif r < 0.04:
        jobs[rng.randrange(len(jobs))] = []  # empty job -> ValueError
    elif r < 0.055:
        rng.choice(rng.choice(jobs))[0] = -1  # negative machine -> ValueError
    elif r < 0.07:
        rng.choice(rng.choice(jobs))[1] = -2  # negative duration -> ValueError
    elif r < 0.085:
        case["rule"] = "xyz"  # unknown rule -> ValueError
    elif r < 0.11:
        # sparse machine indices (n_machines = max + 1)
        for job in jobs:
            for o in job:
                o[0] = o[0] * 3 + 1
    return case


FIXED = [
    {"jobs": [[[0, 3], [1, 2], [2, 2]], [[0, 2], [2, 1], [1, 4]]], "rule": "spt", "seed": 0, "local_search": True, "max_iter": 30, "cb_k": None, "interval": 0},
    {"jobs": [[[0, 0]]], "rule": "fifo", "seed": 1, "local_search": True, "max_iter": 5, "cb_k": None, "interval": 0},
    {"jobs": [[[0, 2], [0, 2], [0, 0]], [[0, 1], [0, 3]]], "rule": "random", "seed": 3, "local_search": True, "max_iter": 30, "cb_k": None, "interval": 0},
    {"jobs": [[[1, 5]], [[1, 1]], [[1, 3]], [[1, 0]]], "rule": "lpt", "seed": 2, "local_search": True, "max_iter": 150, "cb_k": None, "interval": 0},
    {"jobs": [[[0, 4], [1, 1]], [[1, 3], [0, 1]], [[0, 1], [1, 1]]], "rule": "mwkr", "seed": 7, "local_search": True, "max_iter": 30, "cb_k": 2, "interval": 1},
    {"jobs": [[[0, 4], [1, 1]], [[1, 3], [0, 1]]], "rule": "MWKR", "seed": 7, "local_search": False, "max_iter": 30, "cb_k": None, "interval": 0},
    {"jobs": [], "rule": "spt", "seed": 0, "local_search": True, "max_iter": 5, "cb_k": None, "interval": 0},
    {"jobs": [[[0, 1]], []], "rule": "spt", "seed": 0, "local_search": True, "max_iter": 5, "cb_k": None, "interval": 0},
    {"jobs": [[[0, 1]]], "rule": "nope", "seed": 0, "local_search": False, "max_iter": 5, "cb_k": None, "interval": 0},
]


# ---------------------------------------------------------------- implementation run (records the RNG answers)
class Seq(collections.abc.Sequence):
    """a Sequence that is neither a list nor a tuple (the signature says Sequence[Job], Job = Sequence[Operation])"""

    def __init__(self, xs):
        self._xs = list(xs)

    def __getitem__(self, i):
        return self._xs[i]

    def __len__(self):
        return len(self._xs)


_BIG = 10**6


def build_jobs(case):
    """The jobs argument as the case's call-shape keys say (see jobshop_families.py); the model sees case['jobs']."""
    shape = case.get("shape", "list_tuple")
    fresh, boo, fl, half = case.get("fresh_ints"), case.get("bool_labels"), case.get("float_durs"), case.get("half")
    mask, special = case.get("float_mask"), case.get("special") or {}

    def mk(x, dur, j=0, k=0):
        if dur and f"{j},{k}" in special:
            return float(special[f"{j},{k}"])
        if dur and half:
            return x / 2
        if dur and (fl or (mask and mask[j][k])):
            return -0.0 if (mask and x == 0) else float(x)
        if boo and x in (0, 1):
            return bool(x)
        return (x + _BIG) - _BIG if fresh else x     # arithmetic at call time: a new int object when outside the small-int cache

    if shape.startswith("shared_objects"):
        # equal operations are ONE tuple object, equal jobs ONE list object (so jobs[a] is jobs[b])
        ops_pool, jobs_pool, jobs = {}, {}, []
        for job in case["jobs"]:
            items = [ops_pool.setdefault((o[0], o[1]), (o[0], o[1])) for o in job]
            jobs.append(jobs_pool.setdefault(tuple(items), items if shape.endswith("_list") else tuple(items)))
        return jobs

    def ops(j, job):
        sh = ("list_tuple", "list_list", "tuple_tuple", "seq")[j % 4] if shape == "mixed" else shape
        items = [([mk(o[0], False), mk(o[1], True, j, k)] if sh == "list_list" else (mk(o[0], False), mk(o[1], True, j, k))) for k, o in enumerate(job)]
        return tuple(items) if sh == "tuple_tuple" else Seq(items) if sh == "seq" else items

    jobs = [ops(j, job) for j, job in enumerate(case["jobs"])]
    return tuple(jobs) if shape == "tuple_tuple" else Seq(jobs) if shape == "seq" else jobs


def snapshot(jobs):
    """identity + type + value of everything reachable from the jobs argument (to detect that the callee modified or re-bound it)"""
    return [(id(job), type(job).__name__, [(id(o), type(o).__name__, type(o[0]).__name__, repr(o[0]), type(o[1]).__name__, repr(o[1])) for o in job])
            for job in jobs]


def call_kwargs(case):
    omit = case.get("omit") or ()
    kw = {k: case[k] for k in ("rule", "local_search", "max_iter", "seed") if k not in omit}
    if case.get("cb_k") is not None:
        k = case["cb_k"]
        kw["on_progress"] = lambda p: p.iteration >= k
        kw["progress_interval"] = float(case["interval"]) if case.get("float_interval") else case["interval"]
    if case.get("float_seed") and kw.get("seed") is not None:
        kw["seed"] = float(kw["seed"])
    return kw


def call_impl(jobs, kw):
    """one guarded call with Random recorded -> output dict"""
    import solvor.job_shop as js

    draws = []

    class RecRandom(_random.Random):
        def choice(self, seq):
            r = super().choice(seq)
            draws.append(list(seq).index(r))
            return r

        def randrange(self, *a, **k):
            r = super().randrange(*a, **k)
            draws.append(int(r))
            return r

    orig = js.Random
    js.Random = RecRandom
    try:
        # CPU-time guard (core.guarded): the random cases run < 2 s; the work-volume families (10^4 local-search evaluations on
        # 100+ operations, 10^4-operation ready lists) need up to ~40 CPU-seconds, so the guard scales with the instance
        n_ops = sum(len(j) for j in jobs)
        res = guarded(js.solve_job_shop, jobs, timeout=20 if n_ops <= 60 else 600, **kw)
    finally:
        js.Random = orig
    if res[0] == "ok":
        r = res[1]
        sol = r.solution
        if not isinstance(sol, dict):
            return {"kind": "bad", "what": f"solution is {type(sol).__name__}", "draws": draws}
        try:
            items = sorted([int(k[0]), int(k[1]), _num(v[0]), _num(v[1])] for k, v in sol.items())
        except Exception as e:  # noqa: BLE001
            return {"kind": "bad", "what": f"malformed schedule: {e}", "draws": draws}
        return {"kind": "ok", "schedule": items, "objective": _num(r.objective), "status": r.status.name,
                "iterations": r.iterations, "evaluations": r.evaluations, "draws": draws, "_result": r}
    if res[0] == "exc":
        return {"kind": "exc", "type": res[1], "msg": res[2], "draws": draws}
    return {"kind": "hang", "draws": draws}


def run_impl(case):
    jobs = build_jobs(case)
    before = snapshot(jobs)
    out = call_impl(jobs, call_kwargs(case))
    out.pop("_result", None)
    if snapshot(jobs) != before:
        return {"kind": "bad", "what": "solve_job_shop modified its jobs argument", "draws": out["draws"]}
    if case.get("half") and out["kind"] == "ok":
        # dyadic call: double the times back (exact in binary floating point) so that the integer case judges them
        out["schedule"] = [[j, k, _num(s * 2), _num(e * 2)] for j, k, s, e in out["schedule"]]
        out["objective"] = _num(out["objective"] * 2)
    return out


def _num(x):
    if isinstance(x, bool):
        return x
    if isinstance(x, float) and math.isfinite(x) and x == int(x):
        return int(x)
    return x


def run_pair(case):
    """Implementation output + (for the histogram) the objective of the same call without local search, + for a scaled case the
    verdict of the metamorphic relation with its base case."""
    out = run_impl(case)
    base = None
    if out["kind"] == "ok" and case["local_search"] and case.get("seed") is not None and not case.get("nocoq"):
        b = run_impl({**case, "local_search": False, "cb_k": None, "omit": [k for k in (case.get("omit") or ()) if k != "local_search"]})
        if b["kind"] == "ok":
            base = b["objective"]
    meta = None
    if case.get("scale") and out["kind"] == "ok":
        k, bo = case["scale"], run_impl(case["base"])
        if bo["kind"] != "ok":
            meta = f"base case fails ({bo.get('type') or bo['kind']}) although the case scaled by {k} succeeds"
        elif [[j, o, s * k, e * k] for j, o, s, e in bo["schedule"]] != out["schedule"]:
            meta = (f"scaling every duration by {k} does not scale the schedule: base {bo['schedule']} objective {bo['objective']}, "
                    f"scaled {out['schedule']}")
    if case.get("float_mask") or case.get("float_interval") or case.get("float_seed"):
        # 33.0 vs 33: the same call with ints everywhere must give the same answer
        io = run_impl({k: v for k, v in case.items() if k not in ("float_mask", "float_interval", "float_seed")})
        strip = lambda o: {k: v for k, v in o.items() if k not in ("draws", "msg")}  # noqa: E731
        if strip(io) != strip(out):
            meta = f"integral floats instead of ints change the answer: ints {strip(io)}, floats {strip(out)}"
    if case.get("port") and out["kind"] == "ok" and not meta:
        ref = EV.ref_run(case)
        rs = sorted([j, k, s, e] for (j, k), (s, e) in ref["schedule"].items())
        got = (out["schedule"], out["objective"], out["iterations"], out["evaluations"])
        if (rs, ref["objective"], ref["iterations"], ref["evaluations"]) != got:
            meta = (f"differs from the exact reference (port of the modelled algorithm): reference objective {ref['objective']} iterations "
                    f"{ref['iterations']} evaluations {ref['evaluations']}, returned {out['objective']} / {out['iterations']} / {out['evaluations']}"
                    + ("" if rs == out["schedule"] else "; schedules differ"))
    return out, base, meta


# ---------------------------------------------------------------- independent oracle (the property text)
def input_valid(case):
    jobs = case["jobs"]
    if not jobs:
        return True
    for job in jobs:
        if not job:
            return False
        for m, d in job:
            if m < 0 or d < 0:
                return False
    return case["rule"].lower() in RULES


def oracle(case, out):
    """None if the output obeys the property, else a description."""
    jobs = case["jobs"]
    if out["kind"] == "hang":
        return "implementation hangs (CPU-time guard: 20 s for <= 60 operations, 600 s above)"
    if out["kind"] == "bad":
        return out["what"]
    if out["kind"] == "exc":
        if not input_valid(case) and out["type"] == "ValueError":
            return None
        return f"implementation raises {out['type']}: {out['msg']}"
    sched = {}
    for j, k, s, e in out["schedule"]:
        sched[(j, k)] = (s, e)
    ops = {(j, k): tuple(o) for j, job in enumerate(jobs) for k, o in enumerate(job)}
    missing = sorted(set(ops) - set(sched))
    extra = sorted(set(sched) - set(ops))
    if missing:
        return f"operations without start/end: {missing[:10]}"
    if extra:
        return f"schedule has entries for non-existing operations: {extra[:10]}"
    for key, (s, e) in sched.items():
        if not (isinstance(s, int) and isinstance(e, int)):
            return f"operation {key}: non-integral times {(s, e)} on integer data"
        if e - s != ops[key][1]:
            return f"operation {key}: end - start = {e - s}, duration {ops[key][1]}"
    for j, job in enumerate(jobs):
        for k in range(len(job) - 1):
            if sched[(j, k + 1)][0] < sched[(j, k)][1]:
                return f"job {j}: operation {k + 1} starts at {sched[(j, k + 1)][0]} before operation {k} ends at {sched[(j, k)][1]}"
    by_machine = {}
    for key in sorted(ops):
        by_machine.setdefault(ops[key][0], []).append(key)
    for m, keys in by_machine.items():
        if len(keys) <= 64:
            # the definition: no two operations with intersecting OPEN intervals
            for a in range(len(keys)):
                for b in range(a + 1, len(keys)):
                    s1, e1 = sched[keys[a]]
                    s2, e2 = sched[keys[b]]
                    if max(s1, s2) < min(e1, e2):
                        return f"machine {m}: operations {keys[a]} {(s1, e1)} and {keys[b]} {(s2, e2)} overlap"
        else:
            # same condition for many operations: an empty open interval meets nothing; non-empty ones, sorted by start, are pairwise
            # disjoint iff each ends before the next starts
            pos = sorted((sched[key], key) for key in keys if sched[key][0] < sched[key][1])
            for (iv1, k1), (iv2, k2) in zip(pos, pos[1:]):
                if iv2[0] < iv1[1]:
                    return f"machine {m}: operations {k1} {iv1} and {k2} {iv2} overlap"
    latest = max((e for _, e in sched.values()), default=0)
    if out["objective"] != latest:
        # Result.objective is a float by the API: above 2^53 the latest end time need not be representable; then the objective must
        # be the float nearest to it (float(int) rounds correctly)
        if not (abs(latest) > 2**53 and isinstance(out["objective"], int) and float(out["objective"]) == float(latest)):
            return f"objective {out['objective']} but the latest end time is {latest}"
    want = "FEASIBLE" if jobs else "OPTIMAL"
    if out["status"] != want:
        return f"status {out['status']}, expected {want}"
    exp = case.get("expect") or {}
    if "objective" in exp and latest != exp["objective"]:
        return f"makespan {latest}, but by construction it is {exp['objective']}"
    if "schedule" in exp and out["schedule"] != exp["schedule"]:
        diff = [(a, b) for a, b in zip(out["schedule"], exp["schedule"]) if a != b][:3]
        return f"schedule differs from the only valid left-shifted one: (returned, expected) {diff}"
    for key in ("iterations", "evaluations"):
        if key in exp and out.get(key) != exp[key]:
            return f"Result.{key} = {out.get(key)}, but this instance needs exactly {exp[key]} (the work cannot be cut short)"
    return None


def oracle_nonfinite(case, out):
    """NaN / inf / overflowing durations (observation only, never a verdict): None if the call raised or what came back is consistent in
    float arithmetic, else a description."""
    if out["kind"] == "exc":
        return None
    if out["kind"] != "ok":
        return out.get("what") or "implementation hangs (CPU-time guard: 20 s for <= 60 operations, 600 s above)"
    special = case.get("special") or {}
    dur = {(j, k): (float(special[f"{j},{k}"]) if f"{j},{k}" in special else o[1]) for j, job in enumerate(case["jobs"]) for k, o in enumerate(job)}
    mach = {(j, k): o[0] for j, job in enumerate(case["jobs"]) for k, o in enumerate(job)}
    sched = {(j, k): (float(s), float(e)) for j, k, s, e in out["schedule"]}     # back to the floats that were returned
    dur = {key: float(d) for key, d in dur.items()}
    if set(sched) != set(dur):
        return f"operations without start/end or extra entries: {sorted(set(dur) ^ set(sched))[:6]}"
    for key, (s, e) in sched.items():
        if not (e - s == dur[key]):
            return f"operation {key}: start {s}, end {e}: end - start = {e - s}, duration {dur[key]}"
    for (j, k), (s, e) in sched.items():
        if (j, k + 1) in sched and not (sched[(j, k + 1)][0] >= e):
            return f"job {j}: operation {k + 1} starts at {sched[(j, k + 1)][0]}, operation {k} ends at {e}"
    keys = sorted(sched)
    for a in range(len(keys)):
        for b in range(a + 1, len(keys)):
            if mach[keys[a]] == mach[keys[b]]:
                (s1, e1), (s2, e2) = sched[keys[a]], sched[keys[b]]
                if max(s1, s2) < min(e1, e2):
                    return f"machine {mach[keys[a]]}: operations {keys[a]} {(s1, e1)} and {keys[b]} {(s2, e2)} overlap"
    ends = [e for _, e in sched.values()]
    if not all(float(out["objective"]) >= e for e in ends) or float(out["objective"]) not in ends:
        return f"objective {out['objective']} is not the latest end time of {ends}"
    return None


def canon_objective(out):
    """the objective as an integer for the Coq side: the latest end time when the returned float is its correct rounding"""
    latest = max((it[3] for it in out["schedule"]), default=0)
    if isinstance(latest, int) and abs(latest) > 2**53 and isinstance(out["objective"], int) and float(out["objective"]) == float(latest):
        return latest
    return out["objective"]


def shrink(case, still_bad):
    """Drop jobs / operations / options while the case still fails."""
    if case.get("expect") or case.get("scale"):
        return case      # tied to a by-construction answer / a base case
    cur = json.loads(json.dumps(case))
    changed = True
    while changed:
        changed = False
        cands = []
        for j in range(len(cur["jobs"])):
            c = json.loads(json.dumps(cur))
            del c["jobs"][j]
            cands.append(c)
            for k in range(len(cur["jobs"][j])):
                c = json.loads(json.dumps(cur))
                del c["jobs"][j][k]
                if c["jobs"][j]:
                    cands.append(c)
        if cur.get("cb_k") is not None:
            cands.append({**cur, "cb_k": None, "interval": 0})
        for mi in (0, 1, 5):
            if cur["max_iter"] > mi:
                cands.append({**cur, "max_iter": mi})
        for c in cands:
            if still_bad(c):
                cur = c
                changed = True
                break
    return cur


def _fails(case):
    return oracle(case, run_impl(case)) is not None


# ---------------------------------------------------------------- Coq terms
def c_jobs(jobs):
    return clist(jobs, lambda job: clist(job, lambda o: f"({cz(o[0])}, {cz(o[1])})"))


def c_sched(items):
    return clist(items, lambda it: f"(({cnat(it[0])}, {cnat(it[1])}), ({cz(it[2])}, {cz(it[3])}))")


def c_obs(out):
    if out["kind"] == "ok":
        ok = all(isinstance(x, int) and not isinstance(x, bool) for it in out["schedule"] for x in it) \
            and all(it[0] >= 0 and it[1] >= 0 for it in out["schedule"]) \
            and isinstance(out["objective"], int) and out["status"] in ("OPTIMAL", "FEASIBLE")
        if ok:
            return f"IOk {c_sched(out['schedule'])} {cz(canon_objective(out))} {'Optimal' if out['status'] == 'OPTIMAL' else 'Feasible'}"
        return "IOther"
    if out["kind"] == "exc" and out["type"] == "ValueError":
        return "IErrValue"
    return "IOther"


def c_case(case, out):
    rule = RULE_COQ.get(case["rule"].lower(), "BadRule")
    return ("(" + ", ".join([c_jobs(case["jobs"]), rule, cbool(case["local_search"]), cz(case["max_iter"]),
                             copt(case.get("cb_k"), cnat), cz(case.get("interval", 0)),
                             clist(out["draws"], cnat), c_obs(out)]) + ")")


def canon(case):
    return json.dumps(case, sort_keys=True)


def nontrivial(case):
    """>= 2 jobs compete for a machine (the clocks matter) on a valid input."""
    if not input_valid(case) or len(case["jobs"]) < 2:
        return False
    seen = {}
    for j, job in enumerate(case["jobs"]):
        for m, _ in job:
            seen.setdefault(m, set()).add(j)
    return any(len(s) >= 2 for s in seen.values())


def _corpus():
    out = []
    d = VERIF / "corpus" / "C18"
    if d.exists():
        for f in sorted(d.glob("js_*.json")):
            o = json.loads(f.read_text())
            c = {k: o.get(k, dflt) for k, dflt in (("jobs", []), ("rule", "spt"), ("seed", 0), ("local_search", True),
                                                   ("max_iter", 1000), ("cb_k", None), ("interval", 0))}
            if o.get("event"):
                c["event"] = o["event"]
            out.append(c)
    return out


# ---------------------------------------------------------------- aliasing / call sequences (class A)
def run_alias(pair):
    """a, b on ONE shared jobs object: a, b, a, b.  The caller's object must stay untouched, equal calls must give equal answers
    whatever ran in between, and a returned schedule must not be the callee's private state (we clear the first answer)."""
    a, b = pair
    jobs = build_jobs(a)
    before = snapshot(jobs)
    outs, bad = [], None
    for step, c in enumerate((a, b, a, b)):
        o = call_impl(jobs, call_kwargs(c))
        r = o.pop("_result", None)
        outs.append(o)
        if snapshot(jobs) != before and not bad:
            bad = f"call {step + 1} of the sequence modified the shared jobs argument"
        if step == 0 and r is not None and isinstance(r.solution, dict):
            r.solution.clear()       # the caller owns the returned dict
    strip = lambda o: {k: v for k, v in o.items() if k != "draws" or True}  # noqa: E731  (draws included: same seed, same answers)
    if not bad and strip(outs[0]) != strip(outs[2]):
        bad = f"the same call gives different answers before and after another call on the same jobs object: {outs[0]} vs {outs[2]}"
    if not bad and strip(outs[1]) != strip(outs[3]):
        bad = f"the same call gives different answers the second time: {outs[1]} vs {outs[3]}"
    return outs[0], outs[1], bad


# ---------------------------------------------------------------- in-place edits between calls (class A2)
def apply_edits(jobs, edits):
    for kind, j, k, v in edits:
        j %= len(jobs)
        k %= len(jobs[j])
        op = jobs[j][k]
        if kind == "dur":
            if isinstance(op, list):
                op[1] = v                       # deepest in-place edit: nothing above it changes identity or length
            else:
                jobs[j][k] = (op[0], v)
        elif kind == "mach":
            if isinstance(op, list):
                op[0] = v
            else:
                jobs[j][k] = (v, op[1])
        elif kind == "swap_jobs":
            k %= len(jobs)
            jobs[j], jobs[k] = jobs[k], jobs[j]
        elif kind == "append_op":
            jobs[j].append(list(v) if isinstance(op, list) else tuple(v))
        elif kind == "append_job":
            jobs.append([list(o) if isinstance(op, list) else tuple(o) for o in v])
        elif kind == "del_op" and len(jobs[j]) > 1:
            del jobs[j][k]


def run_edit(item):
    """call; edit the caller's jobs object in place; call again; the second answer must be the answer of a fresh call on a deep copy."""
    case, edits = item
    jobs = build_jobs(case)
    kw = call_kwargs(case)
    o1 = call_impl(jobs, kw)
    o1.pop("_result", None)
    apply_edits(jobs, edits)
    before = snapshot(jobs)
    o2 = call_impl(jobs, kw)
    o2.pop("_result", None)
    bad = None
    if snapshot(jobs) != before:
        bad = "the second call modified the (edited) jobs argument"
    o3 = call_impl(copy.deepcopy(jobs), kw)
    o3.pop("_result", None)
    if not bad and o2 != o3:
        bad = (f"after editing the jobs object in place {edits} the answer differs from a fresh call on a deep copy of the edited input: "
               f"{ {k: v for k, v in o2.items() if k != 'draws'} } vs fresh { {k: v for k, v in o3.items() if k != 'draws'} }")
    case2 = {**{k: v for k, v in case.items() if k != "shape"}, "jobs": [[[o[0], o[1]] for o in job] for job in jobs], "family": "A2:after-edit"}
    return o1, case2, o2, bad


# ---------------------------------------------------------------- event-directed search (class H), see jobshop_events.py
def judge_event_case(case, ref):
    """runs in the search workers on EVERY candidate: implementation + property oracle (+ agreement of the reference port)"""
    out = run_impl(case)
    bad = oracle(case, out)
    if bad:
        return {"bad": bad}
    if "error" not in ref and out["kind"] == "ok":
        rs = sorted([j, k, s, e] for (j, k), (s, e) in ref["schedule"].items())
        if rs != out["schedule"] or ref["objective"] != out["objective"]:
            return {"port": {"schedule": rs, "objective": ref["objective"]}, "impl": {k: v for k, v in out.items() if k != "draws"}}
    return None


def coq_affordable(case):
    ops = sum(len(j) for j in case["jobs"])
    top = max((o[0] for job in case["jobs"] for o in job), default=0)
    # (with machine numbers >= 200 almost every pass draws an unused machine: cheap also for the model)
    return not case.get("nocoq") and ops <= 40 and top <= 320 and (case["max_iter"] <= 200 or ops <= 10 or top >= 200)


# ---------------------------------------------------------------- the check
def run_js(ctx: Ctx):
    big = ctx.tier == "thorough"
    rng = ctx.rng
    corpus = _corpus()
    cases = corpus + [json.loads(json.dumps(c)) for c in FIXED]
    n_corpus = len(cases)
    cases += [gen_case(rng, big) for _ in range(ctx.budget(700, 9000))]
    # round-2 families (jobshop_families.py): containers, labels, magnitudes, option corners and sweeps, sizes
    for gen, q, t in ((FAM.gen_shapes, 40, 400), (FAM.gen_labels, 40, 400), (FAM.gen_scaled, 40, 400), (FAM.gen_mixed_magnitudes, 30, 300),
                      (FAM.gen_float_durs, 40, 400), (FAM.gen_option_corner, 60, 600)):
        cases += [gen(rng) for _ in range(ctx.budget(q, t))]
    for _ in range(ctx.budget(3, 20)):
        cases += FAM.gen_sweep(rng)
    for _ in range(ctx.budget(1, 3)):
        cases += FAM.gen_sized(rng, big)
    alias_pairs = [FAM.gen_alias(rng) for _ in range(ctx.budget(40, 400))]
    # round 3: W work volume (every internal loop across 2^7 .. 2^12, 10^4, 10^5), A2 in-place edits / duplicate objects, X float extremes
    cases += FAM.gen_work(rng, big)
    for gen, q, t in ((FAM.gen_duplicates, 30, 300), (FAM.gen_float_mix, 50, 500)):
        cases += [gen(rng) for _ in range(ctx.budget(q, t))]
    edit_items = [FAM.gen_edit(rng) for _ in range(ctx.budget(50, 500))]
    nonfinite = [FAM.gen_nonfinite(rng) for _ in range(ctx.budget(30, 300))]

    # open known findings of this part: replay their witnesses first
    for f in ctx.open_findings():
        for w in f.get("witnesses", []):
            if isinstance(w, dict) and "jobs" in w:
                wc = {"rule": "spt", "seed": 0, "local_search": True, "max_iter": 1000, "cb_k": None, "interval": 0, **w}
                bad = oracle(wc, run_impl(wc))
                if bad:
                    ctx.known_hit(f["id"], f"witness still reproduces: {bad}")

    def report(case, bad, out=None):
        small = shrink(case, _fails) if len(ctx.violations) < 3 else case
        sout = run_impl(small)
        ctx.violation(f"solve_job_shop: {oracle(small, sout) or bad}",
                      {"kind": "js", **small, "impl": {k: v for k, v in sout.items() if k != "draws"}})

    # ---- class H: event-directed search; every candidate is judged in the workers
    seeds = [c for c in corpus if c.get("event")]
    found, verdicts, stats = EV.event_search(rng, ctx.budget(7000, 150000), judge=judge_event_case, seeds=seeds)
    ctx.evaluations += stats["spent"]
    ctx.count("js_family", "H:event-search candidates (oracle only)", stats["spent"])
    port_disagree = []
    for case, v in verdicts:
        if "bad" in v:
            if sum(1 for x in ctx.violations if not x["no_input"]) < 3:
                report(case, v["bad"])
        else:
            port_disagree.append((case, v))
    ctx.count("js_reference_port_agrees", "yes", stats["spent"] - len(port_disagree))
    if port_disagree:
        ctx.count("js_reference_port_agrees", "NO", len(port_disagree))
    for e in EV.EVENTS:
        ctx.count("js_event_sets_with", e, sum(1 for _, evs in found if e in evs))
    ctx.extra["js_event_search"] = {"reference_runs": stats["spent"], "distinct_event_sets": stats["distinct_event_sets"],
                                    "events_witnessed": sorted(stats["first_witness"]),
                                    "events_not_witnessed": [e for e in EV.EVENTS if e not in stats["first_witness"]]}
    # into the correspondence: a first witness of every event + a sample of the distinct event sets
    ev_cases = [dict(c, family="H:event-witness") for c in stats["first_witness"].values()]
    pick = list(found)
    rng.shuffle(pick)
    ev_cases += [dict(c, family="H:event-set") for c, _ in pick[:ctx.budget(200, 3000)]]
    cases += ev_cases

    results = pmap(run_pair, cases)
    alias_results = pmap(run_alias, alias_pairs)
    for (a, b), (oa, ob, bad) in zip(alias_pairs, alias_results):
        if bad:
            ctx.violation(f"solve_job_shop call sequence: {bad}", {"kind": "js_alias", "a": a, "b": b})
        cases += [a, b]
        results += [(oa, None, None), (ob, None, None)]
        ctx.evaluations += 2

    for (c0, edits), (o1, c2, o2, bad) in zip(edit_items, pmap(run_edit, edit_items)):
        if bad:
            ctx.violation(f"solve_job_shop call sequence: {bad}", {"kind": "js_edit", "case": c0, "edits": edits})
        cases += [c0, c2]
        results += [(o1, None, None), (o2, None, None)]
        ctx.evaluations += 3
    # X non-finite durations (NaN / inf / sums overflowing to inf): OUTSIDE the property (finite data) - observation only: the call may
    # return anything or raise; nothing here is a violation or a finding, only counted
    for c, out in zip(nonfinite, pmap(run_impl, nonfinite)):
        ctx.evaluations += 1
        ctx.count("js_family", c["family"])
        verdict = oracle_nonfinite(c, out) if out["kind"] != "hang" else "hang"
        ctx.count("observation_only", "js " + c["family"][2:] + ": " + ("raises" if out["kind"] == "exc" else "hang (cut by the guard)" if out["kind"] == "hang"
                                                                  else "result consistent in float arithmetic" if not verdict else "result with nan/inf times"))

    work_max = {}
    coq_cases, spec_cases, metas, spec_metas = [], [], [], []
    for idx, (case, (out, base, meta)) in enumerate(zip(cases, results)):
        if out["kind"] == "ok":
            n_all = sum(len(j) for j in case["jobs"])
            for key, val in (("ls_passes", out.get("iterations", 0)), ("evaluations", out.get("evaluations", 0)), ("dispatch_steps", n_all),
                             ("ready_list", len(case["jobs"])), *(case.get("work") or {}).items()):
                work_max[key] = max(work_max.get(key, 0), val)
        ctx.evaluations += 1
        valid = input_valid(case)
        n_ops = sum(len(j) for j in case["jobs"])
        ctx.count("js_family", case.get("family", "corpus/fixed" if idx < n_corpus else "random"))
        ctx.count("js_rule", case["rule"].lower() if valid else "invalid-input")
        ctx.count("js_n_jobs", len(case["jobs"]) if len(case["jobs"]) <= 5 else ">5")
        ctx.count("js_total_ops", n_ops if n_ops <= 16 else ">16")
        ctx.count("js_max_iter", (case["max_iter"] if case["max_iter"] in (0, 1, 5, 30, 150, 1000) else "other") if case["local_search"] else "no-local-search")
        ctx.count("js_outcome", out.get("status") or out.get("type") or out["kind"])
        if out["kind"] == "ok" and base is not None:
            ctx.count("js_local_search_effect", "improved" if out["objective"] < base else ("same" if out["objective"] == base else "WORSE"))
        if case.get("cb_k") is not None:
            ctx.count("js_callback", "with on_progress")
        if out["kind"] == "ok" and case["local_search"] and case["max_iter"] >= 1 and case["jobs"]:
            full = out["iterations"] == case["max_iter"]
            ctx.count("js_loop_exit", "all passes" if full else ("call-back stop" if case.get("cb_k") is not None and case["interval"] > 0
                                                                 else "no_improve >= 100"))
        if out["kind"] == "ok" and out["schedule"] and canon_objective(out) != out["objective"]:
            ctx.count("js_objective", "float rounding of a makespan > 2^53")
        bad = oracle(case, out) or meta
        if bad:
            if meta and not oracle(case, out):
                ctx.violation(f"solve_job_shop: {meta}", {"kind": "js", **{k: v for k, v in case.items() if k not in ("base", "expect")}, "base": case.get("base")})
            else:
                report(case, bad)
        if nontrivial(case):
            ctx.nontriv(canon({k: v for k, v in case.items() if k not in ("expect", "base")}))
        if idx >= n_corpus and not case.get("nocoq"):
            ctx.sample({"kind": "js", **case, "impl": {k: v for k, v in out.items() if k != "draws"}}, 3)
        if out["kind"] == "hang" or not coq_affordable(case):
            continue
        coq_cases.append(c_case(case, out))
        metas.append((case, out))
        if out["draws"]:
            ctx.traces_validated += 1
        if out["kind"] == "ok" and c_obs(out) != "IOther":
            spec_cases.append(f"({c_jobs(case['jobs'])}, {c_obs(out)})")
            spec_metas.append((case, out))

    work_max["accepted_moves_in_one_run"] = stats["max_accepts"]
    ctx.extra["js_work_volume_max"] = work_max
    for key, val in work_max.items():
        ctx.count("js_work_volume_max", key, val)
    failing = ctx.coq_check("js_corr", IMPORTS, "jcase", "corr_chk", coq_cases)
    disagree = [metas[i] for i in failing]
    sfailing = ctx.coq_check("js_spec", IMPORTS, "list job * iobs", "fun c => spec_check (fst c) (snd c)", spec_cases)
    for i in sfailing:
        case, out = spec_metas[i]
        if not oracle(case, out):  # the Python oracle accepted what the Coq checker rejects
            ctx.violation("solve_job_shop output rejected by the Coq checker spec_check (sound w.r.t. js_spec) although the Python oracle accepts it",
                          {"kind": "js", **case, "impl": {k: v for k, v in out.items() if k != "draws"}, "lemma": "Cases/C18/js_spec_*.v corr"}, no_input=True)

    # model (or reference port) and implementation disagree, or a proof broke, and no violating input so far: search harder
    if (disagree or port_disagree or ctx.broken) and not any(not v["no_input"] for v in ctx.violations):
        found_bad = False
        near = [c for c, _ in disagree[:20]] + [c for c, _ in port_disagree[:20]]
        near = [{k: v for k, v in c.items() if k in ("jobs", "rule", "seed", "local_search", "max_iter", "cb_k", "interval")} for c in near
                if c.get("seed") is not None and sum(len(j) for j in c["jobs"]) <= EV.MAX_OPS and input_valid(c) and c["jobs"]]
        for c in near:
            c["cb_k"], c["interval"] = None, 0
        _f, verdicts2, st2 = EV.event_search(rng, 60000, judge=judge_event_case, seeds=near + seeds)
        ctx.evaluations += st2["spent"]
        for case, v in verdicts2:
            if "bad" in v:
                report(case, v["bad"])
                found_bad = True
                break
        if not found_bad:
            pool = [gen_case(rng, True) for _ in range(20000)]
            outs = pmap(run_impl, pool)
            for case, out in zip(pool, outs):
                bad = oracle(case, out)
                if bad:
                    report(case, bad)
                    found_bad = True
                    break
        if not found_bad:
            for case, out in disagree[:1]:
                model = ctx.coq_eval("js_show", IMPORTS, f"run_case {c_case(case, out)}")
                ctx.violation("correspondence lemma js_corr: model SV.C18.JobShop.solve and solve_job_shop differ "
                              "(observable: schedule, objective, status, number of random draws)",
                              {"kind": "js", **case, "impl": out, "model": model[-1500:], "lemma": "Cases/C18/js_corr_*.v corr"}, no_input=True)
            if not disagree:
                for case, v in port_disagree[:1]:
                    ctx.violation("reference port harness/props/jobshop_events.ref_run (a transliteration of the modelled algorithm) and "
                                  "solve_job_shop differ (observable: schedule, objective)", {"kind": "js", **case, **v}, no_input=True)

    ctx.notes += [
        "job shop: Random is replaced in solvor.job_shop's namespace by a recording subclass; rng.choice / rng.randrange answers are the model's oracle list (the model is not a model of the Mersenne twister)",
        "job shop: durations and machines are Python ints of any magnitude (exact, = Z); integer-valued floats are accepted when the returned times are integral; dyadic halves are doubled back (exact) and judged as the integer case",
        "job shop: Result.objective is a float by the API; when the makespan exceeds 2^53 the oracle requires the correctly rounded float and the Coq side is given the exact latest end time",
        "job shop: the model represents _rebuild_schedule's `scheduled` set by the next_op vector (the set is prefix-closed per job)",
        "job shop: on_progress is modelled as a total function iteration -> bool; the harness uses threshold call-backs",
        "job shop oracle: invalid inputs (empty job, negative machine/duration, unknown rule) may raise ValueError; any other exception or a hang is a violation",
        "job shop: instances with > 40 operations or machine numbers > 320 (families S:*) are judged by the Python oracle and their by-construction answers only (no vm_compute)",
        "job shop: families W:* fix Result.iterations / Result.evaluations where the construction determines them and compare with the reference port where flagged; js_work_volume_max gives the largest count reached per internal loop",
        "job shop: NaN / inf durations and finite float durations whose sums overflow to inf are OUTSIDE the property (its quantifier speaks of finite data): a few such calls are made observation-only (histogram observation_only), never a violation or a finding",
        "job shop: the event-directed search is steered by an instrumented reference port (jobshop_events.ref_run); it is not an oracle, its agreement with the implementation is checked on every candidate",
    ]


def run(ctx: Ctx):
    ctx.rule = ("job shop: 1-4 jobs (..5 thorough) x 1-4 operations (..5) on machines 0..3 (also sparse indices, repeated machines inside a job, "
                "zero durations) x rule in spt/lpt/mwkr/fifo/random (+upper case, unknown) x seed x local_search x max_iter in {0,1,5,30,150} "
                "(+ on_progress stop), plus empty job list / empty job / negative machine / negative duration; round-2 families "
                "(jobshop_families.py): I containers (tuples, lists, a non-list Sequence, mixed), L machine/duration ints >= 257 built at call time and "
                "bools, M durations scaled by 2^31..10^18 (metamorphic: the schedule scales) / huge+tiny / integral floats / dyadic halves, O option "
                "corners, omitted keywords and max_iter sweeps 1..40, S chains / parallel / single-machine / flow shops of 17..1025 (2049) operations "
                "and machine numbers up to 10^6 with answers known by construction, A call sequences on one shared jobs object, A2 in-place edits between "
                "calls and inputs whose equal jobs / operations are one object, W one family per internal loop crossing 2^7..2^12, 10^4, 10^5 iterations of it "
                "(answers and Result.iterations / evaluations by construction), X ints vs integral floats / -0.0 and NaN / inf / overflow; H event-directed "
                "search (jobshop_events.py: idle windows and later operations that would fit them, ties, accepted moves) whose every candidate "
                "is run on the implementation and judged by the oracle; "
                "non-trivial = valid input where >= 2 jobs compete for one machine; distinct = canonical JSON of the call")
    ctx.proof_step(["C18"])
    run_js(ctx)
    try:
        from harness.props import C18_vrp
    except ImportError:
        C18_vrp = None
    if C18_vrp is not None:
        C18_vrp.run_part(ctx)
    if (COQ / "Props" / "C18_vrp.v").exists():
        ctx.proof_step(["C18"], props_file="Props/C18_vrp.v")


def replay(obj):
    if obj.get("kind") == "js" and "jobs" in obj:
        case = {k: obj.get(k, d) for k, d in (("jobs", []), ("rule", "spt"), ("seed", 0), ("local_search", True),
                                              ("max_iter", 1000), ("cb_k", None), ("interval", 0))}
        out = run_impl(case)
        bad = oracle(case, out)
        print("call: solve_job_shop(%r, rule=%r, local_search=%r, max_iter=%r, seed=%r%s)" % (
            case["jobs"], case["rule"], case["local_search"], case["max_iter"], case["seed"],
            "" if case["cb_k"] is None else f", on_progress=lambda p: p.iteration >= {case['cb_k']}, progress_interval={case['interval']}"))
        print("implementation:", {k: v for k, v in out.items() if k != "draws"})
        print("oracle verdict:", bad or "ok")
        return 1 if bad else 0
    if obj.get("kind", "").startswith("vrp"):
        try:
            from harness.props import C18_vrp
        except ImportError:
            print("no VRP part installed")
            return 1
        return C18_vrp.replay(obj)
    print("replay names an unchecked obligation:", obj.get("unchecked") or obj.get("what"))
    return 1
