"""C02 - SAT verdicts are correct and the solver always comes back.

Engine shared with C01 in harness/props/sat_common.py.  This module judges only C02's clauses: INFEASIBLE only if the
formula with the assumptions has no model (truth table, n <= 20 occurring variables; known-unsat families above);
a model is returned when one exists unless max_conflicts / max_restarts is exhausted (recomputed from the trace);
never a model for an unsatisfiable formula; the call returns within 5 s and raises nothing.  Machine rejections of
learned clauses (RUP), INFEASIBLE / enumeration-complete verdicts are C02's.
"""
from harness.core import COQ, Ctx
from harness.props import sat_common as SC

ID = "C02"
ANCHORS = SC.ANCHORS


def run(ctx: Ctx):
    ctx.rule = ("same generators as C01 (random k-CNF near the phase transition, injected units/binaries/repeats, gaps, assumptions, "
                "all option values, tiny budgets) plus structured UNSAT families (pigeonhole 3-5, contradictory parity chains, the "
                "18-variable cumulative encoding) and a budget sweep (pigeonhole 6..10 pigeons, random 3-SAT with 30-60 variables, parity chains, each under "
                "~25 small max_conflicts / max_restarts values: every call must return in time); non-trivial = conflict analysis produced >=1 learned clause (each one RUP-checked in "
                "coqc); distinct = canonical JSON of (clauses, assumptions, options); round 2: input container forms, aliased clause "
                "objects, option corners, call sequences, and a few heavy by-construction instances (blocks, guarded pigeonhole, sparse/large indices)")
    ctx.proof_step(["C01"], props_file="Props/C02.v")
    if (COQ / "Props" / "C02_deep.v").exists(): ctx.proof_step(["C01"], props_file="Props/C02_deep.v")  # noqa: E701
    ctx.notes += SC.NOTES + SC.NOTES_C02
    from harness.props import sat_shapes as SH  # round-2 hardening (HARDENING.md): heavy by-construction instances, call sequences
    heavy = SH.start_heavy(ctx, "C02")  # solved in a forked pool while the small-case engine runs
    SC.run_engine(ctx, "C02")
    SH.finish_heavy(ctx, "C02", heavy)
    SH.run_sequences(ctx, "C02")
    SC.run_sweep(ctx)  # budget sweep: hard instances x several small max_conflicts / max_restarts values, every call must return


def replay(obj):
    return SC.replay_common(obj, "C02")
