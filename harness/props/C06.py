"""C06 - the CP->SAT encoding (solvor/cp_encoder.py) has exactly the models of the CP problem.

Tie to /repo: random CP models are built through the PUBLIC operators / Model methods of solvor.cp (working
tree); `solve_sat` as seen from solvor.cp_encoder is replaced by a recorder that captures the clause list the
encoder hands over and returns a canned result (the SAT solver is never run).  The model's variables and
constraint tuples are walked into the Coq AST SV.C06.CpAst and
  (enc)  canon (fst (CpEnc.encode M)) = canon captured          (model of the encoder vs the implementation;
         clause lists compared as multisets of clauses-as-multisets because the encoder iterates Python sets)
  (proj) CpCheck.cnf_projection_ok M captured = true             (Gallina brute-force model counter on the CAPTURED
         clauses vs holdsb over the domain box - independent of the encoder model)
are evaluated by vm_compute inside coqc.  Independently of Coq and of solve_sat, a Python oracle enumerates ALL
models of the captured CNF with its own DPLL enumerator, decodes them onto the variables and compares the set of
named projections with a brute-force evaluation of the constraint semantics over the domain box: nothing extra,
nothing missing, every variable exactly one value of its domain.  `decode_sat_solution` of the real code is
exercised by a second run whose recorder returns those enumerated models as the canned SAT result.
"""
import itertools
import json

from harness.core import VERIF, Ctx, cbool, clist, cnat, cz, guarded

ID = "C06"
ANCHORS = ["solvor/cp_encoder.py", "solvor/cp.py"]
IMPORTS = "From SV Require Import C06.CpAst C06.CpEnc C06.CpCheck."
MAX_BOX = 1500        # brute force over the domain box (Python oracle and Coq cp_solutions)
MAX_MODELS = 4000     # CNF models enumerated per case


# ================================================================ independent semantics (oracle)
def ev(e, val):
    op = e[0]
    if op == "var":
        return val[e[1]]
    if op == "const":
        return e[1]
    if op == "add":
        return ev(e[1], val) + ev(e[2], val)
    if op == "sub":
        return ev(e[1], val) - ev(e[2], val)
    if op == "mul":      # k * a
        return e[1] * ev(e[2], val)
    if op == "rmul":     # a * k
        return ev(e[1], val) * e[2]
    raise AssertionError(op)


def holds(c, val):
    k = c[0]
    if k == "cmp":
        a, b = ev(c[1], val), ev(c[2], val)
        return (a != b) if c[3] else (a == b)
    if k == "all_different":
        xs = [val[i] for i in c[1]]
        return len(set(xs)) == len(xs)
    if k in ("sum_eq", "sum_le", "sum_ge"):
        s = sum(val[i] for i in c[1])
        return s == c[2] if k == "sum_eq" else (s <= c[2] if k == "sum_le" else s >= c[2])
    if k == "circuit":
        # the code's reading: successors inside 0..n-1, no self loop (n = 1 has no solution), one cycle through all nodes
        succ = [val[i] for i in c[1]]
        n = len(succ)
        if any(not 0 <= s < n or s == i for i, s in enumerate(succ)):
            return False
        seen, cur = [], 0
        for _ in range(n):
            if cur in seen:
                return False
            seen.append(cur)
            cur = succ[cur]
        return len(seen) == n and cur == 0
    if k == "no_overlap":
        st, du = [val[i] for i in c[1]], c[2]
        return all(st[i] + du[i] <= st[j] or st[j] + du[j] <= st[i] for i in range(len(st)) for j in range(i + 1, len(st)))
    if k == "cumulative":
        st, du, de, cap = [val[i] for i in c[1]], c[2], c[3], c[4]
        if cap < 0:
            return False
        if not st:
            return True
        lo, hi = min(st) - 1, max(s + max(d, 0) for s, d in zip(st, du)) + 1
        return all(sum(de[i] for i in range(len(st)) if st[i] <= t < st[i] + du[i]) <= cap for t in range(lo, hi + 1))
    raise AssertionError(k)


def box_size(spec):
    n = 1
    for _, lo, hi in spec["vars"]:
        n *= max(0, hi - lo + 1)
    return n


def cp_solutions(spec):
    """(set of projections on the named variables, number of full solutions, box size)"""
    doms = [range(lo, hi + 1) for _, lo, hi in spec["vars"]]
    named = [i for i, v in enumerate(spec["vars"]) if is_named(v[0], i)]
    sols, full = set(), 0
    for val in itertools.product(*doms):
        if all(holds(c, val) for c in spec["cons"]):
            full += 1
            sols.add(tuple(val[i] for i in named))
    return sols, full


def is_named(name, idx):
    return name is not None and not name.startswith("_")


# ================================================================ own enumerator of CNF models
class TooMany(Exception):
    pass


def all_models(clauses, nvars, cap):
    """All total assignments of variables 1..nvars satisfying the clauses (tuples of bools, index v-1)."""
    if any(len(c) == 0 for c in clauses):
        return []
    occ = {}
    for ci, c in enumerate(clauses):
        for l in c:
            occ.setdefault(abs(l), []).append(ci)
    out = []
    assign = [None] * (nvars + 1)

    def value(l):
        a = assign[abs(l)]
        return None if a is None else (a == (l > 0))

    def propagate(trail_start_var):
        """unit propagation from scratch over the clauses touching changed variables; returns list of set vars or None"""
        changed = [trail_start_var]
        set_vars = []
        while changed:
            v = changed.pop()
            for ci in occ.get(v, ()):
                c = clauses[ci]
                free, sat = [], False
                for l in c:
                    x = value(l)
                    if x is True:
                        sat = True
                        break
                    if x is None:
                        free.append(l)
                if sat:
                    continue
                if not free:
                    for u in set_vars:
                        assign[u] = None
                    return None
                if len(free) == 1:
                    l = free[0]
                    assign[abs(l)] = l > 0
                    set_vars.append(abs(l))
                    changed.append(abs(l))
        return set_vars

    def rec(v):
        while v <= nvars and assign[v] is not None:
            v += 1
        if v > nvars:
            out.append(tuple(assign[1:]))
            if len(out) > cap:
                raise TooMany()
            return
        for b in (False, True):
            assign[v] = b
            sv = propagate(v)
            if sv is not None:
                rec(v + 1)
                for u in sv:
                    assign[u] = None
            assign[v] = None

    # initial unit clauses
    pending = []
    for c in clauses:
        if len(c) == 1:
            l = c[0]
            if assign[abs(l)] is None:
                assign[abs(l)] = l > 0
                pending.append(abs(l))
            elif assign[abs(l)] != (l > 0):
                return []
    for v in pending:
        if propagate(v) is None:
            return []
    rec(1)
    return out


def truth_table_models(clauses, nvars):
    out = []
    for bits in itertools.product([False, True], repeat=nvars):
        if all(any(bits[abs(l) - 1] == (l > 0) for l in c) for c in clauses):
            out.append(bits)
    return out


def selftest_enumerator(rng):
    for _ in range(150):
        n = rng.randint(1, 7)
        cl = [[rng.choice([-1, 1]) * rng.randint(1, n) for _ in range(rng.randint(1, 3))] for _ in range(rng.randint(0, 10))]
        a = sorted(all_models(cl, n, 10**6))
        b = sorted(truth_table_models(cl, n))
        if a != b or len(set(a)) != len(a):
            return f"own DPLL enumerator disagrees with the truth table on {cl} ({n} variables)"
    return None


# ================================================================ building the library model (public API only)
def build_expr(e, xs):
    op = e[0]
    if op == "var":
        return xs[e[1]]
    if op == "const":
        return e[1]
    if op == "add":
        return build_expr(e[1], xs) + build_expr(e[2], xs)
    if op == "sub":
        return build_expr(e[1], xs) - build_expr(e[2], xs)
    if op == "mul":
        return e[1] * build_expr(e[2], xs)
    if op == "rmul":
        return build_expr(e[1], xs) * e[2]
    raise AssertionError(op)


def build_model(spec, m=None, vars_from=0, vars_to=None, cons_from=0, cons_to=None):
    """Model, or ('unbuildable', why) when the operators refuse an expression shape (TypeError) or fold it to a bool.
    With `m` given: continue building the same Model (variables vars_from.., constraints cons_from..) - in-place edits."""
    from solvor.cp import Model

    from harness.props.C06_hard import wrap

    if m is None:
        m = Model()
        m._verif_xs = []
        m._verif_inputs = []   # (the caller's list object, a copy): the library must not modify what it is given
    # names are built at call time (equal but not identical to any other string object with the same text)
    m._verif_xs += [m.int_var(lo, hi, "".join(list(nm))) if nm is not None else m.int_var(lo, hi)
                    for nm, lo, hi in spec["vars"][vars_from:vars_to]]
    xs = m._verif_xs
    modes = spec.get("iter") or ["list"] * len(spec["cons"])
    for c, mode in list(zip(spec["cons"], modes))[cons_from:cons_to]:
        k = c[0]

        def arg(seq, sized=False):
            a = wrap(seq, mode, sized)
            if isinstance(a, list):
                m._verif_inputs.append((a, list(a)))
            return a

        try:
            if k == "cmp":
                lhs, rhs = build_expr(c[1], xs), build_expr(c[2], xs)
                built = (lhs != rhs) if c[3] else (lhs == rhs)
            elif k == "all_different":
                built = m.all_different(arg([xs[i] for i in c[1]]))
            elif k in ("sum_eq", "sum_le", "sum_ge"):
                built = getattr(m, k)(arg([xs[i] for i in c[1]]), c[2])
            elif k == "circuit":
                built = m.circuit(arg([xs[i] for i in c[1]]))
            elif k == "no_overlap":
                built = m.no_overlap(arg([xs[i] for i in c[1]], True), arg(c[2], True))
            elif k == "cumulative":
                built = m.cumulative(arg([xs[i] for i in c[1]], True), arg(c[2], True), arg(c[3], True), c[4])
            else:
                raise AssertionError(k)
        except TypeError as e:
            return ("unbuildable", f"TypeError: {e}")
        if not isinstance(built, tuple):
            return ("unbuildable", f"operator returned {built!r}")
        m.add(built)
    return m


def final_spec(spec):
    """the content of the Model after the in-place edits of the spec"""
    s = {k: v for k, v in spec.items() if k not in ("edit", "replace", "pre", "seq")}
    if spec.get("replace"):
        k, newc = spec["replace"]
        s["cons"] = list(spec["cons"])
        s["cons"][k] = newc
    return s


class Recorder:
    """stands in for solvor.cp_encoder.solve_sat"""

    def __init__(self, canned=None):
        self.calls = []
        self.canned = canned

    def __call__(self, clauses, **kw):
        from solvor.sat import Status as SATStatus
        from solvor.types import Result

        self.calls.append(([list(c) for c in clauses], dict(kw)))
        if self.canned is None:
            return Result(None, 0, 0, 0, SATStatus.INFEASIBLE)
        models = self.canned
        return Result(models[0], 0, 0, 0, SATStatus.OPTIMAL, solutions=tuple(models))


def capture(m, canned=None, limit=1):
    """('cnf', clauses, result) | ('unsat', None, result): what SATEncoder.solve did with solve_sat replaced."""
    import solvor.cp_encoder as enc

    rec = Recorder(canned)
    real = enc.solve_sat
    enc.solve_sat = rec
    try:
        res = m.solve(solver="sat", solution_limit=limit)
    finally:
        enc.solve_sat = real
    if len(rec.calls) > 1:
        raise AssertionError("solve_sat called more than once")
    if not rec.calls:
        return ("unsat", None, res)
    return ("cnf", rec.calls[0][0], res)


def run_case(spec):
    """Everything observed on the implementation for one spec (a dict; exceptions of the library are outcomes)."""
    edit_bad = None
    if spec.get("pre"):
        # A2: another Model of the same shape is built, encoded and destroyed first (caches keyed by id() / sizes must not leak)
        import gc

        pm = build_model(spec["pre"])
        if not isinstance(pm, tuple):
            capture(pm)
        del pm
        gc.collect()
    if spec.get("edit"):
        # A2: the Model is solved, then edited IN PLACE through the public API (more variables, more constraints), then solved again
        ev_, ec_ = spec["edit"]
        m = build_model(spec, vars_to=ev_, cons_to=ec_)
        if isinstance(m, tuple):
            return {"built": False, "why": m[1]}
        capture(m)
        try:
            import solvor.cp_encoder as _enc
            rec_, real_ = Recorder(), _enc.solve_sat
            _enc.solve_sat = rec_
            try:
                m.solve(solver="dfs", solution_limit=2)
            finally:
                _enc.solve_sat = real_
        except Exception:  # noqa: BLE001
            pass
        m = build_model(spec, m=m, vars_from=ev_, cons_from=ec_)
    else:
        m = build_model(spec)
    if isinstance(m, tuple):
        return {"built": False, "why": m[1]}
    if spec.get("replace"):
        # A2: one constraint of the Model's list is replaced in place (same length) after a solve
        k_, newc = spec["replace"]
        capture(m)
        tmp = build_model({"vars": [], "cons": [newc]}, m=m, vars_from=0, vars_to=0)
        if isinstance(tmp, tuple):
            return {"built": False, "why": tmp[1]}
        m._constraints[k_] = m._constraints.pop()
    names = list(m._vars)
    info = {"built": True, "names": names}
    info["vars"] = [(v.lb, v.ub, not n.startswith("_"), v.bool_vars.get(v.lb, 0), dict(v.bool_vars)) for n, v in m._vars.items()]
    info["next_bool"] = m._next_bool
    def ast_now():
        try:
            return [walk_constraint(c, names) for c in m._constraints]
        except ValueError:
            if not spec.get("nocoq"):
                raise
            return [repr(c) for c in m._constraints]      # float arguments have no Coq counterpart

    info["ast"] = ast_now()
    kind, cnf, res = capture(m)
    info["kind"], info["cnf"], info["status"] = kind, cnf, getattr(getattr(res, "status", None), "name", str(getattr(res, "status", None)))
    # a second encoding of the same Model object must hand over the same clauses (nothing left behind by the first)
    kind2, cnf2, _ = capture(m)
    info["repeat_same"] = (kind2, cnf2) == (kind, cnf)
    info["next_bool_after"] = m._next_bool
    info["nvars_after"] = len(m._vars)
    info["model"] = m
    # the Model and the caller's lists are inputs: encoding must not change them
    after = [(v.lb, v.ub, not n.startswith("_"), v.bool_vars.get(v.lb, 0), dict(v.bool_vars)) for n, v in m._vars.items()]
    bad = None
    if after != info["vars"] or list(m._vars) != names:
        bad = "encoding changed the variables of the Model (bounds / literals / names)"
    elif ast_now() != info["ast"]:
        bad = "encoding changed Model._constraints"
    elif any(len(a) != len(b) or any(x is not y and not (isinstance(x, int) and isinstance(y, int) and x == y) for x, y in zip(a, b))
             for a, b in m._verif_inputs):
        bad = "a list passed to a Model constructor was modified"
    info["alts"] = []
    if bad is None and (spec.get("edit") or spec.get("replace") or spec.get("pre")):
        fresh = build_model(final_spec(spec))
        if not isinstance(fresh, tuple):
            fk, fc, _ = capture(fresh)
            if (fk, fc) != (kind, cnf):
                bad = "a Model edited in place after a solve (or built after another Model was destroyed) encodes differently from a fresh Model with the same content"
    if bad is None and spec.get("seq"):
        from harness.props.C06_hard import call_sequences

        bad, info["alts"] = call_sequences(spec, m, (kind, cnf))
    info["seq_bad"] = bad
    return info


# ================================================================ library tuples -> Coq AST
def walk_expr(e, names):
    from solvor.cp import IntVar

    if isinstance(e, IntVar):
        return ("EVar", names.index(e.name))
    if isinstance(e, bool):
        raise ValueError("bool in expression")
    if isinstance(e, int):
        return ("EConst", e)
    if isinstance(e, tuple) and len(e) == 3 and e[0] in ("add", "sub", "rsub"):
        return ({"add": "EAdd", "sub": "ESub", "rsub": "ERsub"}[e[0]], walk_expr(e[1], names), walk_expr(e[2], names))
    if isinstance(e, tuple) and len(e) == 3 and e[0] == "mul" and isinstance(e[2], int):
        return ("EMul", walk_expr(e[1], names), e[2])
    raise ValueError(f"unknown expression {e!r}")


def walk_constraint(c, names):
    k = c[0]
    ix = lambda v: names.index(v.name)  # noqa: E731
    if k in ("all_different", "circuit"):
        return (k, [ix(v) for v in c[1]])
    if k in ("eq_const", "ne_const"):
        return (k, ix(c[1]), c[2])
    if k in ("eq_var", "ne_var"):
        return (k, ix(c[1]), ix(c[2]))
    if k == "ne_expr":
        return (k, walk_expr(c[1], names), walk_expr(c[2], names), bool(c[3]))
    if k in ("sum_eq", "sum_le", "sum_ge"):
        return (k, [ix(v) for v in c[1]], c[2])
    if k == "no_overlap":
        return (k, [ix(v) for v in c[1]], list(c[2]))
    if k == "cumulative":
        return (k, [ix(v) for v in c[1]], list(c[2]), list(c[3]), c[4])
    raise ValueError(f"unknown constraint {c!r}")


def coq_var(i, v):
    lb, ub, named, base = v[0], v[1], v[2], v[3]
    return f"(mkVar {cnat(i)} {cz(lb)} {cz(ub)} {cbool(named)} {cz(base)})"


def coq_expr(e, V):
    if e[0] == "EVar":
        return f"(EVar {V[e[1]]})"
    if e[0] == "EConst":
        return f"(EConst {cz(e[1])})"
    if e[0] == "EMul":
        return f"(EMul {coq_expr(e[1], V)} {cz(e[2])})"
    return f"({e[0]} {coq_expr(e[1], V)} {coq_expr(e[2], V)})"


def coq_cons(c, V):
    k = c[0]
    vs = lambda l: clist(l, lambda i: V[i])  # noqa: E731
    if k == "all_different":
        return f"CAllDiff {vs(c[1])}"
    if k == "circuit":
        return f"CCircuit {vs(c[1])}"
    if k == "eq_const":
        return f"CEqConst {V[c[1]]} {cz(c[2])}"
    if k == "ne_const":
        return f"CNeConst {V[c[1]]} {cz(c[2])}"
    if k == "eq_var":
        return f"CEqVar {V[c[1]]} {V[c[2]]}"
    if k == "ne_var":
        return f"CNeVar {V[c[1]]} {V[c[2]]}"
    if k == "ne_expr":
        return f"CLin {coq_expr(c[1], V)} {coq_expr(c[2], V)} {cbool(c[3])}"
    if k in ("sum_eq", "sum_le", "sum_ge"):
        return f"{ {'sum_eq': 'CSumEq', 'sum_le': 'CSumLe', 'sum_ge': 'CSumGe'}[k]} {vs(c[1])} {cz(c[2])}"
    if k == "no_overlap":
        return "CNoOverlap " + clist(list(zip(c[1], c[2])), lambda p: f"({V[p[0]]}, {cz(p[1])})")
    if k == "cumulative":
        return "CCumulative " + clist(list(zip(c[1], c[2], c[3])), lambda p: f"({V[p[0]]}, {cz(p[1])}, {cz(p[2])})") + f" {cz(c[4])}"
    raise AssertionError(k)


def coq_case(info):
    V = [coq_var(i, v) for i, v in enumerate(info["vars"])]
    model = f"(mkModel {clist(V)} {clist(info['ast'], lambda c: '(' + coq_cons(c, V) + ')')} {cz(info['next_bool'])})"
    cap = "None" if info["kind"] == "unsat" else "(Some " + clist(info["cnf"], lambda c: clist(c, cz)) + ")"
    return f"({model}, {cap})"


# ================================================================ judging one case (oracle)
def judge(spec, info):
    """None if the captured CNF has exactly the CP models, else a description.  Also returns statistics."""
    spec = final_spec(spec) if spec.get("replace") else spec
    stats = {}
    if not info["built"]:
        return None, stats
    # literal numbering of the variables: consecutive from 1 in creation order (IntVar.__init__)
    nxt = 1
    for (lb, ub, _named, _base, bv), (_nm, lo, hi) in zip(info["vars"], spec["vars"]):
        if (lb, ub) != (lo, hi) or list(bv.items()) != [(x, nxt + x - lo) for x in range(lo, hi + 1)]:
            return f"variable literals are not numbered consecutively: {bv} (expected from {nxt})", stats
        nxt += hi - lo + 1
    if info["next_bool"] != nxt:
        return f"Model._next_bool = {info['next_bool']} after creating the variables, expected {nxt}", stats
    if not info["repeat_same"] or info["next_bool_after"] != nxt or info["nvars_after"] != len(spec["vars"]):
        return "a second solve(solver='sat') of the same Model encodes differently / the first one changed the Model", stats
    if info.get("seq_bad"):
        return info["seq_bad"], stats
    truth, nfull = cp_solutions(spec)
    stats["cp_solutions"] = len(truth)
    for alt in info.get("alts", []):
        # a re-used SATEncoder may number its auxiliaries differently: the clause list must still mean the same
        from harness.props.C06_hard import Cnf, TooMany as TooMany2

        nv = max([abs(l) for c in alt for l in c] + [nxt - 1])
        try:
            ms = Cnf(alt, nv).models([], MAX_MODELS)   # literal numbers skipped by the second encoding are not variables
        except TooMany2:
            return "second solve() of one SATEncoder: too many CNF models", stats
        named_i = [i for i, v in enumerate(spec["vars"]) if is_named(v[0], i)]
        got = set()
        for mdl in ms:
            val = [[x for x, l in bv.items() if mdl[l - 1]] for (_a, _b, _c, _d, bv) in info["vars"]]
            if any(len(t) != 1 for t in val) or not all(holds(c, [t[0] for t in val]) for c in spec["cons"]):
                return f"second solve() of one SATEncoder instance hands over clauses with a model decoding to {val}", stats
            got.add(tuple(val[i][0] for i in named_i))
        if got != truth:
            return f"second solve() of one SATEncoder instance loses CP solutions {sorted(truth - got)[:2]}", stats
    if info["kind"] == "unsat":
        stats["cnf_models"] = 0
        if info["status"] != "INFEASIBLE":
            return f"solve_sat not called but status is {info['status']}", stats
        if truth:
            return f"encoder reports INFEASIBLE by itself but the CP has {len(truth)} solutions, e.g. {sorted(truth)[0]}", stats
        return None, stats
    cnf = info["cnf"]
    if any(len(c) == 0 for c in cnf):
        return "an empty clause was handed to solve_sat", stats
    if any(l == 0 or not isinstance(l, int) for c in cnf for l in c):
        return "literal 0 / non-int literal in the clause list", stats
    nvars = max([abs(l) for c in cnf for l in c] + [nxt - 1])
    stats["booleans"] = nvars
    try:
        models = all_models(cnf, nvars, MAX_MODELS)
    except TooMany:
        return f"CNF has more than {MAX_MODELS} models while the CP has {nfull} solutions over a box of {box_size(spec)}", stats
    stats["cnf_models"] = len(models)
    named = [i for i, v in enumerate(spec["vars"]) if is_named(v[0], i)]
    proj = set()
    for mdl in models:
        val = []
        for (lb, ub, _n, _b, bv) in info["vars"]:
            tv = [x for x, l in bv.items() if mdl[l - 1]]
            if len(tv) != 1:
                return f"a CNF model gives a variable with domain {lb}..{ub} the values {tv}", stats
            val.append(tv[0])
        if not all(holds(c, val) for c in spec["cons"]):
            bad = [c for c in spec["cons"] if not holds(c, val)][0]
            return f"CNF model decodes to {val} which violates {bad} (soundness)", stats
        proj.add(tuple(val[i] for i in named))
    if proj != truth:
        missing = sorted(truth - proj)[:2]
        return f"CP solutions missing from the CNF projection (over-constrained): {missing}; extra: {sorted(proj - truth)[:2]}", stats
    # decode_sat_solution of the real code on these models
    if models:
        canned = [{v + 1: b for v, b in enumerate(mdl)} for mdl in models[:200]]
        _k, _c, res = capture(info["model"], canned=canned, limit=len(canned) + 1)
        sols = list(res.solutions) if res.solutions is not None else [res.solution]
        names = [info["names"][i] for i in named]
        got = set()
        for s in sols:
            if not isinstance(s, dict) or sorted(s) != sorted(names):
                return f"decode_sat_solution returned {s!r} for named variables {names}", stats
            got.add(tuple(s[n] for n in names))
        want = set()
        for mdl in models[:200]:
            want.add(tuple([x for x, l in info["vars"][i][4].items() if mdl[l - 1]][0] for i in named))
        if got != want:
            return f"decode_sat_solution gives {sorted(got)[:3]}.. for CNF models that mean {sorted(want)[:3]}..", stats
    return None, stats


# ================================================================ generators
def V(i):
    return ["var", i]


def K(c):
    return ["const", c]


def rand_term(rng, i):
    r = rng.random()
    if r < 0.5:
        return V(i)
    k = rng.choice([-3, -2, -1, 1, 2, 2, 3, 0] if rng.random() < 0.9 else [0])
    return ["mul", k, V(i)] if rng.random() < 0.5 else ["rmul", V(i), k]


def rand_side(rng, idxs, with_const):
    """an expression over the listed variables built left to right with + and - (what the operators accept), or a tree"""
    terms = [rand_term(rng, i) for i in idxs]
    if with_const:
        terms.insert(rng.randrange(len(terms) + 1), K(rng.randint(-4, 4)))
    if not terms:
        return K(rng.randint(-3, 3))
    e = terms[0]
    for t in terms[1:]:
        e = [rng.choice(["add", "add", "sub"]), e, t]
    return e


def rand_tree(rng, nv, depth):
    r = rng.random()
    if depth == 0 or r < 0.3:
        return V(rng.randrange(nv)) if rng.random() < 0.8 else K(rng.randint(-4, 4))
    if r < 0.55:
        return ["add", rand_tree(rng, nv, depth - 1), rand_tree(rng, nv, depth - 1)]
    if r < 0.75:
        return ["sub", rand_tree(rng, nv, depth - 1), rand_tree(rng, nv, depth - 1)]
    if r < 0.9:
        return ["mul", rng.choice([-3, -2, -1, 0, 1, 2, 3]), rand_tree(rng, nv, depth - 1)]
    return ["rmul", rand_tree(rng, nv, depth - 1), rng.choice([-2, -1, 1, 2, 3])]


def rand_cmp(rng, nv):
    is_ne = rng.random() < 0.35
    r = rng.random()
    if r < 0.12:   # var ==/!= const, const ==/!= var
        a, b = V(rng.randrange(nv)), K(rng.randint(-5, 5))
        return ["cmp", a, b, is_ne] if rng.random() < 0.6 else ["cmp", b, a, is_ne]
    if r < 0.24:   # var ==/!= var
        return ["cmp", V(rng.randrange(nv)), V(rng.randrange(nv)), rng.random() < 0.5]
    if r < 0.8:    # 1..5 terms split over both sides, constants either side, reversed operands
        k = rng.randint(1, min(5, nv + 1))
        idxs = [rng.randrange(nv) for _ in range(k)] if rng.random() < 0.3 else rng.sample(range(nv), min(k, nv))
        cut = rng.randint(0, len(idxs))
        lhs = rand_side(rng, idxs[:cut], rng.random() < 0.4)
        rhs = rand_side(rng, idxs[cut:], rng.random() < 0.5)
        return ["cmp", lhs, rhs, is_ne]
    return ["cmp", rand_tree(rng, nv, rng.randint(1, 3)), rand_tree(rng, nv, rng.randint(0, 2)), is_ne]


def rand_constraint(rng, nv, kind=None):
    kind = kind or rng.choice(["cmp"] * 5 + ["all_different", "sum_eq", "sum_le", "sum_ge", "circuit", "no_overlap", "cumulative"])
    if kind == "cmp":
        return rand_cmp(rng, nv)
    if kind == "all_different":
        k = rng.randint(0, nv) if rng.random() < 0.15 else rng.randint(2, max(2, nv))
        if rng.random() < 0.1:
            return [kind, [rng.randrange(nv) for _ in range(k)]]
        return [kind, rng.sample(range(nv), min(k, nv))]
    if kind in ("sum_eq", "sum_le", "sum_ge"):
        k = rng.choice([0, 1, 1, 2, 2, 3, 3, 4, 5])
        idxs = [rng.randrange(nv) for _ in range(k)] if rng.random() < 0.3 or k > nv else rng.sample(range(nv), k)
        return [kind, idxs, rng.randint(-6, 9)]
    if kind == "circuit":
        k = rng.choice([0, 1]) if rng.random() < 0.05 else rng.randint(2, max(2, min(5, nv)))
        if rng.random() < 0.05:
            return [kind, [rng.randrange(nv) for _ in range(k)]]
        return [kind, rng.sample(range(nv), min(k, nv))]
    k = rng.randint(0, 1) if rng.random() < 0.05 else rng.randint(2, min(4, max(2, nv)))
    tasks = [rng.randrange(nv) for _ in range(k)] if rng.random() < 0.08 or k > nv else rng.sample(range(nv), k)
    durs = [rng.choice([1, 1, 2, 2, 3, 4, 0, -1]) if rng.random() < 0.25 else rng.randint(1, 3) for _ in tasks]
    if kind == "no_overlap":
        return [kind, tasks, durs]
    dem = [rng.randint(0, 3) for _ in tasks]
    cap = rng.choice([0, 1, 1, 2, 2, 3, 3, 4, 5, sum(dem)])
    return [kind, tasks, durs, dem, cap]


def rand_spec(rng, focus=None):
    focus = focus or rng.choice(["mix", "mix", "lin", "lin", "sum", "circuit", "sched", "pair"])
    if focus == "circuit":
        n = rng.choice([2, 3, 3, 4, 4, 4, 5])
        nv = n + rng.choice([0, 0, 1])
        variables = []
        for i in range(nv):
            lo = rng.choice([0, 0, 0, -1, 1])
            hi = max(lo, n - 1 + rng.choice([0, 0, 0, -1, 1]))
            if n == 5:
                lo, hi = max(lo, 0), min(hi, lo + 3 + (i % 2))
            variables.append([f"s{i}", lo, hi])
    else:
        nv = rng.choice([1, 2, 2, 3, 3, 3, 4, 4, 5])
        variables = []
        for i in range(nv):
            lo = rng.randint(-4, 4)
            hi = lo + rng.choice([0, 1, 1, 2, 2, 3, 3, 4])
            variables.append([f"v{i}", lo, hi])
    # shrink the box
    while True:
        size = 1
        for _, lo, hi in variables:
            size *= hi - lo + 1
        if size <= MAX_BOX:
            break
        j = max(range(nv), key=lambda i: variables[i][2] - variables[i][1])
        variables[j][2] -= 1
    if rng.random() < 0.12:
        i = rng.randrange(nv)
        variables[i][0] = None if rng.random() < 0.6 else f"_h{i}"
    ncons = rng.choice([1, 1, 2, 2, 3])
    kinds = {"lin": ["cmp"], "sum": ["sum_eq", "sum_le", "sum_ge"], "sched": ["no_overlap", "cumulative", "cumulative"],
             "pair": ["cmp", "all_different"], "circuit": None, "mix": None}[focus]
    cons = [rand_constraint(rng, nv, rng.choice(kinds) if kinds else None) for _ in range(ncons)]
    if focus == "circuit":
        idx = list(range(n))
        if rng.random() < 0.3:
            rng.shuffle(idx)
        cons[0] = ["circuit", idx]
    # make feasible models more likely: shift constants so that some constraints hold at a random point
    point = [rng.randint(lo, hi) for _, lo, hi in variables]
    for k, c in enumerate(cons):
        if rng.random() < 0.6:
            if c[0] == "cmp" and not c[3]:
                diff = ev(c[1], point) - ev(c[2], point)
                if diff:
                    cons[k] = ["cmp", c[1], ["add", c[2], K(diff)], False] if rng.random() < 0.5 else ["cmp", ["sub", c[1], K(diff)], c[2], False]
            elif c[0] in ("sum_eq", "sum_le", "sum_ge"):
                slack = {"sum_eq": 0, "sum_le": rng.randint(0, 2), "sum_ge": -rng.randint(0, 2)}[c[0]]
                cons[k] = [c[0], c[1], sum(point[i] for i in c[1]) + slack]
    return {"vars": variables, "cons": cons}


EDGE_SPECS = [
    # witnesses of the defects fixed in /repo (5a875d8, 11b5653, 96724f5, 0ef9547, 1eb001c) and degenerate shapes
    {"vars": [[f"s{i}", 0, 3] for i in range(4)], "cons": [["circuit", [0, 1, 2, 3]]]},
    {"vars": [[f"s{i}", -1, 3] for i in range(3)], "cons": [["circuit", [0, 1, 2]]]},
    {"vars": [["a", 0, 1], ["b", 0, 1]], "cons": [["circuit", [0, 1]]]},
    {"vars": [["a", 0, 0]], "cons": [["circuit", [0]]]},
    {"vars": [["a", 0, 1]], "cons": [["circuit", []]]},
    {"vars": [[f"s{i}", 0, 5] for i in range(3)], "cons": [["cumulative", [0, 1, 2], [6, 6, 6], [1, 1, 1], 2]]},
    {"vars": [[f"s{i}", 0, 3] for i in range(4)], "cons": [["cumulative", [0, 1, 2, 3], [4, 4, 4, 4], [2, 1, 1, 1], 3]]},
    {"vars": [["x", 0, 5], ["y", 0, 5]], "cons": [["cmp", ["mul", 2, V(0)], ["add", V(1), K(1)], False]]},
    {"vars": [["x", 0, 5], ["y", 0, 5]], "cons": [["cmp", ["mul", 2, V(0)], ["add", V(1), K(1)], True]]},
    {"vars": [["x", 0, 4], ["y", 0, 4], ["z", 0, 4]], "cons": [["cmp", ["sub", V(0), V(1)], V(2), False]]},
    {"vars": [["x", 0, 4], ["y", 0, 4], ["z", 0, 4]], "cons": [["cmp", ["add", ["add", V(0), V(1)], V(2)], ["add", ["mul", -1, V(0)], K(7)], False]]},
    {"vars": [["x", 0, 9], ["y", 0, 9]], "cons": [["all_different", [0, 1]], ["cmp", ["add", V(0), V(1)], K(10), False]]},
    {"vars": [["x", 0, 3]], "cons": [["cmp", ["sub", K(3), V(0)], V(0), False]]},
    {"vars": [["x", 0, 3]], "cons": [["cmp", ["sub", V(0), V(0)], K(0), True]]},
    {"vars": [["x", 0, 3]], "cons": [["cmp", ["sub", V(0), V(0)], K(0), False]]},
    {"vars": [["x", 0, 3]], "cons": [["sum_le", [], -1]]},
    {"vars": [["x", 0, 3]], "cons": [["sum_ge", [], 1]]},
    {"vars": [["x", 0, 3]], "cons": [["sum_eq", [], 0]]},
    {"vars": [["x", 0, 3]], "cons": [["all_different", [0, 0]]]},
    {"vars": [["x", 0, 3], [None, 0, 3]], "cons": [["cmp", ["add", V(0), V(1)], K(5), False]]},
    {"vars": [["x", -2, 1], ["y", 3, 5], ["z", -1, 1], ["w", 0, 2], ["u", 1, 2]], "cons": [["sum_eq", [0, 1, 2, 3, 4], 5]]},
    {"vars": [["x", -2, 1], ["y", 3, 5], ["z", -1, 1], ["w", 0, 2], ["u", 1, 2]], "cons": [["sum_le", [0, 1, 2, 3, 4], 3]]},
    {"vars": [["x", -2, 1], ["y", 3, 5], ["z", -1, 1], ["w", 0, 2], ["u", 1, 2]], "cons": [["sum_ge", [0, 1, 2, 3, 4], 7]]},
    {"vars": [["a", 0, 3], ["b", 0, 3], ["c", 1, 2]], "cons": [["no_overlap", [0, 1, 2], [2, 0, 1]]]},
    {"vars": [["a", 0, 2], ["b", 0, 2]], "cons": [["cumulative", [0, 1], [2, 2], [0, 3], 2]]},
    {"vars": [["a", 0, 2], ["b", 0, 2]], "cons": [["cumulative", [0, 1], [2, 2], [1, 1], 0]]},
]


def _corpus():
    out = []
    d = VERIF / "corpus" / "C06"
    if d.exists():
        for f in sorted(d.glob("*.json")):
            o = json.loads(f.read_text())
            if "vars" in o and "cons" in o:
                out.append({"vars": o["vars"], "cons": o["cons"]})
    return out


# ================================================================ run
def kinds_of(info):
    return sorted({c[0] for c in info["ast"]})


def shrink(spec, fails):
    """drop constraints / variables' range while it still fails"""
    if any(k in spec for k in ("edit", "replace", "pre", "nocoq")):
        return spec
    cur = json.loads(json.dumps(spec))
    changed = True
    while changed:
        changed = False
        for k in range(len(cur["cons"])):
            if len(cur["cons"]) > 1:
                t = dict(cur, cons=cur["cons"][:k] + cur["cons"][k + 1:])
                if cur.get("iter"):
                    t["iter"] = cur["iter"][:k] + cur["iter"][k + 1:]
                if fails(t):
                    cur, changed = t, True
                    break
        if changed:
            continue
        for i, (nm, lo, hi) in enumerate(cur["vars"]):
            for nlo, nhi in ((lo + 1, hi), (lo, hi - 1)):
                if nlo <= nhi:
                    t = json.loads(json.dumps(cur))
                    t["vars"][i] = [nm, nlo, nhi]
                    if fails(t):
                        cur, changed = t, True
                        break
            if changed:
                break
    return cur


def evaluate(spec):
    res = guarded(run_case, spec, timeout=60 if "base" in spec else 10)
    if res[0] == "exc" and spec.get("family") == "X" and res[1] in ("TypeError", "ValueError", "OverflowError", "KeyError"):
        return {"built": False, "why": f"float argument rejected: {res[1]}"}, None, {}
    if res[0] != "ok":
        return None, f"implementation {res[0]}: {res[1:]}", {}
    info = res[1]
    if "base" in spec and info.get("built"):
        from harness.props.C06_hard import judge_big

        j = guarded(judge_big, spec, info, timeout=60)
        if j[0] == "hang":
            return info, None, {"oracle_timeout": 1}     # no verdict from the probing oracle (never a failure); Coq `enc` still applies
        if j[0] != "ok":
            return info, f"oracle could not finish ({j[0]}: {j[1:]})", {}
        return info, j[1][0], j[1][1]
    j = guarded(judge, spec, info, timeout=20)
    if j[0] != "ok":
        return info, f"oracle could not finish ({j[0]}: {j[1:]})", {}
    return info, j[1][0], j[1][1]


def still_fails(spec):
    try:
        _info, bad, _ = evaluate(spec)
    except Exception:  # noqa: BLE001
        return False
    return bool(bad)


def run(ctx: Ctx):
    ctx.rule = ("random CP models over <=5 integer variables with small arbitrary domains (negative, not zero based), 1-3 constraints "
                "drawn from every encodable kind (all_different, ==/!= const/var, linear ==/!= built through the operators in "
                "every accepted shape with 1..5 terms, sum_eq/le/ge with 0..5 terms, circuit n=0..5 with arbitrary successor "
                "domains, no_overlap, cumulative with 0..4 tasks), box <= %d; non-trivial = the CP solution set is a non-empty "
                "proper subset of the box, or it is empty although clauses were handed to solve_sat; distinct = canonical JSON" % MAX_BOX)
    ctx.proof_step(["C06"])
    bad = selftest_enumerator(ctx.rng)
    if bad:
        ctx.internal_errors.append(bad)
        return
    # empty domains never reach the encoder through Model.solve (39644fa: INFEASIBLE before encoding); wf_model asks lb <= ub
    def _empty_dom():
        from solvor.cp import Model
        m = Model()
        m.int_var(3, 2, "x")
        m.int_var(0, 1, "y")
        k, _c, r = capture(m)
        return k, getattr(r.status, "name", str(r.status))
    r = guarded(_empty_dom, timeout=5)
    ctx.evaluations += 1
    if r != ("ok", ("unsat", "INFEASIBLE")):
        ctx.violation(f"a variable with an empty domain (lb > ub) is not reported INFEASIBLE by solve(solver='sat'): {r}",
                      {"spec": {"vars": [["x", 3, 2], ["y", 0, 1]], "cons": []}})
    from harness.props import C06_hard as H

    bad = H.selftest_cnf(ctx.rng)
    if bad:
        ctx.internal_errors.append(bad)
        return
    thorough = ctx.tier == "thorough"
    n = ctx.budget(300, 6000)
    specs = _corpus() + [json.loads(json.dumps(s)) for s in EDGE_SPECS] + [rand_spec(ctx.rng) for _ in range(n)]
    # round-2 families (HARDENING.md): A twins, M magnitudes, L names, I iterables; S and O below; H directed at the end
    specs += [H.twin_spec(ctx.rng) for _ in range(ctx.budget(110, 1500))]
    specs += [H.magnitude_spec(ctx.rng) for _ in range(ctx.budget(60, 700))]
    specs += [H.many_constraints(ctx.rng) for _ in range(ctx.budget(4, 40))]
    # round 3: A2 in-place edits / destroyed siblings, X float arguments (W below with the large instances)
    specs += [H.edited_spec(ctx.rng) for _ in range(ctx.budget(60, 600))]
    specs += [s_ for s_ in (H.float_spec(ctx.rng) for _ in range(ctx.budget(60, 600))) if s_]
    specs += [H.float_boundary_spec(ctx.rng) for _ in range(ctx.budget(120, 1200))]
    specs += [H.relabel(ctx.rng, rand_spec(ctx.rng)) for _ in range(ctx.budget(40, 400))]
    specs += [H.with_iterables(ctx.rng, rand_spec(ctx.rng) if ctx.rng.random() < 0.7 else H.twin_spec(ctx.rng)) for _ in range(ctx.budget(50, 500))]
    for sp in specs:
        if ctx.rng.random() < 0.2:
            sp["seq"] = True

    coq_cases, coq_proj, metas = [], [], []
    coq_big, metas_big = [], []
    events = {}
    work_max = {}
    import time as _time
    t_phase = {"start": _time.time()}

    def process(spec):
        info, bad, stats = evaluate(spec)
        fam = spec.get("family", "base")
        if info is None and fam == "X" and H.observation_class(spec):
            ctx.evaluations += 1
            ctx.count("observation_only", H.observation_class(spec) + ":raised-or-cut")
            return
        if info is None:
            ctx.evaluations += 1
            ctx.violation(f"encoder failed: {bad}", {"spec": spec})
            return
        if not info["built"]:
            ctx.count("unbuildable", info["why"][:40])
            if fam == "X":
                ctx.evaluations += 1
                ctx.count("family", "X-rejected")
            return
        if fam == "X" and H.observation_class(spec):
            # /root/seed3/POLICY_X.md (a), (b), (e): outside the property; the call ran under the guard, nothing is judged
            ctx.evaluations += 1
            ctx.count("observation_only", H.observation_class(spec) + (":differs" if bad else ":agrees"))
            return
        work = H.work_counts(spec, info)
        for k_, v_ in work.items():
            work_max[k_] = max(work_max.get(k_, 0), v_)
        ctx.evaluations += 1
        ctx.count("family", fam)
        if spec.get("seq"):
            ctx.count("family", "A-call-sequence")
        for k in kinds_of(info):
            ctx.count("constraint_kind", k)
        for e in H.spec_events(spec):
            events[e] = events.get(e, 0) + 1
        if "base" in spec:
            ctx.count("outcome", "large:" + ("empty-clause" if info["kind"] == "unsat" else "probed"))
            if "clauses" in stats:
                ctx.count("large_clauses", next(b for b in (1000, 5000, 20000, 100000, 10**9) if stats["clauses"] <= b))
            if bad:
                ctx.violation(f"CNF of the encoder does not have exactly the CP models (large instance): {bad}", {"spec": spec})
            if stats.get("probes_sat", 0) and stats.get("probes", 0) > stats.get("probes_sat", 0):
                ctx.nontriv(json.dumps(spec, sort_keys=True))
            ctx.sample({"family": fam, "vars": len(spec["vars"]), "cons": [c[0] for c in spec["cons"]], **stats}, 6)
            if not spec.get("nocoq") and (info["cnf"] is None or len(info["cnf"]) <= (60000 if thorough else 8000)):   # parsing 40k clauses costs coqc ~20 s
                coq_big.append(coq_case(info))
                metas_big.append((spec, info))
            return
        ctx.count("outcome", "empty-clause" if info["kind"] == "unsat" else ("sat" if stats.get("cnf_models") else "unsat"))
        if "booleans" in stats:
            ctx.count("booleans", (stats["booleans"] // 10) * 10)
        if "cnf_models" in stats:
            ctx.count("cnf_models", next(b for b in ("0", "1", "2-5", "6-20", "21-100", "101-500", ">500") if stats["cnf_models"] <= {"0": 0, "1": 1, "2-5": 5, "6-20": 20, "21-100": 100, "101-500": 500, ">500": 10**9}[b]))
        if bad:
            small = shrink(spec, still_fails)
            i2, b2, _ = evaluate(small)
            ctx.violation(f"CNF of the encoder does not have exactly the CP models: {b2 or bad}",
                          {"spec": small, "original_spec": spec, "captured": None if i2 is None else i2.get("cnf")})
        ncp, bs = stats.get("cp_solutions", 0), box_size(spec)
        if (0 < ncp and stats.get("cnf_models", 0) and ncp < bs) or (ncp == 0 and info["kind"] == "cnf"):
            ctx.nontriv(json.dumps(spec, sort_keys=True))
        ctx.sample({"spec": spec, "clauses": None if info["cnf"] is None else len(info["cnf"]), **stats}, 3)
        if spec.get("nocoq"):
            return
        term = coq_case(info)
        if H.coq_span_ok(spec):
            coq_cases.append(term)
            metas.append((spec, info))
        if H.coq_proj_ok(spec) and (fam in ("base", "H") or thorough or len(coq_cases) % 3 == 0) and (thorough or stats.get("cnf_models", 0) <= 400):
            coq_proj.append((term, spec, info))

    for spec in specs:
        process(spec)
    # H: events of the encoder that the random phase has not produced often enough
    for spec in H.directed(ctx.rng, events, want=3 if not thorough else 10):
        process(spec)
    for e in H.EVENTS:
        ctx.count("event", e, events.get(e, 0))
    # S: large structured instances judged by probes / slices (+ the size independent Coq encoder comparison)
    for spec in H.big_specs(ctx.rng, thorough) + H.work_specs(ctx.rng, thorough):
        process(spec)
    ctx.extra["work_max_iterations_per_loop"] = work_max
    # duplicate variable NAMES (explicit, or through the library's own auto-naming): POLICY_X (d) - observation only
    for _ in range(ctx.budget(10, 60)):
        r = guarded(H.dup_names_case, ctx.rng, timeout=10)
        ctx.evaluations += 1
        ctx.count("observation_only", "duplicate-variable-names:" + ("raised-or-cut" if r[0] != "ok" else ("differs" if r[1][1] else "agrees")))
    ctx.notes.append("observation-only classes (POLICY_X: outside the property, never a violation or known finding, counted in histogram "
                     "observation_only): NaN / +-inf / |v| >= 1e300 float arguments, float-typed durations or demands, two int_var with one name")
    t_phase["python"] = _time.time()
    # large instances: one or two per file so that they are compiled in parallel
    fb = ctx.coq_check("encbig", IMPORTS, "cpmodel * option cnf",
                       "fun c => wf_model (fst c) && obs_ok (fst c) (snd c)", coq_big, shard=2, timeout=900)
    t_phase["coq_big"] = _time.time()
    failing = ctx.coq_check("enc", IMPORTS, "cpmodel * option cnf",
                            "fun c => wf_model (fst c) && obs_ok (fst c) (snd c)", coq_cases, shard=45)
    failing = [len(coq_cases) + i for i in fb] + failing
    coq_cases = coq_cases + coq_big
    metas = metas + metas_big
    t_phase["coq_enc"] = _time.time()
    failing2 = [coq_proj[i][1:] for i in ctx.coq_check("proj", IMPORTS, "cpmodel * option cnf",
                                                       "fun c => cnf_projection_ok (fst c) (snd c)", [t for t, _s, _i in coq_proj], shard=32)]
    t_phase["coq_proj"] = _time.time()
    ks = list(t_phase)
    ctx.extra["phase_seconds"] = {ks[i]: round(t_phase[ks[i]] - t_phase[ks[i - 1]], 1) for i in range(1, len(ks))}
    ctx.notes.append("clause lists are compared as multisets (literals sorted inside each clause, clauses sorted, both sides sorted inside Coq): "
                     "_encode_all_different/_encode_eq_var/_encode_ne_var iterate Python sets in hash order")
    ctx.notes.append("theorems (coq/Props/C06.v, all inputs, no size bound) cover EVERY constraint kind the encoder accepts: variables/exactly-one/"
                     "decoding, ==/!= const, ==/!= var, all_different, no_overlap, linear ==/!= (every shape _linearize accepts), sum_eq/le/ge, "
                     "circuit, cumulative, and whole models (C06_sound/_complete/_equisat/_projection under wf_model); they are statements about "
                     "the Gallina model CpEnc.encode, tied to cp_encoder.py by the per-run clause-multiset correspondence (enc); independently "
                     "every explored case is checked by cnf_projection_ok (Gallina model counter on the CAPTURED clauses, proved sound: "
                     "C06_check_no_extra/_no_missing) and by the Python oracle")
    ctx.notes.append("variables with an empty domain (lb > ub) never reach the encoder through Model.solve (INFEASIBLE is returned first, 39644fa); "
                     "the encoder theorems assume lb <= ub (wf_model); checked on one fixed input per run")
    ctx.notes.append("semantics taken from the code: circuit forbids self loops (n=1 unsatisfiable), no_overlap is end_i<=start_j or end_j<=start_i, "
                     "cumulative generated with capacity >= 0 and demands >= 0 only; domains are ranges lb..ub (IntVar), non-empty")
    for spec, info in failing2:
        if not ctx.violations:
            ctx.violation("Coq model counter cnf_projection_ok rejects the captured clause list although the Python oracle accepted it",
                          {"spec": spec, "captured": info["cnf"], "lemma": "Cases/C06/proj_*.v corr"}, no_input=True)

    if (failing or ctx.broken) and not ctx.violations:
        found = False
        for k in range(3000):
            spec = [rand_spec, H.twin_spec, H.magnitude_spec][k % 3](ctx.rng)
            info, bad, _ = evaluate(spec)
            if info is not None and info.get("built") and bad:
                small = shrink(spec, still_fails)
                ctx.violation(f"CNF of the encoder does not have exactly the CP models: {bad}", {"spec": small, "original_spec": spec})
                found = True
                break
        if not found:
            for i in failing[:1]:
                spec, info = metas[i]
                model = ctx.coq_eval("enc_show", IMPORTS, f"canon (fst (encode (fst {coq_cases[i]})))")
                ctx.violation("correspondence lemma enc: SV.C06.CpEnc.encode and SATEncoder differ (observable: clause multiset handed to solve_sat)",
                              {"spec": spec, "captured": info["cnf"], "model_clauses": model[:3000], "lemma": "Cases/C06/enc_*.v corr"}, no_input=True)


def replay(obj):
    spec = obj.get("spec")
    if not spec:
        print("replay names an unchecked obligation:", obj.get("unchecked") or obj.get("what"))
        return 1
    if obj.get("kind") == "options":
        import random

        from harness.props.C06_hard import option_sweep

        bad = None
        for k in range(5):
            bad = bad or option_sweep(random.Random(k), spec)[0]
        print("spec:", json.dumps(spec))
        print("option sweep verdict:", bad or "ok")
        return 1 if bad else 0
    info, bad, stats = evaluate(spec)
    print("spec:", json.dumps(spec)[:2000])
    if info is not None and info.get("built"):
        print("captured:", info["kind"], info["cnf"] if info["cnf"] is None or len(info["cnf"]) < 60 else f"{len(info['cnf'])} clauses")
    print("stats:", stats)
    print("oracle verdict:", bad or "ok")
    return 1 if bad else 0
