"""TEMPORARY development driver for part B of C11 (best-first solvers): `/verif/check C11b`.
The real entry point is harness/props/C11.py (part A's module), which calls C11_bestfirst.run_part(ctx) and
ctx.proof_step(["C11"], props_file="Props/C11_bestfirst.v").  This file only exists so that part B can be run
on its own; it is not a property module of its own (ID is C11)."""
from harness.core import Ctx
from harness.props import C11_bestfirst as B

ID = "C11"
ANCHORS = B.ANCHORS


def run(ctx: Ctx):
    ctx.rule = "C11 part B only (temporary driver)"
    ctx.proof_step(["C11"], props_file="Props/C11_bestfirst.v")
    B.run_part(ctx)


replay = B.replay
