"""Shared engine of the C01 / C02 checks (solvor/sat.py, solve_sat).

Shape G: every real call runs with the SOLVOR_VERIF hook; its event trace is replayed through the guarded
machine SV.C01.Machine inside coqc (`trace_ok N A limit trace result = true`: every event accepted and the
machine's `result_of` equals the Result the code returned).  Independently of hook and machine, a truth-table
oracle (bitset over all 2^n assignments) judges the returned assignments and the verdict.

C01 judges: returned assignments satisfy clauses + assumptions, are pairwise distinct.
C02 judges: INFEASIBLE only if unsat; a model is returned when one exists and budgets are not exhausted;
            never a model for an unsat formula; the call returns within the time guard, without exception.
"""
from __future__ import annotations

import json
import re

from harness.core import VERIF, Ctx, cbool, clist, cz, guarded, pmap

ANCHORS = ["solvor/sat.py"]
IMPORTS = "From SV Require Import C01.SatSpec C01.Rup C01.Machine."
CASE_TYPE = "(cnf * list Z * Z) * (list event * result)"
CHK_TRACE = "fun c => trace_ok CHKFLAG (fst (fst (fst c))) (snd (fst (fst c))) (snd (fst c)) (fst (snd c)) (snd (snd c))"
CHK_SPEC = "fun c => spec_check (fst (fst (fst c))) (snd (fst (fst c))) (snd (snd c))"
DEFAULT_KW = {"solution_limit": 1, "luby_factor": 100, "max_conflicts": 100_000, "max_restarts": 10_000}


# ------------------------------------------------------------------------------------------- cases
BROKEN_FLAG = None  # path of a flag file the engine creates when the tree is evidently broken (>= 5 calls that do not return); see sat_shapes

def mk(clauses, assumptions=(), family="", **kw):
    k = dict(DEFAULT_KW)
    k.update(kw)
    t = k.pop("timeout", None)  # per-case time guard (seconds) for the few deliberately heavy corpus cases
    case = {"clauses": [list(c) for c in clauses], "assumptions": list(assumptions), "kw": k, "family": family}
    if t:
        case["timeout"] = t
    return case


def n_vars_of(clauses):
    return max((abs(l) for c in clauses for l in c), default=0)


def valid_input(case):
    """no literal 0; at least one non-empty clause (or no clause at all); assumption variables within 1..n_vars"""
    cl = case["clauses"]
    n = n_vars_of(cl)
    if any(l == 0 for c in cl for l in c) or any(a == 0 or abs(a) > n for a in case["assumptions"]):
        return False
    return not cl or n > 0


def canon(case):
    return json.dumps([case["clauses"], case["assumptions"], sorted(case["kw"].items())])


# ---- structured families
def pigeonhole(holes):
    """holes+1 pigeons into `holes` holes: unsatisfiable, (holes+1)*holes variables"""
    p = holes + 1
    var = lambda i, j: i * holes + j + 1  # noqa: E731
    cl = [[var(i, j) for j in range(holes)] for i in range(p)]
    for j in range(holes):
        for a in range(p):
            for b in range(a + 1, p):
                cl.append([-var(a, j), -var(b, j)])
    return cl


def xor_clauses(vs, rhs):
    """CNF of  x1 xor ... xor xk = rhs  (all 2^(k-1) forbidden sign patterns)"""
    out = []
    k = len(vs)
    for mask in range(1 << k):
        ones = bin(mask).count("1")
        # clause forbids the assignment where var i is TRUE iff bit i of mask set; forbid when parity != rhs
        if ones % 2 != rhs:
            out.append([(-v if (mask >> i) & 1 else v) for i, v in enumerate(vs)])
    return out


def parity_chain(n, rhs_total, rng, contradict=True):
    """x1 xor .. xor xn = rhs via chain variables t_i (t1 = x1 xor x2, t_{i} = t_{i-1} xor x_{i+1}), asserted twice with
    opposite right-hand sides when `contradict` (unsatisfiable), in shuffled clause order."""
    cl = []
    nxt = n + 1

    def chain(rhs):
        nonlocal nxt
        acc = 1
        for x in range(2, n + 1):
            if x == n:
                cl.extend(xor_clauses([acc, x], rhs))
            else:
                t = nxt
                nxt += 1
                cl.extend(xor_clauses([acc, x, t], 0))
                acc = t

    chain(rhs_total)
    if contradict:
        chain(1 - rhs_total)
    rng.shuffle(cl)
    return cl


def cumulative18():
    return json.loads((VERIF / "corpus" / "C02" / "cumulative18.json").read_text())["clauses"]


# ---- random families
def rand_kcnf(rng, n, m, k):
    cl = []
    for _ in range(m):
        kk = k if rng.random() < 0.8 else rng.choice([2, 3, 4])
        kk = min(kk, n)
        vs = rng.sample(range(1, n + 1), kk)
        cl.append([v if rng.random() < 0.5 else -v for v in vs])
    return cl


def gen_case(rng, big=False):
    """One structured random case (mostly valid, edge features injected)."""
    r = rng.random()
    nmax = 20 if big else 12
    if rng.random() < 0.12:
        # hard core: plain 3-CNF at the threshold, largest size, small restart unit: many conflicts, backjumps, restarts
        n = rng.choice([16, 18, 20]) if big else rng.choice([10, 11, 12])
        cl = rand_kcnf(rng, n, int(4.26 * n) + rng.randint(0, 3), 3)
        return mk(cl, [], "hard3cnf", solution_limit=rng.choice([1, 1, 2, 10]), luby_factor=rng.choice([1, 2, 2, 100]))
    if r < 0.62:
        n = rng.choice([4, 5, 6, 7, 8, 8, 9, 9, 10, 10, 11, 11, 12, 12] + ([14, 16, 18, 20] if big else []))
        n = min(n, nmax)
        ratio = rng.choice([2.6, 3.2, 3.8, 4.0, 4.26, 4.26, 4.6, 5.0])
        cl = rand_kcnf(rng, n, max(1, int(ratio * n + rng.randint(-2, 2))), 3)
        fam = "3cnf"
    elif r < 0.78:
        n = rng.randint(3, min(12, nmax))
        cl = rand_kcnf(rng, n, rng.randint(n // 2 + 1, 2 * n), 2)
        fam = "2cnf-mix"
    elif r < 0.9:
        n = rng.randint(1, 6)
        cl = rand_kcnf(rng, n, rng.randint(1, 2 * n + 2), rng.choice([1, 2, 3]))
        fam = "tiny"
    else:
        n = rng.randint(4, min(12, nmax))
        cl = rand_kcnf(rng, n, rng.randint(n, 3 * n), rng.choice([3, 4]))
        fam = "loose"
    # injected unit and binary clauses
    if rng.random() < 0.3:
        for _ in range(rng.randint(1, 2)):
            v = rng.randint(1, n)
            cl.insert(rng.randint(0, len(cl)), [v if rng.random() < 0.5 else -v])
        fam += "+unit"
    if rng.random() < 0.35:
        for _ in range(rng.randint(1, 4)):
            a, b = rng.randint(1, n), rng.randint(1, n)
            if a != b:
                cl.insert(rng.randint(0, len(cl)), [rng.choice([a, -a]), rng.choice([b, -b])])
        fam += "+bin"
    # repeated-variable / tautology clauses
    if rng.random() < 0.15:
        for _ in range(rng.randint(1, 2)):
            v, w = rng.randint(1, n), rng.randint(1, n)
            c = rng.choice([[v, v, w], [v, -v, w], [v, w, v], [-v, w, -v], [v, -v], [v, v]])
            cl.insert(rng.randint(0, len(cl)), c)
        fam += "+rep"
    # variable numbering with gaps (monotone renaming into a larger range)
    if rng.random() < 0.2:
        top = min(n + rng.randint(1, 4), 16 if not big else 22)
        names = sorted(rng.sample(range(1, top + 1), n))
        cl = [[(names[abs(l) - 1] if l > 0 else -names[abs(l) - 1]) for l in c] for c in cl]
        fam += "+gap"
    nv = n_vars_of(cl)
    # assumptions on variables in range (mostly occurring ones)
    asm = []
    if rng.random() < 0.33 and nv > 0:
        occ = sorted({abs(l) for c in cl for l in c})
        for _ in range(rng.choice([1, 1, 2, 3])):
            v = rng.choice(occ) if rng.random() < 0.85 else rng.randint(1, nv)
            asm.append(v if rng.random() < 0.5 else -v)
        if rng.random() < 0.08:
            asm.append(-asm[0])
        fam += "+asm"
    kw = {
        "solution_limit": rng.choice([1, 1, 1, 2, 3, 10, 1000]),
        "luby_factor": rng.choice([1, 2, 100, 100]),
    }
    if rng.random() < 0.2:
        kw["max_conflicts"] = rng.choice([0, 1, 2, 3, 5, 10, 30])
    if rng.random() < 0.15:
        kw["max_restarts"] = rng.choice([0, 1, 2, 5])
    if kw["solution_limit"] == 1000 and nv > 10:
        kw["solution_limit"] = 10  # keep traces small
    return mk(cl, asm, fam, **kw)


def fixed_cases(rng, big=False):
    out = [
        mk([], family="edge-noclauses"),
        mk([[1]], family="edge"), mk([[-1]], family="edge"), mk([[1], [-1]], family="edge-units-clash"),
        mk([[], [1]], family="edge-emptyclause"), mk([[1, 2], []], family="edge-emptyclause"),
        mk([[1, 2]], [-1], family="w-pure-vs-asm"), mk([[1, 2]], [1, -1], family="edge-asm-clash"),
        mk([[1, 2]], family="w-pure-enum", solution_limit=10),
        mk([[-1]], family="w-luby", solution_limit=3, luby_factor=1),
        mk([[1], [2, 3]], family="w-level0", solution_limit=10),
        mk([[1], [2, 3]], [2], family="w-block-level0", solution_limit=10),
        mk([[1, 2], [-1, -2]], family="w-block-level0", solution_limit=10),
        mk([[1], [-1, 2], [3, 4], [-3, 4], [3, -4], [-3, -4, 5]], family="w-restart-units", luby_factor=1),
        mk([[3]], family="edge-gap", solution_limit=10), mk([[3, 5]], [2], family="edge-gap-asm", solution_limit=1000),
        mk([[1, 1, 2], [-1, -1], [2, -2, 1]], family="edge-rep", solution_limit=10),
        mk([[1, 2, 3]], family="edge-enum-all", solution_limit=1000),
        mk([[1, 2], [-1, 2], [1, -2], [-1, -2]], family="edge-unsat2"),
        mk([[1, 2], [-1, 2], [1, -2]], [-1], family="edge-asm-unsat"),
        mk([[1, 2, 3], [-1, -2], [-1, -3], [-2, -3]], family="edge-limit0", solution_limit=0),
    ]
    for h in (3, 4) + ((5,) if big else ()):
        out.append(mk(pigeonhole(h), family=f"php{h}"))
        out.append(mk(pigeonhole(h), family=f"php{h}", luby_factor=1))
        out.append(mk(pigeonhole(h), family=f"php{h}", luby_factor=2, solution_limit=3))
    if not big:
        out.append(mk(pigeonhole(5), family="php5", luby_factor=2))
    for n in (3, 5, 7, 8):
        out.append(mk(parity_chain(n, rng.randint(0, 1), rng, True), family="parity-unsat", luby_factor=rng.choice([1, 2, 100])))
        out.append(mk(parity_chain(n, rng.randint(0, 1), rng, False), family="parity-sat", solution_limit=rng.choice([1, 3, 1000])))
    c18 = cumulative18()
    out.append(mk(c18, family="cumulative18"))
    out.append(mk(c18, family="cumulative18", max_conflicts=500))
    out.append(mk(c18, family="cumulative18", luby_factor=1))
    out.append(mk(c18, [1], family="cumulative18", luby_factor=2))
    # satisfiable variant: drop one at-least-one clause's competitors (window relaxed by removing a task)
    out.append(mk([c for c in c18 if all(abs(l) <= 12 for l in c)], family="cumulative-2tasks", solution_limit=3))
    return out


QUIRKS = [
    # (case, expected) - pinned behaviour outside valid_input, observed and counted, never judged
    (mk([[]], family="quirk-only-empty"), ("ok", "OPTIMAL")),
    (mk([[1, 2]], [3], family="quirk-asm-out-of-range"), ("exc", "IndexError")),
]


# ------------------------------------------------------------------------------------------- implementation
def model_lits(d):
    return [v if d[v] else -v for v in sorted(d)]


def build_call(case):
    """The objects handed to solve_sat: container forms (I) and aliased clause objects (A) as described by case['shape'].
    Returns (clauses object, assumptions object, inner lists or None, assumption list or None) - the last two for the
    'caller's input is not modified' comparison."""
    shape = case.get("shape") or {}
    inner = [list(c) for c in case["clauses"]]
    for g in shape.get("alias") or []:
        g = [i for i in g if i < len(inner)]
        for i in g[1:]:
            if inner[i] == inner[g[0]]:
                inner[i] = inner[g[0]]  # the same list object at several positions
    outer_kind, inner_kind = shape.get("cform", "list-list").split("-")
    conv = {"list": lambda c: c, "tuple": tuple, "gen": lambda c: (l for l in c)}[inner_kind]
    objs = [conv(c) for c in inner]
    cl_obj = objs if outer_kind == "list" else tuple(objs) if outer_kind == "tuple" else (c for c in objs)
    asm = list(case["assumptions"])
    aform = shape.get("aform", "list")
    if aform == "list":
        a_obj = asm or None
    else:
        a_obj = {"tuple": tuple, "set": set, "gen": lambda a: (x for x in a), "iter": iter, "map": lambda a: map(int, a)}[aform](asm)
    return cl_obj, a_obj, (inner if inner_kind == "list" else None), (asm if aform == "list" else None)


def outside_signature(case):
    """container forms the type hints (Sequence[Sequence[int]], Sequence[int] | None) do not admit: a TypeError is acceptable there"""
    shape = case.get("shape") or {}
    return shape.get("cform", "list-list") in ("list-gen", "gen-list", "gen-tuple") or shape.get("aform", "list") in ("set", "gen", "iter", "map")


def run_impl(case, timeout=5, clauses_obj=None, assumptions_obj=None):
    """Run solve_sat under the hook and the time guard.  Module-level (used with pmap)."""
    import copy
    import time

    import solvor.sat as S

    S._VERIF_TRACE = []
    kw = dict(case["kw"])
    t0 = time.time()
    timeout = max(timeout, case.get("timeout", 0))
    if clauses_obj is not None:
        cl_obj, a_obj, inner, asm = clauses_obj, assumptions_obj, None, None
    else:
        cl_obj, a_obj, inner, asm = build_call(case)
    snap = (copy.deepcopy(inner), list(asm) if asm is not None else None)
    res = guarded(S.solve_sat, cl_obj, assumptions=a_obj, timeout=timeout, **kw)
    dt = time.time() - t0
    trace = S._VERIF_TRACE or []
    S._VERIF_TRACE = None
    out = {"outcome": res[0], "time": round(dt, 3)}
    if inner is not None and inner != snap[0]:
        out["input_modified"] = f"clause lists {snap[0]} became {inner}"[:400]
    elif asm is not None and asm != snap[1]:
        out["input_modified"] = f"assumption list {snap[1]} became {asm}"
    if res[0] == "ok":
        r = res[1]
        out["status"] = getattr(r.status, "name", str(r.status))
        out["solution"] = None if r.solution is None else {int(k): bool(v) for k, v in r.solution.items()}
        out["solutions"] = None if r.solutions is None else [{int(k): bool(v) for k, v in s.items()} for s in r.solutions]
        out["objective"] = r.objective
        out["decisions"], out["propagations"] = r.iterations, r.evaluations
    elif res[0] == "exc":
        out["exc"] = [res[1], res[2]]
    ev = []
    for e in trace:
        if e[0] == "init":
            ev.append(["init", int(e[1]), [int(x) for x in e[2]], [int(x) for x in e[3]], [int(x) for x in e[4]]])
        elif e[0] == "learn":
            ev.append(["learn", [int(x) for x in e[1]], bool(e[2])])
        elif e[0] == "solution":
            ev.append(["solution", {int(k): bool(v) for k, v in e[1].items()}])
        else:
            ev.append(["verdict", str(e[1])])
    out["trace"] = ev
    return out


def returned_models(out):
    ms = []
    if out.get("solution") is not None:
        ms.append(out["solution"])
    for s in out.get("solutions") or []:
        ms.append(s)
    return ms


# ------------------------------------------------------------------------------------------- oracle
class Truth:
    """Truth table of clauses ∧ assumptions as a bitset over all assignments of the relevant variables
    (those occurring in a clause or an assumption).  Independent of solver, hook and Coq model."""

    def __init__(self, clauses, assumptions):
        self.vars = sorted({abs(l) for c in clauses for l in c} | {abs(a) for a in assumptions})
        k = len(self.vars)
        self.k = k
        self.too_big = k > 20
        if self.too_big:
            return
        size = 1 << k
        full = (1 << size) - 1
        self.pat = {}
        for j, v in enumerate(self.vars):
            # bit a of pattern set iff assignment index a has bit j set (variable v true)
            block = ((1 << (1 << j)) - 1) << (1 << j)
            period = 1 << (j + 1)
            p = 0
            # build by doubling
            p = block
            width = period
            while width < size:
                p |= p << width
                width <<= 1
            self.pat[v] = p & full
        t = full
        for c in clauses:
            s = 0
            for l in c:
                s |= self.pat[abs(l)] if l > 0 else (full & ~self.pat[abs(l)])
            t &= s
            if not t:
                break
        for a in assumptions:
            t &= self.pat[abs(a)] if a > 0 else (full & ~self.pat[abs(a)])
        self.table = t
        self.sat = t != 0
        self.count = bin(t).count("1")

    def index(self, m):
        return sum(1 << j for j, v in enumerate(self.vars) if m.get(v))

    def is_model(self, m):
        return all(v in m for v in self.vars) and bool((self.table >> self.index(m)) & 1)


def satisfies_directly(m, clauses, assumptions):
    """definition of the property itself, no table"""
    ok_c = all(any(m.get(abs(l)) is (l > 0) for l in c) for c in clauses)
    ok_a = all(m.get(abs(a)) is (a > 0) for a in assumptions)
    return ok_c and ok_a


def py_luby(i):
    """Luby sequence, written independently of sat.py: t(2^k - 1) = 2^(k-1); t(i) = t(i - 2^k + 1) for 2^k <= i < 2^(k+1) - 1"""
    while True:
        k = (i + 1).bit_length() - 1  # largest k with 2^k <= i + 1
        if i + 1 == 1 << k:
            return 1 << (k - 1)
        i -= (1 << k) - 1


def restarts_fired(case, learns):
    """number of restarts the code performed, recomputed from the number of analysed conflicts"""
    kw = case["kw"]
    csr, idx, restarts = 0, 1, 0
    nxt = kw["luby_factor"] * py_luby(1)
    for _ in range(learns):
        csr += 1
        if csr >= nxt:
            if restarts >= kw["max_restarts"]:
                break
            restarts += 1
            idx += 1
            nxt = kw["luby_factor"] * py_luby(idx)
            csr = 0
    return restarts


def budget_exhausted(case, out):
    """May the code legitimately answer MAX_ITER?  conflicts ∈ {L, L+1} at the max_conflicts test where L = number of
    analysed conflicts so far (= learn events with blocking False); restarts is a function of L and luby_factor."""
    kw = case["kw"]
    learns = sum(1 for e in out["trace"] if e[0] == "learn" and not e[2])
    if learns + 1 >= kw["max_conflicts"]:
        return True
    csr, idx, restarts = 0, 1, 0
    nxt = kw["luby_factor"] * py_luby(1)
    for i in range(learns):
        csr += 1
        if csr >= nxt:
            if restarts >= kw["max_restarts"]:
                return i == learns - 1
            restarts += 1
            idx += 1
            nxt = kw["luby_factor"] * py_luby(idx)
            csr = 0
    return False


def judge_c01(case, out, truth):
    """None or a description of how the returned assignments break C01."""
    if out["outcome"] != "ok":
        return None
    cl, asm = case["clauses"], case["assumptions"]
    ms = returned_models(out)
    for m in ms:
        if not satisfies_directly(m, cl, asm):
            bad = next((c for c in cl if not any(m.get(abs(l)) is (l > 0) for l in c)), None)
            return f"returned assignment {m} falsifies " + (f"clause {bad}" if bad is not None else f"an assumption of {asm}")
        if truth is not None and not truth.too_big and not truth.is_model(m):
            return f"returned assignment {m} is not in the truth table of the formula"
    sols = out.get("solutions")
    if sols is not None:
        seen = {}
        for i, sl in enumerate(sols):
            key = tuple(sorted(sl.items()))
            if key in seen:
                return f"solutions[{seen[key]}] == solutions[{i}] == {sl}"
            seen[key] = i
    return None


def judge_c02(case, out, truth, known_unsat=False):
    if out["outcome"] == "hang":
        return "did not return within 5 s"
    if out["outcome"] == "exc":
        return f"raised {out['exc'][0]}: {out['exc'][1]}"
    st = out["status"]
    if st not in ("OPTIMAL", "INFEASIBLE", "MAX_ITER"):
        return f"status {st} is none of OPTIMAL / INFEASIBLE / MAX_ITER"
    has_model = out["solution"] is not None or bool(out.get("solutions"))
    if st == "OPTIMAL" and not has_model:
        return "status OPTIMAL without a model"
    sat = None
    if truth is not None and not truth.too_big:
        sat = truth.sat
    elif known_unsat:
        sat = False
    if sat is None:
        return None
    if st == "INFEASIBLE" and sat:
        return "INFEASIBLE although the formula with the assumptions has a model"
    if has_model and not sat:
        return f"reports a model ({out['solution']}) for an unsatisfiable formula"
    if sat and not has_model and st == "MAX_ITER" and not budget_exhausted(case, out):
        return "MAX_ITER without a model although a model exists and neither max_conflicts nor max_restarts is exhausted"
    return None


# ------------------------------------------------------------------------------------------- Coq terms
def c_model(d):
    return clist(model_lits(d), cz)


def c_event(e):
    if e[0] == "init":
        return f"EInit {cz(e[1])} {clist(e[2], cz)} {clist(e[3], cz)} {clist(e[4], cz)}"
    if e[0] == "learn":
        return f"ELearn {clist(e[1], cz)} {cbool(e[2])}"
    if e[0] == "solution":
        return f"ESolution {c_model(e[1])}"
    return f"EVerdict {e[1]}"


def c_result(out):
    sol = "None" if out["solution"] is None else f"(Some {c_model(out['solution'])})"
    sols = "None" if out["solutions"] is None else f"(Some {clist(out['solutions'], c_model)})"
    obj = out["objective"]
    return f"(mkResult {out['status']} {sol} {cz(int(obj))} {sols})"


def seen_assumptions(case):
    """the assumption list as solve_sat sees it after list(assumptions): a set iterates in its own order, without repeats"""
    if (case.get("shape") or {}).get("aform") == "set":
        return list(set(case["assumptions"]))
    return list(case["assumptions"])


def c_input(case):
    return f"({clist(case['clauses'], lambda c: clist(c, cz))}, {clist(seen_assumptions(case), cz)}, {cz(case['kw']['solution_limit'])})"


def c_case(case, out):
    return f"({c_input(case)}, ({clist(out['trace'], c_event)}, {c_result(out)}))"


def coq_expressible(out):
    return (out["outcome"] == "ok" and out["status"] in ("OPTIMAL", "INFEASIBLE", "MAX_ITER")
            and isinstance(out["objective"], int) and not isinstance(out["objective"], bool)
            and all(e[0] != "verdict" or e[1] in ("OPTIMAL", "INFEASIBLE", "MAX_ITER") for e in out["trace"]))


# ------------------------------------------------------------------------------------------- shrinking
def shrink(case, still_fails0, max_steps=400, seconds=40):
    """Greedy: drop clauses, assumptions, then literals while `still_fails(case)` holds (bounded by steps and wall time)."""
    import time

    t_end = time.time() + seconds

    def still_fails(t):
        return time.time() < t_end and still_fails0(t)

    cur = json.loads(json.dumps(case))
    steps = 0
    changed = True
    while changed and steps < max_steps and time.time() < t_end:
        changed = False
        for i in range(len(cur["clauses"]) - 1, -1, -1):
            if len(cur["clauses"]) <= 1:
                break
            t = json.loads(json.dumps(cur))
            del t["clauses"][i]
            steps += 1
            if valid_input(t) and still_fails(t):
                cur, changed = t, True
        for i in range(len(cur["assumptions"]) - 1, -1, -1):
            t = json.loads(json.dumps(cur))
            del t["assumptions"][i]
            steps += 1
            if valid_input(t) and still_fails(t):
                cur, changed = t, True
        for i in range(len(cur["clauses"])):
            for j in range(len(cur["clauses"][i]) - 1, -1, -1):
                if len(cur["clauses"][i]) <= 1:
                    break
                t = json.loads(json.dumps(cur))
                del t["clauses"][i][j]
                steps += 1
                if valid_input(t) and still_fails(t):
                    cur, changed = t, True
            if steps >= max_steps:
                break
    return cur


# ------------------------------------------------------------------------------------------- corpus
def load_corpus(pid):
    out = []
    for d in ("C01", "C02"):
        p = VERIF / "corpus" / d
        if p.exists():
            for f in sorted(p.glob("*.json")):
                o = json.loads(f.read_text())
                if "clauses" not in o or o.get("kind") == "data":
                    continue
                kw = dict(o.get("kw", {}))
                if o.get("timeout"):
                    kw["timeout"] = o["timeout"]
                out.append(mk(o["clauses"], o.get("assumptions", []), "corpus:" + f.stem, **kw))
    return out


# ------------------------------------------------------------------------------------------- engine
def run_engine(ctx: Ctx, pid: str):
    big = ctx.tier == "thorough"
    max_learn = 400 if big else 150
    judge = (lambda c, o, t, ku=False: judge_c01(c, o, t)) if pid == "C01" else judge_c02

    cases = [c for c in load_corpus(pid) + fixed_cases(ctx.rng, big) if valid_input(c)]
    n_rand = ctx.budget(600, 6000)
    rand_cases = [c for c in (gen_case(ctx.rng, big) for _ in range(n_rand)) if valid_input(c)]
    from harness.props import sat_shapes as SH  # round-2 hardening: container forms, aliased clause objects, option corners

    rand_cases += [SH.gen_shape_case(ctx.rng, big) for _ in range(ctx.budget(600, 4000))]
    rand_cases += SH.corner_cases(ctx.rng, ctx.budget(80, 600))

    # pinned quirks outside valid_input: observed, counted, never judged
    for qc, (exp_outcome, exp_detail) in QUIRKS:
        o = run_impl(qc)
        got = (o["outcome"], o.get("status") if o["outcome"] == "ok" else (o.get("exc") or ["hang"])[0])
        ctx.count("quirk_outside_valid_input", f"{qc['family']}:{got[0]}/{got[1]}")

    outs = pmap(run_impl, cases)
    hangs = sum(1 for o in outs if o["outcome"] == "hang")
    if BROKEN_FLAG and hangs < 5:
        open(BROKEN_FLAG, "w").write("ok")  # tells the heavy-instance workers (sat_shapes) that long guards are worth their time
    if hangs >= 5:  # broken tree: every hang costs 5 s, a small random batch is enough to report
        ctx.notes.append(f"{hangs} hangs among the {len(cases)} corpus/fixed cases: random batch cut to 60 cases, heavy / sequence / sweep families cut short")
        rand_cases = rand_cases[:60]
        ctx.extra["broken_tree_hangs"] = hangs
        if BROKEN_FLAG:
            open(BROKEN_FLAG, "w").write("broken")
    outs += pmap(run_impl, rand_cases)
    cases = cases + rand_cases
    # a 5 s expiry on a loaded machine is re-tried once with 20 s before it counts as "does not return"
    retried = 0
    for i, o in enumerate(outs):
        if o["outcome"] == "hang" and retried < (1 if ctx.extra.get("broken_tree_hangs") else 3):
            retried += 1
            o2 = run_impl(cases[i], 20)
            if o2["outcome"] != "hang":
                ctx.count("slow_but_returned", f"{o2['time']}s")
                outs[i] = o2
    ctx.extra["slowest_call_s"] = max((o["time"] for o in outs), default=0)
    coq_cases, coq_meta = [], []
    skipped_long = 0
    first_bad = None
    for case, out in zip(cases, outs):
        ctx.evaluations += 1
        cl, asm = case["clauses"], case["assumptions"]
        nv = n_vars_of(cl)
        fam = case["family"].split("+")[0].split(":")[0]
        ctx.count("family", fam)
        ctx.count("n_vars", nv)
        ctx.count("solution_limit", case["kw"]["solution_limit"])
        ctx.count("luby_factor", case["kw"]["luby_factor"])
        ctx.count("budget", "tiny" if (case["kw"]["max_conflicts"] < 1000 or case["kw"]["max_restarts"] < 100) else "generous")
        ctx.count("outcome", out["outcome"] if out["outcome"] != "ok" else out["status"])
        if asm:
            ctx.count("with_assumptions", "yes")
        truth = Truth(cl, asm)
        known_unsat = fam.startswith("php") or fam in ("parity-unsat", "cumulative18")
        if not truth.too_big:
            ctx.count("oracle_truth", "sat" if truth.sat else "unsat")
            if known_unsat and truth.sat:
                ctx.internal_errors.append(f"generator bug: family {fam} is satisfiable")
        else:
            ctx.count("oracle_truth", "too-big(known-unsat)" if known_unsat else "too-big")
        learns = sum(1 for e in out["trace"] if e[0] == "learn" and not e[2])
        nsol = len(returned_models(out))
        ctx.count("learned_clauses", "0" if learns == 0 else "1-5" if learns <= 5 else "6-30" if learns <= 30 else "31-150" if learns <= 150 else ">150")
        rs = restarts_fired(case, learns)
        ctx.count("restarts_fired", "0" if rs == 0 else "1-3" if rs <= 3 else "4-20" if rs <= 20 else ">20")
        ctx.count("models_returned", "0" if nsol == 0 else "1-2" if nsol <= 2 else "3-11" if nsol <= 11 else ">11")
        if pid == "C01":
            if learns >= 1 and nsol >= 1:
                ctx.nontriv(canon(case))
        else:
            if learns >= 1:
                ctx.nontriv(canon(case))
        shape = case.get("shape") or {}
        if shape:
            ctx.count("shape_clauses", "aliased-objects" if shape.get("alias") else shape.get("cform", "list-list"))
            ctx.count("shape_assumptions", shape.get("aform", "list" if asm else "None"))
        if out["outcome"] == "exc" and out["exc"][0] == "TypeError" and outside_signature(case):
            ctx.count("shape_outside_signature", "TypeError(accepted)")
            continue
        bad = judge(case, out, truth, known_unsat)
        if not bad and pid == "C02" and out.get("input_modified"):
            bad = "modified the caller's input: " + out["input_modified"]
        if bad:
            if first_bad is None:
                first_bad = (case, out, bad)

                def fails(t):
                    o = run_impl(t, 2)
                    return bool(judge(t, o, Truth(t["clauses"], t["assumptions"]), False) or (pid == "C02" and o.get("input_modified")))

                small = shrink(case, fails, seconds=15 if ctx.extra.get("broken_tree_hangs") else 40) if len(cl) <= 300 else case
                if (small.get("shape") or {}).get("alias"):  # drop alias groups that no longer name equal clauses
                    k = small["clauses"]
                    small["shape"]["alias"] = [g for g in ([i for i in g0 if i < len(k)] for g0 in small["shape"]["alias"])
                                               if len(g) >= 2 and all(k[i] == k[g[0]] for i in g)]
                o2 = run_impl(small)
                bad2 = (judge(small, o2, Truth(small["clauses"], small["assumptions"]), False)
                        or (pid == "C02" and o2.get("input_modified") and "modified the caller's input: " + o2["input_modified"]) or bad)
                ctx.violation(f"solve_sat {bad2}" + (f" [input shape {small['shape']}]" if small.get("shape") else ""),
                              {"clauses": small["clauses"], "assumptions": small["assumptions"], "kw": small["kw"], "shape": small.get("shape"),
                                                     "observed": {k: o2.get(k) for k in ("outcome", "status", "solution", "solutions", "exc")},
                                                     "original_input": {"clauses": cl, "assumptions": asm, "kw": case["kw"]}})
            else:
                ctx.violation(f"solve_sat {bad}", {"clauses": cl, "assumptions": asm, "kw": case["kw"], "shape": case.get("shape"),
                                                   "observed": {k: out.get(k) for k in ("outcome", "status", "solution", "solutions", "exc")}})
        ctx.sample({"clauses": cl[:6], "n_clauses": len(cl), "assumptions": asm, "kw": case["kw"], "status": out.get("status"),
                    "learned": learns, "models": nsol}, 3)
        # ---- correspondence material
        if not cl:
            if not (out["outcome"] == "ok" and out["status"] == "OPTIMAL" and out["solution"] == {} and not out["trace"]):
                ctx.violation("solve_sat([]) must return the empty model, OPTIMAL, without events", {"clauses": [], "assumptions": asm, "kw": case["kw"], "observed": out})
            continue
        if not coq_expressible(out):
            continue
        if learns > max_learn or len(out["trace"]) > 4 * max_learn:
            skipped_long += 1
            continue
        coq_cases.append(c_case(case, out))
        coq_meta.append((case, out))
    ctx.count("trace_replay", "skipped-too-long", skipped_long)

    # C01 replays with the RUP guards switched off (its theorems hold for that machine too); C02 with the full machine
    flag = "false" if pid == "C01" else "true"
    failing = ctx.coq_check("trace", IMPORTS, CASE_TYPE, CHK_TRACE.replace("CHKFLAG", flag), coq_cases, shard=25, timeout=900)
    ctx.traces_validated += len(coq_cases) - len(failing)
    ctx.count("trace_replay", "accepted", len(coq_cases) - len(failing))
    spec_fail = []
    if pid == "C02":
        # budget counters recomputed from the trace inside coqc (C01/Budget.v): MAX_ITER only when a budget is met
        bcases = [f"(({cz(c['kw']['luby_factor'])}, {cz(c['kw']['max_conflicts'])}, {cz(c['kw']['max_restarts'])}), {clist(o['trace'], c_event)})"
                  for c, o in coq_meta]
        bfail = ctx.coq_check("budget", IMPORTS + " From SV Require Import C01.Budget.", "(Z * Z * Z) * list event",
                              "fun c => budget_ok (fst (fst (fst c))) (snd (fst (fst c))) (snd (fst c)) (snd c)", bcases, shard=300)
        ctx.count("budget_replay", "accepted", len(bcases) - len(bfail))
        for i in bfail[:2]:
            case, out = coq_meta[i]
            ctx.count("budget_replay", "rejected")
            if not ctx.violations:
                ctx.violation("budget counters recomputed from the trace (SV.C01.Budget.budget_ok, lemma Cases/C02/budget_*.v corr) reject the run: "
                              "MAX_ITER without max_conflicts <= learned+1 or restarts >= max_restarts at a restart point, or an event after the restart budget was hit",
                              {"clauses": case["clauses"], "assumptions": case["assumptions"], "kw": case["kw"],
                               "observed": {"status": out.get("status"), "learn_events": sum(1 for e in out["trace"] if e[0] == "learn" and not e[2]),
                                            "last_events": out["trace"][-3:]}}, no_input=True)
    if pid == "C01":
        spec_fail = ctx.coq_check("spec", IMPORTS, CASE_TYPE, CHK_SPEC, coq_cases, shard=300)
        for i in spec_fail[:3]:
            case, out = coq_meta[i]
            if not any(v["replay"].get("clauses") == case["clauses"] for v in ctx.violations):
                ctx.violation("Coq spec_check (proved sound: SatProofs.spec_check_sound) rejects the returned Result", {
                    "clauses": case["clauses"], "assumptions": case["assumptions"], "kw": case["kw"],
                    "observed": {k: out.get(k) for k in ("status", "solution", "solutions")}})

    # ---- rejected traces: name the rejected event
    mine = []
    for i in failing:
        case, out = coq_meta[i]
        txt = ctx.coq_eval(f"reject_{i}", IMPORTS,
                           f"first_reject {flag} {clist(case['clauses'], lambda c: clist(c, cz))} {clist(seen_assumptions(case), cz)} "
                           f"{cz(case['kw']['solution_limit'])} {clist(out['trace'], c_event)}")
        m = re.search(r"Some\s+(\d+)", txt)
        idx = int(m.group(1)) if m else None
        ev = out["trace"][idx] if idx is not None and idx < len(out["trace"]) else None
        ctx.count("trace_replay", "rejected")
        mine.append((case, out, idx, ev))
        if len(mine) >= 3:
            break

    if (mine or ctx.broken) and not ctx.violations:
        # search harder for a failing input with the independent oracle
        import time

        found = False
        seeds = [m[0] for m in mine]
        t_end = time.time() + (90 if not big else 400)
        for k in range(6000 if not big else 20000):
            if time.time() > t_end:
                break
            if seeds and k % 3 == 0:
                base = ctx.rng.choice(seeds)
                t = json.loads(json.dumps(base))
                t["kw"]["solution_limit"] = ctx.rng.choice([1, 2, 3, 10, 1000])
                t["kw"]["luby_factor"] = ctx.rng.choice([1, 2, 100])
                if t["clauses"] and ctx.rng.random() < 0.7:
                    del t["clauses"][ctx.rng.randrange(len(t["clauses"]))]
                if not valid_input(t):
                    continue
            else:
                t = gen_case(ctx.rng, big)
                if not valid_input(t):
                    continue
            o = run_impl(t)
            bad = judge(t, o, Truth(t["clauses"], t["assumptions"]), False)
            if bad:
                small = shrink(t, lambda u: bool(judge(u, run_impl(u, 2), Truth(u["clauses"], u["assumptions"]), False)))
                o2 = run_impl(small)
                ctx.violation(f"solve_sat {judge(small, o2, Truth(small['clauses'], small['assumptions']), False) or bad}",
                              {"clauses": small["clauses"], "assumptions": small["assumptions"], "kw": small["kw"],
                               "observed": {k: o2.get(k) for k in ("outcome", "status", "solution", "solutions", "exc")}})
                found = True
                break
        if not found:
            for case, out, idx, ev in mine[:2]:
                what = (f"guarded machine SV.C01.Machine rejects event #{idx} {ev} of a real solve_sat trace (lemma Cases/{pid}/trace_*.v corr)"
                        if ev is not None else
                        f"guarded machine accepts the trace but result_of differs from the returned Result (lemma Cases/{pid}/trace_*.v corr)")
                ctx.violation(what, {"clauses": case["clauses"], "assumptions": case["assumptions"], "kw": case["kw"],
                                     "rejected_event_index": idx, "rejected_event": ev,
                                     "trace_prefix": out["trace"][: (idx or 0) + 1][-12:],
                                     "observed": {k: out.get(k) for k in ("status", "solution", "solutions", "objective")}}, no_input=True)


# ------------------------------------------------------------------------------------------- budget sweep (C02)
def sweep_instances(rng, big):
    """Instances that need far more conflicts than any budget tried: (name, clauses, known_unsat)."""
    inst = [(f"php{h + 1}_{h}", pigeonhole(h), True) for h in (5, 6, 7, 8, 9)]
    for _ in range(5 if big else 3):
        n = rng.randint(30, 60)
        inst.append((f"3sat{n}", rand_kcnf(rng, n, int(4.3 * n) + rng.randint(-2, 2), 3), False))
    for n in ((14, 18, 24, 30) if big else (14, 20, 26)):
        inst.append((f"parity{n}", parity_chain(n, rng.randint(0, 1), rng, True), True))
    return inst


def sweep_budgets(rng, big):
    """option sets: small max_conflicts values incl. consecutive runs k, k+1, k+2 (a value stepped over by the counter is then
    hit), and small max_restarts with luby_factor 1..3"""
    if big:
        mcs = list(range(1, 61))
    else:
        mcs = set()
        for _ in range(4):
            k = rng.randint(1, 58)
            mcs.update((k, k + 1, k + 2))
        while len(mcs) < 20:
            mcs.add(rng.randint(1, 60))
        mcs = sorted(mcs)
    opts = [{"max_conflicts": m, "luby_factor": rng.choice([1, 2, 3, 100])} for m in mcs]
    for _ in range(12 if big else 5):
        opts.append({"max_restarts": rng.randint(0, 6), "luby_factor": rng.randint(1, 3)})
    return opts


def judge_sweep(case, out, known_unsat):
    """(a) returns in time, no exception; (b) a returned model satisfies the clauses (and none for a known-unsat family);
    (c) INFEASIBLE is right by construction on php / parity (unjudged on random 3-SAT: beyond the truth table);
    (d) MAX_ITER only when a recomputed budget is met."""
    if out["outcome"] == "hang":
        return "did not return within the time guard: the budget was ignored"
    if out["outcome"] == "exc":
        return f"raised {out['exc'][0]}: {out['exc'][1]}"
    st = out["status"]
    if st not in ("OPTIMAL", "INFEASIBLE", "MAX_ITER"):
        return f"status {st} is none of OPTIMAL / INFEASIBLE / MAX_ITER"
    for m in returned_models(out):
        if known_unsat:
            return f"reports a model for an unsatisfiable formula ({case['family']})"
        if not satisfies_directly(m, case["clauses"], case["assumptions"]):
            return "reports an assignment that falsifies a clause"
    if st == "OPTIMAL" and not returned_models(out):
        return "status OPTIMAL without a model"
    if st == "MAX_ITER" and not budget_exhausted(case, out):
        return "MAX_ITER although neither max_conflicts nor max_restarts is met (recomputed from the learn events)"
    return None


def run_sweep(ctx: Ctx):
    """C02 'every call returns after work bounded by its budgets': hard instances x several small budgets."""
    big = ctx.tier == "thorough"
    cases, meta = [], []
    for name, cl, ku in sweep_instances(ctx.rng, big):
        for o in sweep_budgets(ctx.rng, big):
            cases.append(mk(cl, [], "sweep-" + name, **o))
            meta.append(ku)
    if ctx.extra.get("broken_tree_hangs"):  # the violation is established; a small sample of the sweep is enough to report
        cases, meta = cases[:24], meta[:24]
    outs = pmap(run_impl, cases)
    retried = 0
    for i, o in enumerate(outs):  # a 5 s expiry on a loaded machine is re-tried once with 20 s
        if o["outcome"] == "hang" and retried < (0 if ctx.extra.get("broken_tree_hangs") else 2):
            retried += 1
            o2 = run_impl(cases[i], 20)
            if o2["outcome"] != "hang":
                ctx.count("slow_but_returned", f"sweep:{o2['time']}s")
                outs[i] = o2
    reported = set()
    for case, out, ku in zip(cases, outs, meta):
        ctx.evaluations += 1
        fam = case["family"]
        ctx.count("sweep_family", re.sub(r"\d+$", "", fam.split("_")[0]))
        ctx.count("sweep_outcome", out["outcome"] if out["outcome"] != "ok" else out["status"])
        ctx.count("trace_replay", "skipped-sweep(beyond RUP replay budget)")
        if out["outcome"] == "ok" and out["status"] == "INFEASIBLE" and not ku:
            ctx.count("sweep_outcome", "INFEASIBLE-unjudged(random 3-SAT)")
        learns = sum(1 for e in out["trace"] if e[0] == "learn" and not e[2])
        if learns >= 1:
            ctx.nontriv(canon(case))
        bad = judge_sweep(case, out, ku)
        if not bad or fam in reported:
            continue
        reported.add(fam)
        rep_case, rep_out = case, out
        if out["outcome"] == "hang" and not ctx.extra.get("broken_tree_hangs") and "max_restarts" not in {k for k, v in case["kw"].items() if v != DEFAULT_KW[k]}:
            # minimise over the budget value: the smallest max_conflicts (same instance, same other options) that does not return
            for m in range(1, case["kw"]["max_conflicts"]):
                t = json.loads(json.dumps(case))
                t["kw"]["max_conflicts"] = m
                o2 = run_impl(t, 3)
                if o2["outcome"] == "hang":
                    rep_case, rep_out = t, o2
                    break
        ctx.violation(f"solve_sat on {fam} with {({k: v for k, v in rep_case['kw'].items() if v != DEFAULT_KW[k]})}: {judge_sweep(rep_case, rep_out, ku) or bad}",
                      {"family": fam, "clauses": rep_case["clauses"], "assumptions": [], "kw": rep_case["kw"],
                       "observed": {k: rep_out.get(k) for k in ("outcome", "status", "exc", "time")},
                       "first_seen_with": case["kw"]})
    ctx.extra["sweep_calls"] = len(cases)


def replay_common(obj, pid):
    if "clauses" not in obj:
        print("replay names an unchecked obligation:", obj.get("unchecked") or obj.get("what"))
        return 1
    kw = dict(obj.get("kw", {}))
    if obj.get("timeout"):
        kw["timeout"] = obj["timeout"]
    case = mk(obj["clauses"], obj.get("assumptions", []), "replay", **kw)
    if obj.get("shape"):
        case["shape"] = obj["shape"]
        print("input shape:", obj["shape"])
    out = run_impl(case)
    truth = Truth(case["clauses"], case["assumptions"])
    print("input:", {k: case[k] for k in ("clauses", "assumptions", "kw")})
    print("implementation:", {k: out.get(k) for k in ("outcome", "status", "solution", "solutions", "exc", "time")})
    if not truth.too_big:
        print("truth table: satisfiable =", truth.sat, " models over occurring variables =", truth.count)
    bad = judge_c01(case, out, truth) if pid == "C01" else judge_c02(case, out, truth)
    print("oracle verdict:", bad or "ok")
    if obj.get("rejected_event") is not None:
        print("recorded as a machine rejection of event", obj.get("rejected_event_index"), obj.get("rejected_event"))
        return 1
    return 1 if bad else 0


NOTES = [
    "shape G: the CDCL search itself (propagate/analyze/VSIDS/reduce_db) is not modelled; the guarded machine re-checks what the run "
    "produced, event by event, and the theorems hold for every accepted trace; trust in the hook: solvor/sat.py emits the events where "
    "the code records them (commit d951d11)",
    "valid_input: no literal 0, at least one non-empty clause (or no clause), assumption variables <= largest clause variable. Outside: "
    "solve_sat([[]]) returns OPTIMAL {} (pinned by a repository test) and an assumption on a larger variable raises IndexError; both "
    "are observed and counted (histogram quirk_outside_valid_input), not judged",
    "completeness of the search and termination are explored (truth-table oracle, 5 s guard), not proved",
    "round-2 hardening (HARDENING.md): container forms (list/tuple/generator, assumptions also set/iterator/map; a TypeError is accepted "
    "only for forms outside the Sequence hints), aliased clause objects, option corners at 0/1/default+-1 run through the same oracle and "
    "kernel replay; heavy instances (independent blocks, guarded pigeonhole, sparse indices up to 100000, >64/>1024/>2048 variables, noisy "
    "planted 3-SAT) are judged by construction with direct evaluation of every returned assignment against all clauses and totality over "
    "1..n_vars, kernel replay skipped and counted; call sequences (same object twice, two option sets in both orders) must agree",
    "round-3 (W work volume, A2): full enumerations with a known model count (one long clause: 2^k-1, k independent 2-clauses: 3^k; up to "
    "8191 / 16383 blocking clauses), >= 5001 and >= 10^4 conflicts inside one restart interval (luby_factor 5001 .. 2^40 on guarded pigeonhole / "
    "planted 3-CNF), >= 10^4 learned clauses with many reduce_db rounds, >= 2^10 restarts (luby_factor 1); maxima reached are in "
    "coverage.work_volume_max; in-place edits of the caller's clause lists between two calls are compared with a fresh call. Class X (float "
    "extremes) does not apply: solve_sat takes bool-free ints only",
]
NOTES_C01 = ["oracle: direct evaluation of every returned assignment + truth table over occurring variables (<= 20)"]
NOTES_C02 = [
    "oracle: truth table over occurring variables (<= 20); pigeonhole-5 (30 variables) is judged as known-unsatisfiable by construction",
    "MAX_ITER legitimacy: conflicts in {L, L+1} and restarts recomputed from the number L of learn events with an independent Luby function",
    "budget_ok (Coq, C01/Budget.v) recomputes conflicts_since_restart / luby_idx / next_restart / restarts from the learn events; that the "
    "code's `conflicts` counter is L or L+1 when max_conflicts is tested is read off the code (every counted conflict is analysed or ends "
    "the call), not observed by the hook",
]
