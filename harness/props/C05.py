"""C05 - CP Model.solve never returns an assignment that breaks an added constraint.

Tie to /repo: random CP models over the whole expression grammar are built through the PUBLIC operators of
solvor.cp (working tree), solved with solver in {auto, dfs, sat}, solution_limit in {1, 3, 1000}, with and
without hints.  Every answer is judged by an independent brute-force oracle (own evaluator of the constraint
semantics over the domain box).  The real `Model._vars/_constraints` are walked into the shared CP abstract
syntax (SV.C06.CpAst) and
  * the Gallina DFS model (SV.C05.CpDfs) is evaluated on the same input inside coqc: status, number of
    solutions and the solution SET must agree with the implementation under solver='dfs' (exact solution
    SEQUENCE when all domains lie in 0..7, where Python's set iteration order is the increasing order);
  * the Coq boolean `spec_check` (in-domain and `holdsb` for every constraint, proved sound) is evaluated on
    every implementation answer of all three solver settings.
"""
import itertools
import json
import sys
from contextlib import contextmanager


@contextmanager
def _deep():
    """This module's OWN recursive helpers (build_expr, ev) walk 2049-term sums; the limit is raised only around
    them and restored before the implementation runs, so that recursion errors of the implementation stay visible."""
    old = sys.getrecursionlimit()
    sys.setrecursionlimit(max(old, 10**6))
    try:
        yield
    finally:
        sys.setrecursionlimit(old)

from harness.core import VERIF, Ctx, cbool, clist, cnat, cz, guarded

ID = "C05"
ANCHORS = ["solvor/cp.py", "solvor/cp_encoder.py", "solvor/sat.py"]

SAT_KINDS = ("circuit", "no_overlap", "cumulative", "sum_eq", "sum_le", "sum_ge")
LIMITS = (1, 3, 1000)
SOLVERS = ("auto", "dfs", "sat")


# ------------------------------------------------------------------------------------------------
# spec = {"vars": [[name|None, lo, hi], ...], "cons": [...]}            (JSON-able, lists everywhere)
# expression: ["var", i] | ["const", c] | ["add", a, b] | ["sub", a, b] | ["mul", k, e] (k*e) | ["rmul", k, e] (e*k)
# constraint: ["lin", lhs, rhs, is_ne] | ["all_different", [i..]] | ["sum_eq"|"sum_le"|"sum_ge", [i..], t]
#             | ["circuit", [i..]] | ["no_overlap", [i..], [dur..]] | ["cumulative", [i..], [dur..], [dem..], cap]
# ------------------------------------------------------------------------------------------------
def V(i):
    return ["var", i]


def K(c):
    return ["const", c]


def is_hidden(nm):
    return nm is None or nm.startswith("_")


# ---------------------------------------------------------------- independent semantics (oracle)
def ev(e, val):
    op = e[0]
    if op == "var":
        return val[e[1]]
    if op == "const":
        return e[1]
    if op == "add":
        return ev(e[1], val) + ev(e[2], val)
    if op == "sub":
        return ev(e[1], val) - ev(e[2], val)
    if op in ("mul", "rmul"):
        return e[1] * ev(e[2], val)
    raise AssertionError(op)


def holds(c, val):
    """The property's own reading of each constraint (docstrings of Model.*), independent of both back-ends."""
    kind = c[0]
    if kind == "lin":
        a, b = ev(c[1], val), ev(c[2], val)
        return (a != b) if c[3] else (a == b)
    if kind == "all_different":
        # pairwise different over POSITIONS (the same variable listed twice can never differ from itself)
        vs = [val[i] for i in c[1]]
        return all(vs[i] != vs[j] for i in range(len(vs)) for j in range(i + 1, len(vs)))
    if kind in ("sum_eq", "sum_le", "sum_ge"):
        s = sum(val[i] for i in c[1])
        return s == c[2] if kind == "sum_eq" else (s <= c[2] if kind == "sum_le" else s >= c[2])
    if kind == "circuit":
        # documented definition (cp_encoder._encode_circuit / test_circuit_single_node): successors are nodes
        # 0..n-1, pairwise different, no self-loops, one cycle through all nodes; the empty circuit is vacuous.
        succ = [val[i] for i in c[1]]
        n = len(succ)
        if n == 0:
            return True
        if any(not 0 <= s < n for s in succ) or any(succ[i] == i for i in range(n)):
            return False
        seen, cur = set(), 0
        for _ in range(n):
            if cur in seen:
                return False
            seen.add(cur)
            cur = succ[cur]
        return cur == 0 and len(seen) == n
    if kind == "no_overlap":
        st, du = [val[i] for i in c[1]], c[2]
        return all(st[i] + du[i] <= st[j] or st[j] + du[j] <= st[i] for i in range(len(st)) for j in range(i + 1, len(st)))
    if kind == "cumulative":
        st, du, de, cap = [val[i] for i in c[1]], c[2], c[3], c[4]
        # the load is piecewise constant and only rises at a start time: its maximum is attained at some start
        # (with no task running it is 0 <= capacity: capacities are >= 0)
        for t in set(st):
            if sum(de[i] for i in range(len(st)) if st[i] <= t < st[i] + du[i]) > cap:
                return False
        return cap >= 0
    raise AssertionError(kind)


def all_full_solutions(spec):
    doms = [range(lo, hi + 1) for (_, lo, hi) in spec["vars"]]
    return [val for val in itertools.product(*doms) if all(holds(c, val) for c in spec["cons"])]


def named_idx(spec):
    return [i for i, (nm, _, _) in enumerate(spec["vars"]) if not is_hidden(nm)]


def oracle(spec):
    """All solutions projected on the named variables: set of tuples of values (named variables in order)."""
    nidx = named_idx(spec)
    return {tuple(val[i] for i in nidx) for val in all_full_solutions(spec)}


# ---------------------------------------------------------------- building the library model (public operators)
def build_expr(e, xs):
    op = e[0]
    if op == "var":
        return xs[e[1]]
    if op == "const":
        return e[1]
    if op == "add":
        return build_expr(e[1], xs) + build_expr(e[2], xs)
    if op == "sub":
        return build_expr(e[1], xs) - build_expr(e[2], xs)
    if op == "mul":
        return e[1] * build_expr(e[2], xs)
    if op == "rmul":
        return build_expr(e[2], xs) * e[1]
    raise AssertionError(op)


ITER_STYLES = ("list", "tuple", "gen", "iter", "map", "reversed2")


def _cont(style, lst):
    """The same sequence of variables handed over as a different kind of iterable (class I: one-shot iterators)."""
    if style == "tuple":
        return tuple(lst)
    if style == "gen":
        return (v for v in lst)
    if style == "iter":
        return iter(lst)
    if style == "map":
        return map(lambda v: v, lst)
    if style == "reversed2":
        return reversed(list(reversed(lst)))
    return list(lst)


def build_constraint(m, c, xs, style="list", track=None):
    kind = c[0]
    if kind == "lin":
        lhs, rhs = build_expr(c[1], xs), build_expr(c[2], xs)
        return (lhs != rhs) if c[3] else (lhs == rhs)
    if kind == "all_different":
        return m.all_different(_cont(style, [xs[i] for i in c[1]]))
    if kind in ("sum_eq", "sum_le", "sum_ge"):
        return getattr(m, kind)(_cont(style, [xs[i] for i in c[1]]), c[2])
    if kind == "circuit":
        return m.circuit(_cont(style, [xs[i] for i in c[1]]))
    seq = tuple if style in ("tuple", "gen") else list  # len() is needed here: lists and tuples only
    starts = seq(xs[i] for i in c[1])
    args = [starts] + [seq(a) for a in c[2:4 if kind == "cumulative" else 3]]
    if track is not None:
        track.append(([list(a) for a in args], args))
    if kind == "no_overlap":
        return m.no_overlap(*args)
    if kind == "cumulative":
        return m.cumulative(*args, c[4])
    raise AssertionError(kind)


def build_model(spec):
    """Model, or None when the operators cannot build one of the expressions (TypeError: e.g. 3 - (x+y))
    or the comparison is not a CP constraint (3 == 3 -> bool)."""
    from solvor.cp import Model

    m = Model()
    xs = [m.int_var(lo, hi, nm) if nm is not None else m.int_var(lo, hi) for (nm, lo, hi) in spec["vars"]]
    style = spec.get("iter", "list")
    track = []
    for c in spec["cons"]:
        try:
            with _deep():
                built = build_constraint(m, c, xs, style, track)
        except TypeError:
            return None
        if not isinstance(built, tuple):
            return None
        m.add(built)
        if spec.get("twice") and c[0] != "lin":  # the same constraint OBJECT added twice (class A)
            m.add(built)
    m._c05_inputs = track
    return m


def model_snapshot(m):
    return (list(m._vars), [(v.lb, v.ub, v.name, tuple(v.bool_vars.items())) for v in m._vars.values()],
            [id(c) for c in m._constraints], m._next_bool)


# ---------------------------------------------------------------- walking the REAL model into the shared AST
def walk_model(m):
    """(vars, cons): vars = [(name, lb, ub, hidden)], cons over variable INDICES (position in Model._vars,
    looked up by name exactly as the solver's `domains[var.name]` does)."""
    from solvor.cp import IntVar

    names = list(m._vars)
    idx = {nm: i for i, nm in enumerate(names)}
    vs = [(nm, m._vars[nm].lb, m._vars[nm].ub, nm.startswith("_")) for nm in names]

    def wexpr(e):
        if isinstance(e, IntVar):
            return ("var", idx[e.name])
        if isinstance(e, bool):
            raise ValueError("bool in expression")
        if isinstance(e, int):
            return ("const", e)
        if isinstance(e, tuple) and len(e) == 3 and e[0] in ("add", "sub"):
            return (e[0], wexpr(e[1]), wexpr(e[2]))
        if isinstance(e, tuple) and len(e) == 3 and e[0] == "rsub":
            return ("rsub", wexpr(e[1]), wexpr(e[2]))
        if isinstance(e, tuple) and len(e) == 3 and e[0] == "mul" and isinstance(e[2], int):
            return ("mul", wexpr(e[1]), e[2])
        raise ValueError(f"unknown expression {e!r}")

    cons = []
    for c in m._constraints:
        k = c[0]
        if k in ("all_different", "circuit"):
            cons.append((k, [idx[v.name] for v in c[1]]))
        elif k in ("eq_const", "ne_const"):
            cons.append((k, idx[c[1].name], c[2]))
        elif k in ("eq_var", "ne_var"):
            cons.append((k, idx[c[1].name], idx[c[2].name]))
        elif k == "ne_expr":
            cons.append((k, wexpr(c[1]), wexpr(c[2]), bool(c[3])))
        elif k in ("sum_eq", "sum_le", "sum_ge"):
            cons.append((k, [idx[v.name] for v in c[1]], c[2]))
        elif k == "no_overlap":
            cons.append((k, [idx[v.name] for v in c[1]], list(c[2])))
        elif k == "cumulative":
            cons.append((k, [idx[v.name] for v in c[1]], list(c[2]), list(c[3]), c[4]))
        else:
            raise ValueError(f"unknown constraint {c!r}")
    return vs, cons


# ---------------------------------------------------------------- running the implementation
def run_impl(spec, solver, limit, hints, kwargs=None, model=None, timeout=5):
    """-> ('refused'|'unbuildable',) | ('exc', type, msg) | ('hang',) | ('bad', description)
       | ('ok', status_name, [sol dict, ...], first)
    A fresh model is built unless `model` is given (call sequences on one Model object)."""
    kwargs = kwargs or {}
    m = model
    if m is None:
        try:
            m = build_model(spec)
        except ValueError as e:  # documented refusals of the constructors (negative demand, length mismatch)
            return ("refused", str(e)[:80])
        if m is None:
            return ("unbuildable",)
    h_arg = dict(hints) if hints is not None else None
    h_copy = dict(h_arg) if h_arg is not None else None
    snap = model_snapshot(m)
    res = guarded(lambda: m.solve(solver=solver, solution_limit=limit, hints=h_arg, **kwargs), timeout=timeout)
    if res[0] == "hang" and model is None:
        # wall-clock limit on a shared machine: a real hang persists on a fresh model with a generous limit
        m = build_model(spec)
        snap = model_snapshot(m)
        res = guarded(lambda: m.solve(solver=solver, solution_limit=limit, hints=h_arg, **kwargs), timeout=max(40, 4 * timeout))
    if res[0] != "ok":
        return res
    # class A: the caller's objects are left alone
    if h_arg != h_copy or (h_arg is not None and list(h_arg) != list(h_copy)):
        return ("bad", f"the hints dictionary passed by the caller was modified: {h_copy} -> {h_arg}")
    for before, objs in getattr(m, "_c05_inputs", []):
        if [list(a) for a in objs] != before:
            return ("bad", "a list passed to no_overlap/cumulative was modified by solve")
    if model_snapshot(m) != snap:
        return ("bad", "solve changed the Model (variables, literal numbering, constraint list or _next_bool)")
    r = res[1]
    sols = list(r.solutions) if r.solutions is not None else ([r.solution] if r.solution is not None else [])
    try:
        _seen_iterations["sat" if (solver == "sat" or not dfs_supported(spec)) else "dfs"].append(int(r.iterations))
        _seen_iterations["sols"].append(len(sols))
    except (TypeError, ValueError):
        pass
    return ("ok", r.status.name, [dict(s) if isinstance(s, dict) else s for s in sols], r.solution)


_seen_iterations = {"dfs": [0], "sat": [0], "sols": [0]}


def judge(spec, truth, solver, limit, hints, out, budget=False):
    """None if the answer obeys the property, else a description.  `budget`: an explicit search budget
    (max_conflicts ...) was passed, so giving up (MAX_ITER) is a legitimate answer."""
    if out[0] in ("exc", "hang"):
        return f"implementation {out[0]}: {out[1:]}"
    if out[0] == "bad":
        return out[1]
    _, status, sols, first = out
    nidx = named_idx(spec)
    names = [spec["vars"][i][0] for i in nidx]
    if status == "INFEASIBLE":
        if truth:
            return f"INFEASIBLE but {len(truth)} solutions exist, e.g. {dict(zip(names, sorted(truth)[0]))}"
        if sols:
            return "INFEASIBLE with a solution attached"
        return None
    if status == "MAX_ITER" and budget:
        return "MAX_ITER with a solution attached" if sols else None
    if status not in ("OPTIMAL", "FEASIBLE"):
        return f"status {status}"
    if not sols:
        return f"status {status} without a solution"
    if first != sols[0] and first not in sols:
        return "result.solution not among result.solutions"
    if len(sols) > max(limit, 1):
        return f"{len(sols)} solutions for solution_limit={limit}"
    keys = []
    for sol in sols:
        if not isinstance(sol, dict) or set(sol) != set(names):
            return f"solution keys {sol!r} != named variables {names}"
        for i in nidx:
            nm, lo, hi = spec["vars"][i]
            if not isinstance(sol[nm], int) or not lo <= sol[nm] <= hi:
                return f"value of {nm} outside its declared domain {lo}..{hi} in {sol}"
        key = tuple(sol[nm] for nm in names)
        if key not in truth:
            return f"returned {sol} which has no completion satisfying every added constraint"
        keys.append(key)
    if not hints and limit > len(sols):
        # fewer answers than asked for: the enumeration claims to be complete
        if set(keys) != truth:
            return f"enumerated {len(set(keys))} distinct solutions with solution_limit={limit}, {len(truth)} exist"
    all_named = len(nidx) == len(spec["vars"])
    if not hints and not budget and (all_named or uses_dfs(spec, solver)):
        # one answer per (named) solution up to the limit: exactly min(limit, #solutions) answers
        want = min(max(limit, 1), len(truth))
        if len(sols) != want:
            return f"{len(sols)} solutions returned for solution_limit={limit} although {len(truth)} exist (expected {want})"
    if len(set(keys)) != len(keys) and (all_named or solver != "sat" and uses_dfs(spec, solver)):
        return f"{len(keys)} solutions returned but only {len(set(keys))} distinct"
    return None


def dfs_supported(spec):
    return all(c[0] not in SAT_KINDS for c in spec["cons"])


def uses_dfs(spec, solver):
    return solver in ("auto", "dfs") and dfs_supported(spec)


# ---------------------------------------------------------------- generators
COEFS = [-3, -2, -1, 0, 1, 2, 3]


def rand_expr(rng, nv, depth):
    r = rng.random()
    if depth == 0 or r < 0.3:
        return V(rng.randrange(nv)) if rng.random() < 0.8 else K(rng.randint(-4, 4))
    if r < 0.55:
        return ["add", rand_expr(rng, nv, depth - 1), rand_expr(rng, nv, depth - 1)]
    if r < 0.75:
        return ["sub", rand_expr(rng, nv, depth - 1), rand_expr(rng, nv, depth - 1)]
    return [rng.choice(["mul", "rmul"]), rng.choice(COEFS), rand_expr(rng, nv, depth - 1)]


def rand_constraint(rng, nv, dfs_only):
    kinds = ["lin"] * 5 + ["all_different", "simple", "simple"]
    if not dfs_only:
        kinds += ["sum_eq", "sum_le", "sum_ge", "circuit", "no_overlap", "cumulative", "all_different"]
    kind = rng.choice(kinds)
    if kind == "lin":
        return ["lin", rand_expr(rng, nv, rng.randint(0, 3)), rand_expr(rng, nv, rng.randint(0, 2)), rng.random() < 0.4]
    if kind == "simple":  # the four primitive tuple kinds: var ==/!= const, var ==/!= var (either operand order)
        a = V(rng.randrange(nv))
        b = V(rng.randrange(nv)) if rng.random() < 0.5 else K(rng.randint(-4, 5))
        if rng.random() < 0.3:
            a, b = b, a
        return ["lin", a, b, rng.random() < 0.6]
    if kind == "all_different":
        k = rng.randint(2, nv) if nv >= 2 else 1
        if rng.random() < 0.1:
            return [kind, [rng.randrange(nv) for _ in range(k)]]
        return [kind, rng.sample(range(nv), k)]
    if kind in ("sum_eq", "sum_le", "sum_ge"):
        k = rng.randint(0, 4)
        return [kind, [rng.randrange(nv) for _ in range(k)], rng.randint(-6, 8)]
    if kind == "circuit":
        if nv < 2:
            return rand_constraint(rng, nv, dfs_only)
        return [kind, rng.sample(range(nv), rng.randint(2, nv))]
    k = rng.randint(2, min(4, nv)) if nv >= 2 else 1
    tasks = rng.sample(range(nv), k)
    if kind == "no_overlap":
        return [kind, tasks, [rng.randint(0, 3) for _ in range(k)]]
    return [kind, tasks, [rng.randint(0, 6) for _ in range(k)], [rng.randint(0, 3) for _ in range(k)], rng.randint(0, 4)]


def rand_spec(rng):
    dfs_only = rng.random() < 0.55
    want_circuit = (not dfs_only) and rng.random() < 0.2
    nv = rng.randint(3, 5) if want_circuit else rng.randint(1, 5)
    style = rng.choice(["any", "any", "small", "neg", "wide"])
    variables = []
    for i in range(nv):
        if want_circuit and rng.random() < 0.8:
            lo = rng.choice([0, 0, 0, -1, 1])
            hi = max(lo, nv - 1 + rng.choice([0, 0, 0, -1, 1]))
            hi = min(hi, lo + 5)
        elif style == "small":
            lo = rng.randint(0, 3)
            hi = min(7, lo + rng.randint(0, 5))
        elif style == "neg":
            lo = rng.randint(-7, -2)
            hi = lo + rng.randint(0, 5)
        elif style == "wide":
            lo = rng.choice([-20, 6, 9, 30, 100, -3])
            hi = lo + rng.randint(0, 5)
        else:
            lo = rng.randint(-4, 4)
            hi = lo + rng.randint(0, 5)
        variables.append([f"v{i}", lo, hi])
    r = rng.random()
    if r < 0.3:  # unnamed (hidden) variables, or explicitly "_"-named ones; sometimes most of the model is hidden
        for i in rng.sample(range(nv), rng.randint(1, min(3, nv))):
            variables[i][0] = None if rng.random() < 0.7 else f"_h{i}"
    if rng.random() < 0.04:  # an empty declared domain (lb > ub): valid input, the answer is INFEASIBLE
        i = rng.randrange(nv)
        variables[i][2] = variables[i][1] - rng.randint(1, 2)
    cons = [rand_constraint(rng, nv, dfs_only) for _ in range(rng.randint(0 if rng.random() < 0.1 else 1, 4))]
    if want_circuit and cons:
        cons[0] = ["circuit", rng.sample(range(nv), nv)]
    if rng.random() < 0.25:  # gapped domains: punch holes with != const
        for _ in range(rng.randint(1, 3)):
            i = rng.randrange(nv)
            cons.insert(rng.randint(0, len(cons)), ["lin", V(i), K(rng.randint(variables[i][1], max(variables[i][1], variables[i][2]))), True])
    # make feasible models more likely: shift constants so that some constraints hold at a random point
    point = [rng.randint(lo, max(lo, hi)) for _, lo, hi in variables]
    for k, c in enumerate(cons):
        if rng.random() < 0.6:
            if c[0] == "lin" and not c[3]:
                diff = ev(c[1], point) - ev(c[2], point)
                if diff and rng.random() < 0.5:
                    cons[k] = ["lin", c[1], ["add", c[2], K(diff)], False]
                elif diff and c[1][0] != "const":
                    cons[k] = ["lin", ["sub", c[1], K(diff)], c[2], False]
            elif c[0] in ("sum_eq", "sum_le", "sum_ge"):
                slack = {"sum_eq": 0, "sum_le": rng.randint(0, 2), "sum_ge": -rng.randint(0, 2)}[c[0]]
                cons[k] = [c[0], c[1], sum(point[i] for i in c[1]) + slack]
    return {"vars": variables, "cons": cons}


def rand_hints(rng, spec):
    """Hints incl. out-of-domain values, unknown names, hidden names and (often) values no solution has."""
    h = {}
    for i, (nm, lo, hi) in enumerate(spec["vars"]):
        if rng.random() < 0.6:
            key = nm if nm is not None else f"_v{i}"
            h[key] = rng.randint(lo - 1, max(lo, hi) + 1)
    if rng.random() < 0.1:
        h["nosuch"] = 0
    return h


def box_size(spec):
    n = 1
    for _, lo, hi in spec["vars"]:
        n *= max(0, hi - lo + 1)
    return n


FIXED = [
    # witnesses of the property text / fixed findings
    {"note": "docstring example", "vars": [["x", 0, 9], ["y", 0, 9]], "cons": [["all_different", [0, 1]], ["lin", ["add", V(0), V(1)], K(10), False]]},
    {"note": "x-y==2", "vars": [["x", 0, 3], ["y", 0, 3]], "cons": [["lin", ["sub", V(0), V(1)], K(2), False]]},
    {"note": "2*x==y+1", "vars": [["x", 0, 5], ["y", 0, 5]], "cons": [["lin", ["mul", 2, V(0)], ["add", V(1), K(1)], False]]},
    {"note": "3-x==y", "vars": [["x", 0, 5], ["y", 0, 5]], "cons": [["lin", ["sub", K(3), V(0)], V(1), False]]},
    {"note": "x-y==z", "vars": [["x", 0, 4], ["y", 0, 4], ["z", 0, 4]], "cons": [["lin", ["sub", V(0), V(1)], V(2), False]]},
    {"note": "x!=0 with hint x=0", "vars": [["x", 0, 3]], "cons": [["lin", V(0), K(0), True]], "hints": {"x": 0}},
    {"note": "sum_le([],-1)", "vars": [["x", 0, 1]], "cons": [["sum_le", [], -1]]},
    {"note": "all_different([x,x])", "vars": [["x", 0, 3]], "cons": [["all_different", [0, 0]]]},
    {"note": "hidden variable must be completed", "vars": [["x", 0, 3], [None, 0, 3]], "cons": [["lin", ["add", V(0), V(1)], K(5), False]]},
    {"note": "hidden pigeonhole: three hidden 0/1 variables pairwise different, nothing is a singleton for propagation",
     "vars": [["x", 0, 1], [None, 0, 1], [None, 0, 1], ["_c", 0, 1]],
     "cons": [["lin", V(1), V(2), True], ["lin", V(1), V(3), True], ["lin", V(2), V(3), True]]},
    {"note": "hidden h1==h2 and h1!=h2: arc consistent, unsatisfiable", "vars": [["x", 0, 2], [None, 0, 1], [None, 0, 1]],
     "cons": [["lin", V(1), V(2), False], ["lin", V(1), V(2), True]]},
    {"note": "hidden parity: 2*h1 + 2*h2 + 2*h3 == x + 1 has completions only for odd x",
     "vars": [["x", 0, 3], [None, 0, 1], [None, 0, 1], [None, 0, 1]],
     "cons": [["lin", ["add", ["add", ["mul", 2, V(1)], ["mul", 2, V(2)]], ["mul", 2, V(3)]], ["add", V(0), K(1)], False]]},
    {"note": "circuit n=4", "vars": [[f"s{i}", 0, 3] for i in range(4)], "cons": [["circuit", [0, 1, 2, 3]]]},
    {"note": "circuit n=1 is infeasible by the documented no-self-loop rule", "vars": [["x", 0, 0]], "cons": [["circuit", [0]]]},
    {"note": "circuit with successor domains outside 0..n-1", "vars": [[f"s{i}", -1, 3] for i in range(3)], "cons": [["circuit", [0, 1, 2]]]},
    {"note": "cumulative 18 literals", "vars": [[f"s{i}", 0, 5] for i in range(3)], "cons": [["cumulative", [0, 1, 2], [6, 6, 6], [1, 1, 1], 2]]},
    {"note": "no constraints", "vars": [["x", -2, 0], ["y", 7, 9]], "cons": []},
    {"note": "x!=x", "vars": [["x", 0, 2]], "cons": [["lin", V(0), V(0), True]]},
    {"note": "x==x", "vars": [["x", -1, 1]], "cons": [["lin", V(0), V(0), False]]},
    {"note": "0*x==0*y+1", "vars": [["x", 0, 2], ["y", 0, 2]], "cons": [["lin", ["mul", 0, V(0)], ["add", ["mul", 0, V(1)], K(1)], False]]},
    {"note": "three-variable != with cancelling terms", "vars": [["x", 0, 2], ["y", 0, 2], ["z", 0, 2]],
     "cons": [["lin", ["add", ["sub", V(0), V(0)], V(1)], ["mul", 2, V(2)], True]]},
    {"note": "negative coefficients, negative domains", "vars": [["x", -5, -1], ["y", -3, 2], ["z", -2, 2]],
     "cons": [["lin", ["sub", ["mul", -2, V(0)], V(1)], ["add", V(2), K(3)], False], ["all_different", [0, 1, 2]]]},
]


# ---------------------------------------------------------------- Coq terms (SV.C06.CpAst syntax)
IMPORTS = "From SV Require Import C06.CpAst C05.CpDfs C05.CpSpec C05.DfsSound."


def coq_model(m):
    """(term builder) the REAL model walked into `cpmodel`; variables are let-bound v0, v1, ..."""
    vs, cons = walk_model(m)
    lets = []
    for i, (nm, lb, ub, hidden) in enumerate(vs):
        var = m._vars[nm]
        base = var.bool_vars[lb] if lb in var.bool_vars else 0
        lets.append(f"let v{i} := mkVar {cnat(i)} {cz(lb)} {cz(ub)} {cbool(not hidden)} {cz(base)} in")

    def V_(i):
        return f"v{i}"

    def ex(e):
        k = e[0]
        if k == "var":
            return f"(EVar v{e[1]})"
        if k == "const":
            return f"(EConst {cz(e[1])})"
        if k == "add":
            return f"(EAdd {ex(e[1])} {ex(e[2])})"
        if k == "sub":
            return f"(ESub {ex(e[1])} {ex(e[2])})"
        if k == "rsub":
            return f"(ERsub {ex(e[1])} {ex(e[2])})"
        if k == "mul":
            return f"(EMul {ex(e[1])} {cz(e[2])})"
        raise AssertionError(k)

    def co(c):
        k = c[0]
        if k == "all_different":
            return f"CAllDiff {clist(c[1], V_)}"
        if k == "circuit":
            return f"CCircuit {clist(c[1], V_)}"
        if k == "eq_const":
            return f"CEqConst v{c[1]} {cz(c[2])}"
        if k == "ne_const":
            return f"CNeConst v{c[1]} {cz(c[2])}"
        if k == "eq_var":
            return f"CEqVar v{c[1]} v{c[2]}"
        if k == "ne_var":
            return f"CNeVar v{c[1]} v{c[2]}"
        if k == "ne_expr":
            return f"CLin {ex(c[1])} {ex(c[2])} {cbool(c[3])}"
        if k in ("sum_eq", "sum_le", "sum_ge"):
            return f"{ {'sum_eq': 'CSumEq', 'sum_le': 'CSumLe', 'sum_ge': 'CSumGe'}[k]} {clist(c[1], V_)} {cz(c[2])}"
        if k == "no_overlap":
            return f"CNoOverlap {clist(list(zip(c[1], c[2])), lambda p: f'(v{p[0]}, {cz(p[1])})')}"
        if k == "cumulative":
            return (f"CCumulative {clist(list(zip(c[1], c[2], c[3])), lambda p: f'(v{p[0]}, {cz(p[1])}, {cz(p[2])})')} "
                    f"{cz(c[4])}")
        raise AssertionError(k)

    model = f"mkModel {clist(range(len(vs)), V_)} {clist(cons, co)} {cz(m._next_bool)}"
    return lets, model, [nm for nm, _, _, _ in vs]


def coq_sol(names, sol):
    """dict over the named variables -> `sol` (vid, value) in creation order"""
    return clist([(i, sol[nm]) for i, nm in enumerate(names) if not nm.startswith("_")], lambda p: f"({cnat(p[0])}, {cz(p[1])})")


def coq_hints(names, hints):
    """dict order; unknown names get ids beyond the model's variables"""
    out, extra = [], len(names)
    for k, v in (hints or {}).items():
        if k in names:
            out.append((names.index(k), v))
        else:
            out.append((extra, v))
            extra += 1
    return clist(out, lambda p: f"({cnat(p[0])}, {cz(p[1])})")


def wrap(lets, body):
    return "(" + " ".join(lets) + " " + body + ")"


# ---------------------------------------------------------------- one spec, all solver settings
quick_all = False  # thorough tier: every setting goes through the Coq correspondence


def explore(spec, rng_hints):
    """Run every solver setting on one spec.  Returns dict with outcomes, oracle verdicts and Coq cases."""
    rec = {"spec": spec, "status": None, "bad": [], "dfs_cases": [], "ans_cases": [], "runs": 0, "skipped": None, "outs": {}}
    try:
        m = build_model(spec)
    except ValueError as e:
        rec["skipped"] = "refused:" + str(e)[:60]
        return rec
    if m is None:
        rec["skipped"] = "unbuildable"
        return rec
    truth = oracle(spec)
    rec["truth_n"] = len(truth)
    lets, model, names = coq_model(m)
    supported = dfs_supported(spec)
    sat_chosen = m._choose_solver() == "sat"
    if sat_chosen == supported:
        rec["bad"].append(("auto", 0, None, f"_choose_solver picked {'sat' if sat_chosen else 'dfs'} for a model whose "
                           f"constraints are {'all' if supported else 'not all'} handled by the DFS", None))
    hint_sets = [None, rng_hints]
    seen_answers = set()
    # CpAst.circuit_valsb indexes the successor list with Z.to_nat of the values: no unary blow-up inside coqc
    coq_ok = not any(c[0] == "circuit" and any(max(abs(spec["vars"][i][1]), abs(spec["vars"][i][2])) > 2000 for i in c[1])
                     for c in spec["cons"])
    for hints in hint_sets:
        for limit in LIMITS:
            outs = {}
            judged_bad = set()
            for solver in SOLVERS:
                out = run_impl(spec, solver, limit, fresh_hints(hints))
                rec["runs"] += 1
                outs[solver] = out
                rec["outs"][(solver, limit, hints is None)] = out
                bad = judge(spec, truth, solver, limit, hints, out)
                if bad:
                    rec["bad"].append((solver, limit, hints, bad, out))
                    judged_bad.add(solver)
                    continue
                sols = out[2]
                key = None if out[1] == "INFEASIBLE" else tuple(tuple(sorted(s.items())) for s in sols)
                # kernel-checked validity of the answer (each distinct answer of this model once)
                if not coq_ok:
                    pass
                elif key is None:
                    if "INF" not in seen_answers and box_size(spec) <= 1500:
                        seen_answers.add("INF")
                        rec["ans_cases"].append(wrap(lets, f"({model}, @None (list sol))"))
                else:
                    fresh = [s for s in sols if tuple(sorted(s.items())) not in seen_answers]
                    fresh = fresh[:40]
                    for s in fresh:
                        seen_answers.add(tuple(sorted(s.items())))
                    if fresh:
                        rec["ans_cases"].append(wrap(lets, f"({model}, Some {clist(fresh, lambda s: coq_sol(names, s))})"))
            # the two back-ends agree on satisfiability (also implied by the oracle verdicts above)
            st = {s: outs[s][1] for s in SOLVERS if outs[s][0] == "ok"}
            if len(st) == 3 and len({v == "INFEASIBLE" for v in st.values()}) > 1 and not rec["bad"]:
                rec["bad"].append(("all", limit, hints, f"back-ends disagree on satisfiability: {st}", None))
            # model correspondence (DFS path)
            wide = max([hi - lo for _, lo, hi in spec["vars"]] + [0]) > 20  # vm_compute of the list-based model: O(width^3)
            if supported and outs["dfs"][0] == "ok" and "dfs" not in judged_bad and len(truth) <= 400 and not (wide and limit != 3) \
                    and (hints is None or limit == 3 or quick_all):
                o = outs["dfs"]
                impl = [] if o[1] == "INFEASIBLE" else o[2]
                if all(isinstance(s, dict) for s in impl):
                    rec["dfs_cases"].append((wrap(lets, f"({model}, {coq_hints(names, hints)}, {cz(limit)}, "
                                                        f"{clist(impl, lambda s: coq_sol(names, s))})"),
                                             {"spec": spec, "hints": hints, "limit": limit, "impl": impl}))
                # 'auto' takes the same path: identical public result expected
                a = outs["auto"]
                if a[0] == "ok" and (a[1], a[2]) != (o[1], o[2]):
                    rec["bad"].append(("auto", limit, hints, f"auto (dfs chosen) answers {a[1:3]} but solver='dfs' answers {o[1:3]}", a))
    rec["status"] = "feasible" if truth else "infeasible"
    rec["truth"] = truth
    return rec


def explore_known(spec, known, settings, timeout):
    """Class S: by-construction oracle; the Coq spec_check judges the (all-named) answers as well."""
    rec = {"bad": [], "ans_cases": [], "runs": 0}
    m = build_model(spec)
    lets = model = names = None
    if len(spec["vars"]) <= 70 and max(hi - lo for _, lo, hi in spec["vars"]) <= 70:
        lets, model, names = coq_model(m)
    for solver, limit in settings:
        out = run_impl(spec, solver, limit, None, timeout=timeout)
        rec["runs"] += 1
        bad = judge_known(spec, known, solver, limit, out)
        if bad:
            rec["bad"].append((solver, limit, None, bad, out))
        elif lets and out[1] != "INFEASIBLE":
            rec["ans_cases"].append(wrap(lets, f"({model}, Some {clist(out[2][:3], lambda s: coq_sol(names, s))})"))
    return rec


def shrink(spec, solver, limit, hints):
    """Drop constraints / variables' width while the oracle still rejects the answer."""
    def fails(sp):
        try:
            out = run_impl(sp, solver, limit, hints)
        except Exception:  # noqa: BLE001
            return False
        if out[0] in ("refused", "unbuildable"):
            return False
        return judge(sp, oracle(sp), solver, limit, hints, out) is not None

    cur = json.loads(json.dumps(spec))
    if box_size(cur) > 20000:
        return cur
    changed = True
    while changed:
        changed = False
        for k in range(len(cur["cons"])):
            cand = dict(cur, cons=cur["cons"][:k] + cur["cons"][k + 1:])
            if fails(cand):
                cur, changed = cand, True
                break
        if changed:
            continue
        for i, (nm, lo, hi) in enumerate(cur["vars"]):
            for lo2, hi2 in ((lo + 1, hi), (lo, hi - 1)):
                if lo2 <= hi2:
                    cand = json.loads(json.dumps(cur))
                    cand["vars"][i] = [nm, lo2, hi2]
                    if fails(cand):
                        cur, changed = cand, True
                        break
            if changed:
                break
    return cur



# =================================================================================================
# Round 2 (HARDENING.md): generator families for the input-shape classes
#   M magnitudes - L labels - I iterables - S size thresholds - O option corners - A aliasing / call sequences
#   H rare histories (event-directed search with an instrumented reference port of the DFS)
# =================================================================================================
BIG = [2**31, 10**9, 2**53 - 1, 2**53, 2**53 + 1, 2**60, 10**18, 1_700_000_000_000_000_000, 2**44 + 1, 2**63, 2**64 + 3,
       -(2**31), -(10**18), -(2**53) - 1, 10**6, 2**24 + 1, 2**52 + 1, 3 * 10**9 + 7, 256, 257, 65536]
BIG_COEF = [10**9, 2**31, 2**53 + 1, -(10**9), 10**18, 3, -7, 1, -1, 2]


def _lin_at_point(rng, lhs, rhs, point, ne):
    """Adjust the constant so that lhs == rhs holds at `point` (an == that is satisfiable / a != that bites)."""
    diff = ev(lhs, point) - ev(rhs, point)
    if diff:
        if rng.random() < 0.5:
            rhs = ["add", rhs, K(diff)]
        elif lhs[0] != "const":
            lhs = ["sub", lhs, K(diff)]
        else:
            rhs = ["add", rhs, K(diff)]
    return ["lin", lhs, rhs, ne]


def rand_expr_big(rng, nv, depth, coefs):
    r = rng.random()
    if depth == 0 or r < 0.35:
        return V(rng.randrange(nv)) if rng.random() < 0.85 else K(rng.choice(BIG + [0, 1, -1, 5]))
    if r < 0.6:
        return ["add", rand_expr_big(rng, nv, depth - 1, coefs), rand_expr_big(rng, nv, depth - 1, coefs)]
    if r < 0.8:
        return ["sub", rand_expr_big(rng, nv, depth - 1, coefs), rand_expr_big(rng, nv, depth - 1, coefs)]
    return [rng.choice(["mul", "rmul"]), rng.choice(coefs), rand_expr_big(rng, nv, depth - 1, coefs)]


def rand_spec_big(rng):
    """Class M: tiny domains sitting at 2^31 .. 2^64 / 10^18 (and below -2^53), huge coefficients and constants,
    sums mixing huge and tiny values.  The brute-force oracle is exact (Python ints)."""
    nv = rng.randint(1, 4)
    mode = rng.choice(["base", "base", "mixed", "coef"])
    base = rng.choice(BIG)
    variables = []
    for i in range(nv):
        b = base if mode != "mixed" else rng.choice([base, 0, rng.choice(BIG)])
        if mode == "coef":
            b = rng.choice([0, 0, 3, base])
        lo = b + rng.randint(-2, 3)
        variables.append([f"v{i}", lo, lo + rng.randint(0, 3)])
    if rng.random() < 0.2:
        i = rng.randrange(nv)
        variables[i][0] = None
    coefs = COEFS + (BIG_COEF if mode == "coef" or rng.random() < 0.3 else [])
    point = [rng.randint(lo, hi) for _, lo, hi in variables]
    cons = []
    dfs_only = rng.random() < 0.6
    for _ in range(rng.randint(1, 3)):
        kind = rng.choice(["lin"] * 5 + ["all_different"] + ([] if dfs_only else ["sum_eq", "sum_le", "sum_ge", "no_overlap", "cumulative", "circuit"]))
        if kind == "lin":
            lhs, rhs = rand_expr_big(rng, nv, rng.randint(0, 2), coefs), rand_expr_big(rng, nv, rng.randint(0, 2), coefs)
            ne = rng.random() < 0.35
            cons.append(_lin_at_point(rng, lhs, rhs, point, ne) if rng.random() < 0.8 else ["lin", lhs, rhs, ne])
        elif kind == "all_different":
            cons.append([kind, rng.sample(range(nv), rng.randint(1, nv))])
        elif kind in ("sum_eq", "sum_le", "sum_ge"):
            idx = [rng.randrange(nv) for _ in range(rng.randint(0, 4))]
            cons.append([kind, idx, sum(point[i] for i in idx) + rng.choice([0, 0, 0, 1, -1, 2])])
        elif kind == "no_overlap":
            k = rng.randint(1, min(3, nv))
            cons.append([kind, rng.sample(range(nv), k), [rng.choice([0, 1, 2, 3, 10**9, 2**53 + 1]) for _ in range(k)]])
        elif kind == "cumulative":
            k = rng.randint(1, min(3, nv))
            if max(v[2] for v in variables) - min(v[1] for v in variables) > 50:
                continue  # the encoder walks every time point between the earliest start and the latest end
            cons.append([kind, rng.sample(range(nv), k), [rng.randint(0, 4) for _ in range(k)],
                         [rng.choice([0, 1, 2, 10**9, 2**53 + 1]) for _ in range(k)], rng.choice([0, 1, 3, 10**9, 2**53 + 2])])
        else:
            cons.append([kind, rng.sample(range(nv), rng.randint(1, nv))])
    return {"vars": variables, "cons": cons, "family": "M"}


# ---------------------------------------------------------------- L labels / I iterables / A duplicated constraints
def _fresh(sv):
    """An equal but not identical string (built at call time)."""
    return "".join(list(sv)) if len(sv) > 1 else sv


ODD_NAMES = ["", " ", "x y", "éß", "0", "None", "False", "a.b", "-1", "x" * 40, "name\twith\ttabs", "数", "V", "v"]


def relabel(rng, spec):
    """Class L: falsy / odd / long (non-interned, rebuilt on every use) variable names; hidden stay hidden."""
    pool = ODD_NAMES[:]
    rng.shuffle(pool)
    out = json.loads(json.dumps(spec))
    used = set()
    for i, v in enumerate(out["vars"]):
        if v[0] is None:
            continue
        nm = pool[i % len(pool)] + ("" if rng.random() < 0.6 else "#" * (i + 1))
        if v[0].startswith("_"):
            nm = rng.choice(["_", "__", "_ "]) + nm
        while nm in used or (nm.startswith("_v") and nm[2:].isdigit()):
            nm += "'"
        used.add(nm)
        v[0] = nm
    return out


def fresh_hints(hints):
    return {_fresh(k): v for k, v in hints.items()} if hints else hints


def decorate(rng, spec):
    """Random presentation of one spec: label map (L), iterable kind (I), same constraint object twice / a second
    constraint of the same global kind (A)."""
    sp = spec
    r = rng.random()
    if r < 0.2:
        sp = relabel(rng, sp)
    else:
        sp = dict(sp)
    if rng.random() < 0.35:
        sp["iter"] = rng.choice(ITER_STYLES[1:])
    if rng.random() < 0.08:
        sp["twice"] = True
    glob = [c for c in sp["cons"] if c[0] in ("circuit", "no_overlap", "cumulative", "all_different", "sum_eq", "sum_le", "sum_ge")]
    if glob and rng.random() < 0.25:  # two constraints of the same kind in one model
        c = json.loads(json.dumps(rng.choice(glob)))
        if c[0] in ("no_overlap", "cumulative") and rng.random() < 0.5:
            c[2] = [max(0, d + rng.choice([-1, 0, 1])) for d in c[2]]
        if c[0] in ("sum_le", "sum_ge") and rng.random() < 0.5:
            c[2] += rng.choice([-1, 1])
        if c[0] in ("no_overlap", "cumulative", "circuit") and len(c[1]) >= 2 and rng.random() < 0.3:
            c[1][0] = c[1][1]  # the same variable in two positions
        sp["cons"] = list(sp["cons"]) + [c]
    return sp


# ---------------------------------------------------------------- S size thresholds (answers known by construction)
def _sumexpr(idx, coef=None):
    e = V(idx[0]) if coef is None else ["mul", coef[0], V(idx[0])]
    for k, i in enumerate(idx[1:], 1):
        e = ["add", e, V(i) if coef is None else ["mul", coef[k], V(i)]]
    return e


def known_cases(rng, thorough):
    """(spec, known, settings, timeout): structured large models whose answer is known by construction, crossing
    17 / 65 / 257 / 1025 / 2049 / 65537 / 10^5 (variables, terms, domain values, constraints, solutions, search nodes)."""
    out = []
    T = thorough
    # permutations: all_different over n variables with n values (feasible), n into n-1 (pigeonhole, infeasible)
    for n in [17, rng.choice([33, 65])] + ([129] if T else []):
        sp = {"vars": [[f"x{i}", 0, n - 1] for i in range(n)], "cons": [["all_different", list(range(n))]]}
        st = [("dfs", 1), ("auto", 3)] + ([("sat", 1)] if n <= 33 else [])
        out.append((sp, {"feasible": True}, st, 30))
    n = rng.choice([6, 7])
    out.append(({"vars": [[f"p{i}", 1, n - 1] for i in range(n)], "cons": [["all_different", list(range(n))]]},
                {"feasible": False}, [("dfs", 1), ("sat", 1), ("auto", 1000)], 30))
    # long linear expression / sum_* over k binary variables with a planted total
    for k in [17, 65] + ([257] if T else []):
        planted = [rng.randint(0, 1) for _ in range(k)]
        coef = [rng.choice([1, 1, 2, -1, 3]) for _ in range(k)]
        tot = sum(c * v for c, v in zip(coef, planted))
        sp = {"vars": [[f"b{i}", 0, 1] for i in range(k)], "cons": [["lin", _sumexpr(list(range(k)), coef), K(tot), False]]}
        out.append((sp, {"feasible": True}, [("dfs", 1), ("sat", 1)] if k <= 65 else [("dfs", 1)], 60))
        sp = {"vars": [[f"b{i}", 0, 1] for i in range(k)], "cons": [[rng.choice(["sum_eq", "sum_le", "sum_ge"]), list(range(k)), sum(planted)]]}
        if k <= 65 or T:
            out.append((sp, {"feasible": True}, [("auto", 1), ("dfs", 2)], 60))
        sp = {"vars": [[f"b{i}", 0, 1] for i in range(k)], "cons": [["sum_eq", list(range(k)), k + 1]]}
        out.append((sp, {"feasible": False}, [("auto", 1)], 60))
    # many variables without constraints (depth of the recursion), many constraints on one variable
    n = rng.choice([257, 300, 600])
    out.append(({"vars": [[f"f{i}", 0, 1] for i in range(n)], "cons": []}, {"feasible": True}, [("dfs", 1), ("sat", 2)], 30))
    # beyond Python's default recursion limit (fixed by 6a89d67: one DFS frame per open variable, one _linearize
    # step per operator): 1025+ open variables, sums of 1025+ terms (most of them over fixed variables, so that
    # the search stays small while the expression is deep)
    if T:  # (quick: the committed regression descriptor runs 1100 free variables on every run)
        out.append(({"vars": [[f"f{i}", 0, 1] for i in range(2049)], "cons": []}, {"feasible": True}, [("dfs", 1), ("auto", 1), ("sat", 1)], 120))
    for k in ([rng.choice([1025, 1100])] if not T else [1100, 2049]):
        step = k // rng.randint(8, 14)
        vs, planted = [], []
        for i in range(k):
            if i % step == 0:
                vs.append([f"t{i}", 0, 1])
                planted.append(rng.randint(0, 1))
            else:
                x = rng.randint(-3, 3)
                vs.append([f"t{i}", x, x])
                planted.append(x)
        ne = rng.random() < 0.3
        tot = sum(planted)
        sp = {"vars": vs, "cons": [["lin", _sumexpr(list(range(k))), K(tot), False]]}
        out.append((sp, {"feasible": True}, [("dfs", 1), ("sat", 1), ("auto", 3)], 120))
        sp = {"vars": vs, "cons": [["lin", K(tot + k), _sumexpr(list(range(k))), False]]}
        out.append((sp, {"feasible": False}, [("dfs", 1), ("sat", 1)], 120))
    c = rng.choice([257, 1025, 2049])
    holes = rng.sample(range(c + 6), c)
    out.append(({"vars": [["g", 0, c + 5]], "cons": [["lin", V(0), K(h), True] for h in holes]},
                {"feasible": True, "count": 6}, [("dfs", 1000), ("sat" if c <= 300 else "auto", 1000)], 60))
    # large domains: 65537 values (DFS), 257 / 1025 (SAT)
    N = rng.choice([65536, 65537, 100003])
    t = rng.randrange(N - 5)
    out.append(({"vars": [["x", 0, N], ["y", 0, 3]], "cons": [["lin", ["mul", 3, V(0)], ["add", V(1), K(3 * t)], False]]},
                {"feasible": True, "count": 2}, [("dfs", 1000), ("auto", 1)], 60))
    N = 1025 if T else 257
    out.append(({"vars": [["x", -5, N - 6], ["y", 0, 3]], "cons": [["lin", ["mul", 3, V(0)], ["add", V(1), K(3 * 7)], False]]},
                {"feasible": True, "count": 2}, [("sat", 1000)], 60))
    # many solutions: 2^k answers enumerated (2049 / 4097 / 8192 thresholds)
    k = 13
    out.append(({"vars": [[f"e{i}", 0, 1] for i in range(k)], "cons": []}, {"feasible": True, "count": 2**k},
                [("dfs", 10**6), ("dfs", 2**k), ("dfs", 2**k - 1), ("auto", 2049)], 60))
    k = 12 if T else 11
    out.append(({"vars": [[f"e{i}", 0, 1] for i in range(k)], "cons": []}, {"feasible": True, "count": 2**k}, [("sat", 10**6)], 120))
    # search trees of more than 10^5 nodes before the first solution (the API documents no node limit):
    #   z = 0 leads into 2^k free binary choices above an unsatisfiable core u != v != t != u, z = 1 is satisfiable
    k = 16 if (T or rng.random() < 2) else 15
    vs = [["z", 0, 1]] + [[f"b{i}", 0, 1] for i in range(k)] + [["u", 0, 1], ["v", 0, 1], ["t", 0, 2]]
    u, v, t = k + 1, k + 2, k + 3
    sp = {"vars": vs, "cons": [["lin", V(u), V(v), True], ["lin", V(u), V(t), True], ["lin", V(v), V(t), True],
                               ["lin", ["add", V(t), ["mul", 10, V(0)]], K(2), True]]}
    out.append((sp, {"feasible": True}, [(rng.choice(["dfs", "auto"]), 1)], 300))
    if T:  # pigeonhole behind a switch (about 260 000 nodes)
        n = 10
        vs = [["z", 0, 1]] + [[f"x{i}", 1, n - 1] for i in range(n - 1)] + [["w", 1, n]]
        sp = {"vars": vs, "cons": [["all_different", list(range(1, n + 1))], ["lin", ["add", V(n), ["mul", 10, V(0)]], K(n), True]]}
        out.append((sp, {"feasible": True}, [("auto", 1)], 600))
    for sp, *_ in out:
        sp["family"] = "S"
    return out



# =================================================================================================
# Round 3 (HARDENING.md addendum): W work volume, A2 in-place edits between calls, X float arguments
# =================================================================================================
class WorkMeter:
    """Counts the work of the implementation's loops from outside (no hook in /repo): sweeps of one _propagate call
    (= calls of _propagate_constraint / number of constraints), _propagate calls, and reads Result.iterations (nodes)."""

    def __init__(self):
        self.max_sweeps = 0
        self.propagations = 0

    def __enter__(self):
        from solvor.cp import Model

        self._Model = Model
        self._p, self._pc = Model._propagate, Model._propagate_constraint
        meter = self

        def counted_pc(model, constraint, domains):
            meter._calls += 1
            return meter._pc(model, constraint, domains)

        def counted_p(model, domains):
            meter._calls = 0
            meter.propagations += 1
            try:
                return meter._p(model, domains)
            finally:
                k = max(1, len(model._constraints))
                meter.max_sweeps = max(meter.max_sweeps, -(-meter._calls // k))

        Model._propagate, Model._propagate_constraint = counted_p, counted_pc
        return self

    def __exit__(self, *a):
        self._Model._propagate, self._Model._propagate_constraint = self._p, self._pc


def cyclic_spec(rng, small=True):
    """Cyclic offset equalities over 2..3 variables (x == y, x + a == y, ...): arc consistency trims the domains one
    or two values per sweep, so one _propagate call needs about D / |sum of offsets| sweeps - far more than
    variables + constraints.  Unsatisfiable when the offsets around the cycle do not cancel; a 0/1 switch variable
    in one of the equalities makes a satisfiable sibling (z = 1 repairs the cycle).  Small: brute-forced."""
    k = rng.choice([2, 2, 3])
    D = rng.randint(8, 64) if k == 2 else rng.randint(8, 16)
    lo = rng.choice([0, 0, -5, 3, 100])
    vs = [[f"c{i}", lo + rng.randint(0, 2), lo + D - 1 - rng.randint(0, 2)] for i in range(k)]
    offs = [rng.choice([0, 0, 1, 1, -1, 2, -2, 3]) for _ in range(k)]
    if sum(offs) == 0 and rng.random() < 0.7:
        offs[rng.randrange(k)] += rng.choice([1, -1, 2])
    switch = rng.random() < 0.4
    if switch:
        vs.insert(0, ["z", 0, 1])
    base = 1 if switch else 0
    cons = []
    for i in range(k):
        a, b = base + i, base + (i + 1) % k
        lhs, rhs = (V(a) if offs[i] == 0 else ["add", V(a), K(offs[i])]), V(b)
        if switch and i == k - 1:  # z * total repairs the cycle when z = 1
            rhs = ["add", rhs, ["mul", sum(offs), V(0)]]
        if rng.random() < 0.3:
            lhs, rhs = rhs, lhs
        cons.append(["lin", lhs, rhs, False])
    rng.shuffle(cons)
    if rng.random() < 0.3:
        cons.append(rand_constraint(rng, len(vs), True))
    return {"vars": vs, "cons": cons, "family": "W"}


def ladder_spec(rng, D):
    """x == y, x + off == y over exactly D values (optionally with bystander variables / constraints, a third variable in
    the cycle, or the repairing switch): one _propagate call needs about D / (2 off) sweeps and ends - just before the
    contradiction shows - on singleton domains.  Every D of a range is generated, so that a limit on the number of
    sweeps (whatever its formula: a constant, #variables + #constraints, ...) is crossed exactly once in the range."""
    off = rng.choice([1, 1, 1, 2])
    lo = rng.choice([0, 0, 1, -3])
    vs = [["x", lo, lo + D - 1], ["y", lo, lo + D - 1]]
    cons = [["lin", V(0), V(1), False], ["lin", ["add", V(0), K(off)], V(1), False]]
    r = rng.random()
    if r < 0.2 and D <= 24:  # three variables in the cycle
        vs.append(["w", lo, lo + D - 1])
        cons = [["lin", V(0), V(1), False], ["lin", V(1), V(2), False], ["lin", ["add", V(2), K(off)], V(0), False]]
    elif r < 0.4:  # z = 1 repairs the cycle
        vs.append(["z", 0, 1])
        cons[1] = ["lin", ["add", V(0), K(off)], ["add", V(1), ["mul", off, V(len(vs) - 1)]], False]
    for _ in range(rng.choice([0, 0, 1, 2, 3])):  # bystanders change #variables / #constraints only
        if rng.random() < 0.5 and box_size({"vars": vs}) * 2 <= 20000:
            vs.append([f"u{len(vs)}", 0, 1])
        else:
            cons.append(["lin", V(0), K(lo - 1 - rng.randint(0, 3)), True])
    if rng.random() < 0.3:
        cons.reverse()
    return {"vars": vs, "cons": cons, "family": "W"}


def work_cases(rng, thorough):
    """(label, spec, known, settings, timeout): by-construction instances that maximise the iteration count of one
    loop of the implementation at moderate input size (2^7 .. 2^12 / 10^4 in quick, 10^4 .. 10^5 in thorough)."""
    out = []
    # sweeps of one _propagate call: x == y, x + 1 == y trims two values per sweep -> D / 2 sweeps
    # D = 2 K for the usual caps K = 2^7, 2^10, 2^11, 2^12 (and one step beyond), 10^4 in thorough
    sizes = [(254, False), (256, rng.random() < 0.5), (258, False), (2048, rng.random() < 0.5), (2050, False), (4096, False),
             (8192, rng.random() < 0.5)] + ([(2046, True), (4098, True), (8194, True), (20000, False), (20002, True)] if thorough else [])
    for D, switch in sizes:
        off = 1
        vs = ([["z", 0, 1]] if switch else []) + [["x", 0, D - 1], ["y", 0, D - 1]]
        b = 1 if switch else 0
        second = ["lin", ["add", V(b), K(off)], ["add", V(b + 1), ["mul", off, V(0)]] if switch else V(b + 1), False]
        cons = [["lin", V(b), V(b + 1), False], second]
        out.append((f"sweeps~{D // 2}", {"vars": vs, "cons": cons}, {"feasible": switch}, [(rng.choice(["dfs", "auto"]), 1)], 600))
    D = 300
    out.append(("sweeps_sat", {"vars": [["x", 0, D - 1], ["y", 0, D - 1]], "cons": [["lin", V(0), V(1), False], ["lin", ["add", V(0), K(1)], V(1), False]]},
                {"feasible": False}, [("sat", 1)], 120))
    # the loop over the values of one node: N values, all of them solutions
    N = 10007 if not thorough else 20011
    out.append((f"values={N}", {"vars": [["x", 5, N + 4]], "cons": []}, {"feasible": True, "count": N}, [("dfs", 10**6)], 600))
    # operators of one expression (_linearize, and the pairwise folding of the encoder)
    for k in [2100, 5001] + ([20001] if thorough else []):
        step = k // 10
        vs = [[f"t{i}", 0, 1] if i % step == 0 else [f"t{i}", 2, 2] for i in range(k)]
        fixed = sum(2 for i in range(k) if i % step != 0)
        sp = {"vars": vs, "cons": [["lin", _sumexpr(list(range(k))), K(fixed + 4), False]]}
        out.append((f"terms={k}", sp, {"feasible": True}, [("dfs", 2), ("sat", 1)], 600))
    # time points of one cumulative constraint (tasks far apart), pairs of no_overlap, positions of circuit
    far = 10**4 if not thorough else 10**5
    for cap, feas in ((4, True), (3, False)):
        sp = {"vars": [["a", 0, 1], ["b", far, far + 1], ["c", far, far + 1]], "cons": [["cumulative", [0, 1, 2], [2, 3, 3], [1, 2, 2], cap]]}
        out.append((f"timepoints={far}", sp, {"feasible": feas}, [("auto", 1), ("sat", 2)], 600))
    n = 70 if not thorough else 130
    sp = {"vars": [[f"s{i}", 3 * i, 3 * i + 1] for i in range(n)], "cons": [["no_overlap", list(range(n)), [2] * n]]}
    out.append((f"no_overlap_pairs={n * (n - 1) // 2}", sp, {"feasible": True}, [("auto", 1)], 600))
    vs2 = [[f"s{i}", 3 * i, 3 * i + 1] for i in range(n)]
    vs2[-1] = [f"s{n - 1}", 3 * (n - 2) + 1, 3 * (n - 2) + 2]  # squeezed behind its neighbour: cannot fit
    vs2[-2] = [f"s{n - 2}", 3 * (n - 2), 3 * (n - 2) + 1]
    out.append((f"no_overlap_pairs={n * (n - 1) // 2}", {"vars": vs2, "cons": [["no_overlap", list(range(n)), [2] * (n - 2) + [3, 3]]]},
                {"feasible": False}, [("auto", 1)], 600))
    n = 8 if not thorough else 10
    sp = {"vars": [[f"c{i}", 0, n - 1] for i in range(n)], "cons": [["circuit", list(range(n))]]}
    out.append((f"circuit_n={n}", sp, {"feasible": True}, [("auto", 1)], 600))
    # conflicts of the SAT search: pigeonhole
    n = 7 if not thorough else 8
    sp = {"vars": [[f"p{i}", 1, n - 1] for i in range(n)], "cons": [["all_different", list(range(n))]]}
    out.append((f"sat_pigeonhole_{n}", sp, {"feasible": False}, [("sat", 1)], 600))
    return out


def inplace_check(rng, spec, hints, fresh):
    """Class A2: solve, then EDIT THE SAME Model in place (add the remaining constraints, create the last variable),
    solve again with every back-end and compare with a fresh model of the full spec; the same hints dictionary object
    is edited between two calls as well."""
    from solvor.cp import Model

    cons = spec["cons"]
    if not cons:
        return [], 0
    cut = rng.randrange(len(cons))
    used_last = any(_uses_var(c, len(spec["vars"]) - 1) for c in cons[:cut])
    late_var = len(spec["vars"]) >= 2 and not used_last and rng.random() < 0.6
    m = Model()
    nv0 = len(spec["vars"]) - (1 if late_var else 0)
    xs = [m.int_var(lo, hi, nm) if nm is not None else m.int_var(lo, hi) for (nm, lo, hi) in spec["vars"][:nv0]]
    style = spec.get("iter", "list")
    def add(c):
        built = build_constraint(m, c, xs, style)
        m.add(built)
        if spec.get("twice") and c[0] != "lin":  # exactly what build_model does
            m.add(built)

    try:
        for c in cons[:cut]:
            add(c)
        bad, runs = [], 0
        for solver in rng.sample(SOLVERS, 2):  # warm every cache there might be
            guarded(lambda: m.solve(solver=solver, solution_limit=rng.choice(LIMITS)), timeout=20)
            runs += 1
        if late_var:
            nm, lo, hi = spec["vars"][-1]
            xs.append(m.int_var(lo, hi, nm) if nm is not None else m.int_var(lo, hi))
        for c in cons[cut:]:
            add(c)
    except (TypeError, ValueError):
        return [], 0
    m._c05_inputs = []
    settings = [(s, l) for s in SOLVERS for l in LIMITS]
    rng.shuffle(settings)
    for solver, limit in settings[:6]:
        out = run_impl(spec, solver, limit, None, model=m)
        runs += 1
        ref = fresh.get((solver, limit, True))
        if ref is None or ref[0] != "ok":
            continue
        if out[0] != "ok" or (out[1], out[2]) != (ref[1], ref[2]):
            bad.append((solver, limit, None, f"after constraints{' and a variable' if late_var else ''} were added to a Model that "
                        f"had been solved before, the answer differs from a fresh model of the same final contents: "
                        f"{str(out[1:3])[:200]} vs {str(ref[1:3])[:200]}", out))
    # the caller edits its hints dictionary in place between two calls
    if hints:
        h = {k: v + 1 for k, v in hints.items()}
        solver, limit = rng.choice(SOLVERS), rng.choice(LIMITS)
        guarded(lambda: m.solve(solver=solver, solution_limit=limit, hints=h), timeout=20)
        h.clear()
        h.update(hints)
        res = guarded(lambda: m.solve(solver=solver, solution_limit=limit, hints=h), timeout=20)
        runs += 2
        ref = fresh.get((solver, limit, False))
        if ref is not None and ref[0] == "ok" and res[0] == "ok":
            r = res[1]
            sols = list(r.solutions) if r.solutions is not None else ([r.solution] if r.solution is not None else [])
            if (r.status.name, sols) != (ref[1], ref[2]):
                bad.append((solver, limit, hints, "after the caller edited its hints dictionary in place, the answer differs from a "
                            f"fresh call with the same contents: {str((r.status.name, sols))[:200]} vs {str(ref[1:3])[:200]}", None))
    return bad, runs


def _uses_var(c, i):
    def in_expr(e):
        return (e[0] == "var" and e[1] == i) or (e[0] in ("add", "sub") and (in_expr(e[1]) or in_expr(e[2]))) or \
               (e[0] in ("mul", "rmul") and in_expr(e[2]))
    if c[0] == "lin":
        return in_expr(c[1]) or in_expr(c[2])
    return i in c[1]


def float_variant(rng, spec):
    """Class X (the property is about integers: only the part "integral floats vs ints in every numeric argument"
    applies): one numeric ARGUMENT of a global constraint becomes the equal float (33.0 for 33, -0.0 for 0).  The
    meaning is unchanged, so the brute-force oracle of the integer spec judges; a call that raises is a refusal."""
    sp = json.loads(json.dumps(spec))
    cand = [k for k, c in enumerate(sp["cons"]) if c[0] in ("sum_eq", "sum_le", "sum_ge", "cumulative", "no_overlap")]
    if not cand:
        return None
    c = sp["cons"][rng.choice(cand)]

    def pick(x):
        if abs(x) > 2**53 or float(x) != x:
            raise OverflowError  # no equal float exists
        return -0.0 if x == 0 and rng.random() < 0.5 else float(x)

    if c[0] in ("sum_eq", "sum_le", "sum_ge"):
        c[2] = pick(c[2])
    elif c[0] == "no_overlap":
        if not c[2]:
            return None
        j = rng.randrange(len(c[2]))
        c[2][j] = pick(c[2][j])
    else:
        r = rng.random()
        if r < 0.4:
            c[4] = pick(c[4])
        elif c[3]:
            j = rng.randrange(len(c[3]))
            which = 3 if r < 0.8 else 2
            c[which][j] = pick(c[which][j])
    sp["family"] = "X"
    return sp


def judge_float(spec, truth, solver, limit, out, hints=None):
    """As judge, but a refusal (any exception) is fine and returned values are compared numerically."""
    if out[0] == "exc":
        return None
    if out[0] == "ok":
        _, status, sols, first = out
        for sol in sols:
            if isinstance(sol, dict):
                for k, v in list(sol.items()):
                    if isinstance(v, float) and v == int(v):
                        sol[k] = int(v)
    return judge(spec, truth, solver, limit, hints, out)


def regression_cases():
    """corpus/C05/*.json with a "regression" descriptor: structured models too large to store literally."""
    out = []
    for o in _corpus():
        r = o.get("regression")
        if not r:
            continue
        n = r["n"]
        if r["shape"] == "free_binary_variables":
            sp = {"vars": [[f"x{i}", 0, 1] for i in range(n)], "cons": []}
            out.append((sp, {"feasible": True}, [("dfs", 1), ("sat", 1)], 120))
        elif r["shape"] == "sum_of_terms":
            # x0 + ... + x(n-1) == total over variables that are fixed except every `step`-th (binary) one
            vs = [[f"x{i}", 0, 1] if i % r["step"] == 0 else [f"x{i}", 1, 1] for i in range(n)]
            fixed = sum(1 for i in range(n) if i % r["step"] != 0)
            sp = {"vars": vs, "cons": [["lin", _sumexpr(list(range(n))), K(fixed + r["ones"]), False]]}
            out.append((sp, {"feasible": True}, [("dfs", 1), ("sat", 1), ("auto", 1)], 120))
        for sp, *_ in out:
            sp["family"] = "S"
    return out


def judge_known(spec, known, solver, limit, out):
    """Oracle without brute force: feasibility (and the number of solutions) is known by construction; every returned
    assignment is evaluated directly (all variables of these models are named)."""
    if out[0] in ("exc", "hang"):
        return f"implementation {out[0]}: {out[1:]}"
    if out[0] == "bad":
        return out[1]
    _, status, sols, first = out
    names = [v[0] for v in spec["vars"]]
    if status == "INFEASIBLE":
        return "INFEASIBLE although the model is satisfiable by construction" if known["feasible"] else None
    if status not in ("OPTIMAL", "FEASIBLE"):
        return f"status {status}"
    if not known["feasible"]:
        return f"{status} with {str(sols[:1])[:200]} although the model is unsatisfiable by construction"
    if not sols or len(sols) > max(limit, 1):
        return f"{len(sols)} solutions for solution_limit={limit}"
    seen = set()
    for sol in sols:
        if not isinstance(sol, dict) or set(sol) != set(names):
            return f"solution keys differ from the variables: {str(sol)[:200]}"
        val = [sol[nm] for nm in names]
        for (nm, lo, hi), x in zip(spec["vars"], val):
            if not isinstance(x, int) or not lo <= x <= hi:
                return f"value of {nm} = {x} outside {lo}..{hi}"
        for c in spec["cons"]:
            with _deep():
                ok = holds(c, val)
            if not ok:
                return f"returned assignment breaks {str(c)[:120]}: {str(sol)[:200]}"
        seen.add(tuple(val))
    if len(seen) != len(sols):
        return f"{len(sols)} solutions returned but only {len(seen)} distinct"
    if "count" in known and len(sols) != min(max(limit, 1), known["count"]):
        return f"{len(sols)} solutions returned for solution_limit={limit}, {known['count']} exist"
    return None


# ---------------------------------------------------------------- O option corners, A call sequences
LIMIT_CORNERS = [0, -1, -7, 10**9, 2**63, 2**64 + 1]


def sweep_options(rng, spec, truth, hints):
    """solution_limit 0..40 and corners on every back-end; the SAT budgets (max_conflicts, max_restarts, luby_factor)
    from 0 upwards.  -> list of (solver, limit, hints, kwargs, verdict, out) that the oracle rejects, number of runs."""
    bad, runs = [], 0
    limits = list(range(0, 13)) + rng.sample(range(13, 41), 5) + LIMIT_CORNERS
    for limit in limits:
        solver = rng.choice(SOLVERS)
        h = hints if rng.random() < 0.2 else None
        out = run_impl(spec, solver, limit, h)
        runs += 1
        v = judge(spec, truth, solver, limit, h, out)
        if v:
            bad.append((solver, limit, h, {}, v, out))
    for _ in range(14):
        kw = {}
        which = rng.choice(["max_conflicts", "max_conflicts", "max_restarts", "luby_factor", "two"])
        if which in ("max_conflicts", "two"):
            kw["max_conflicts"] = rng.choice(list(range(0, 12)) + [40, 99_999, 100_000, 100_001])
        if which in ("max_restarts", "two"):
            kw["max_restarts"] = rng.choice([0, 1, 2, 3, 9_999, 10_000, 10_001])
        if which == "luby_factor":
            kw["luby_factor"] = rng.choice([1, 2, 3, 99, 100, 101])
        solver, limit = rng.choice(["sat", "sat", "auto", "dfs"]), rng.choice([1, 2, 5, 1000])
        out = run_impl(spec, solver, limit, None, kwargs=kw)
        runs += 1
        v = judge(spec, truth, solver, limit, None, out, budget=True)
        if v:
            bad.append((solver, limit, None, kw, v, out))
    return bad, runs


def sequence_check(rng, spec, hints, fresh):
    """Class A: all settings on ONE Model object in a random order (so every back-end runs after every other one, and
    each setting after itself); each answer must equal the answer of a freshly built model."""
    m = build_model(spec)
    settings = [(s, l, h) for s in SOLVERS for l in LIMITS for h in (None, hints)]
    rng.shuffle(settings)
    settings = settings + settings[:3]
    bad, runs = [], 0
    for solver, limit, h in settings:
        out = run_impl(spec, solver, limit, h, model=m)
        runs += 1
        ref = fresh.get((solver, limit, h is None))
        if ref is None or ref[0] != "ok":
            continue
        if out[0] != "ok" or (out[1], out[2]) != (ref[1], ref[2]):
            bad.append((solver, limit, h, f"the answer on a Model that was solved before differs from the answer of a fresh "
                        f"model: {str(out[1:3])[:200]} vs {str(ref[1:3])[:200]}", out))
    return bad, runs


# ---------------------------------------------------------------- H rare histories: instrumented reference port
def ref_events(vs, cons, hints, limit):
    """A plain re-implementation of the DFS of cp.py over the walked model, reporting which internal situations
    occurred.  Used ONLY to steer generation towards rare histories (never as a judge)."""
    E = set()
    names = [v[0] for v in vs]
    hidden = [v[3] for v in vs]

    def lin(l, r):
        terms, const = {}, [0]

        def visit(e, mult):
            k = e[0]
            if k == "var":
                if e[1] in terms:
                    E.add("lin_same_var_twice")
                terms[e[1]] = terms.get(e[1], 0) + mult
            elif k == "const":
                const[0] += mult * e[1]
            elif k == "add":
                visit(e[1], mult), visit(e[2], mult)
            elif k == "sub":
                visit(e[1], mult), visit(e[2], -mult)
            elif k == "rsub":
                E.add("lin_rsub")
                visit(e[2], mult), visit(e[1], -mult)
            else:
                if e[2] < 0:
                    E.add("lin_negative_mul")
                visit(e[1], mult * e[2])

        visit(l, 1), visit(r, -1)
        if any(c == 0 for c in terms.values()):
            E.add("lin_term_cancels")
        return {i: c for i, c in terms.items() if c != 0}, const[0]

    def prop_one(c, D):
        k = c[0]
        if k == "all_different":
            for i, a in enumerate(c[1]):
                if len(D[a]) == 1:
                    val = next(iter(D[a]))
                    for j, b in enumerate(c[1]):
                        if j != i and val in D[b]:
                            D[b].discard(val)
                            E.add("alldiff_removed")
                            if len(D[b]) == 1 and j < i:
                                E.add("alldiff_cascade_backwards")
                            if not D[b]:
                                E.add("alldiff_wipeout")
            return True
        if k == "eq_const":
            if c[2] not in D[c[1]]:
                E.add("eq_const_fail")
                return False
            D[c[1]] = {c[2]}
        elif k == "ne_const":
            D[c[1]].discard(c[2])
        elif k == "eq_var":
            common = D[c[1]] & D[c[2]]
            if not common:
                E.add("eq_var_fail")
                return False
            if len(common) < len(D[c[1]]) or len(common) < len(D[c[2]]):
                E.add("eq_var_shrinks")
            D[c[1]], D[c[2]] = common, set(common)
        elif k == "ne_var":
            if c[1] == c[2]:
                E.add("ne_var_same")
            if len(D[c[1]]) == 1:
                D[c[2]].discard(next(iter(D[c[1]])))
            if len(D[c[2]]) == 1:
                D[c[1]].discard(next(iter(D[c[2]])))
        elif k == "ne_expr":
            coefs, const = lin(c[1], c[2])
            free = [n for n in coefs if len(D[n]) > 1]
            const += sum(co * next(iter(D[n])) for n, co in coefs.items() if n not in free)
            if not coefs:
                E.add("lin_no_variables")
            if not free:
                ok = (const != 0) if c[3] else (const == 0)
                E.add("lin_leaf_true" if ok else "lin_leaf_false")
                return ok
            if c[3]:
                if len(free) == 1:
                    co = coefs[free[0]]
                    if const % co == 0:
                        E.add("ne_one_free_divisible" + ("_negcoef" if co < 0 else "") + ("_bigcoef" if abs(co) > 1 else ""))
                        if -const // co in D[free[0]]:
                            E.add("ne_removed_value")
                        D[free[0]].discard(-const // co)
                    else:
                        E.add("ne_one_free_not_divisible")
                else:
                    E.add("ne_many_free")
                return True
            for name in free:
                co = coefs[name]
                others = [n for n in free if n != name]
                before = len(D[name])
                if len(others) == 1:
                    reach = {-const - coefs[others[0]] * v for v in D[others[0]]}
                    D[name] = {v for v in D[name] if co * v in reach}
                    if len(D[name]) < before:
                        E.add("eq_two_free_pruned" + ("_coef" if abs(co) > 1 or abs(coefs[others[0]]) > 1 else ""))
                else:
                    lo = sum(min(coefs[n] * v for v in D[n]) for n in others)
                    hi = sum(max(coefs[n] * v for v in D[n]) for n in others)
                    D[name] = {v for v in D[name] if lo <= -const - co * v <= hi}
                    if len(D[name]) < before:
                        E.add("eq_bounds_pruned" if others else "eq_one_free_pruned")
                    elif len(others) >= 2:
                        E.add("eq_bounds_kept_all")
                if not D[name]:
                    E.add("eq_wipeout")
                    return False
        return True

    def propagate(D):
        passes = 0
        changed = True
        while changed:
            changed = False
            passes += 1
            for c in cons:
                old = [len(d) for d in D]
                if not prop_one(c, D):
                    return False
                for n, d in enumerate(D):
                    if not d:
                        E.add("wipeout_after_constraint")
                        return False
                    if len(d) < old[n]:
                        changed = True
        if passes >= 3:
            E.add("fixpoint_3_passes")
        if passes >= 4:
            E.add("fixpoint_4_passes")
        return True

    def run(hints):
        D = [set(range(v[1], v[2] + 1)) for v in vs]
        if hints:
            for nm, val in hints.items():
                if nm in names and val in D[names.index(nm)]:
                    D[names.index(nm)] = {val}
                    E.add("hint_applied" + ("_hidden" if nm.startswith("_") else ""))
                else:
                    E.add("hint_ignored")
        if not propagate(D):
            E.add("root_infeasible")
            return []
        sols = []

        def bt(D, depth):
            openv = [n for n in range(len(D)) if len(D[n]) > 1]
            if not openv:
                sols.append(tuple(next(iter(d)) for n, d in enumerate(D) if not hidden[n]))
                return True
            if depth >= 3:
                E.add("depth_3")
            un = [n for n in openv if not hidden[n]]
            cand = un or openv
            var = min(cand, key=lambda n: len(D[n]))
            if len([n for n in cand if len(D[n]) == len(D[var])]) > 1 and cand.index(var) > 0:
                E.add("mrv_not_first")
            failed = False
            for val in list(D[var]):
                nd = [set(d) for d in D]
                nd[var] = {val}
                if propagate(nd) and bt(nd, depth + 1):
                    if failed and not un:
                        E.add("hidden_completion_after_failure")
                    if failed and un:
                        E.add("solution_after_failed_sibling")
                    if not un or len(sols) >= limit:
                        if un and val != list(D[var])[-1]:
                            E.add("limit_stops_mid_loop")
                        return True
                else:
                    failed = True
            if not un and failed:
                E.add("hidden_subtree_fails")
            return False

        bt(D, 0)
        return sols

    sols = run(hints)
    if hints and not sols:
        E.add("hint_retry")
        sols = run(None)
        if sols:
            E.add("hint_retry_feasible")
    if len(sols) >= 2:
        E.add("many_solutions")
    return E


def spec_events(spec, hints, limit):
    if not dfs_supported(spec):
        return set()
    try:
        m = build_model(spec)
        if m is None or any(lo > hi for _, lo, hi in spec["vars"]):
            return set()
        vs, cons = walk_model(m)
        return ref_events(vs, cons, hints, limit)
    except (ValueError, RecursionError):
        return set()


def mutate_spec(rng, spec):
    sp = json.loads(json.dumps(spec))
    nv = len(sp["vars"])
    r = rng.random()
    if r < 0.3 and sp["cons"]:
        sp["cons"].pop(rng.randrange(len(sp["cons"])))
    elif r < 0.65:
        sp["cons"].insert(rng.randint(0, len(sp["cons"])), rand_constraint(rng, nv, True))
    elif r < 0.8:
        i = rng.randrange(nv)
        sp["vars"][i][2] = max(sp["vars"][i][1], sp["vars"][i][2] + rng.choice([-1, 1]))
    elif r < 0.9 and nv < 5:
        sp["vars"].append([None if rng.random() < 0.5 else f"w{nv}", rng.randint(-2, 2), rng.randint(2, 4)])
    else:
        i = rng.randrange(nv)
        sp["vars"][i][0] = None if sp["vars"][i][0] is not None else f"n{i}"
    sp["cons"] = sp["cons"][:5]
    return sp


def event_guided(rng, n_keep, seen, rounds):
    """Event-directed search: random DFS-only specs and mutations of the ones that showed a rare situation; keep the
    specs that add the rarest events.  `seen` counts events over the whole run (seeded from the committed corpus)."""
    kept = []
    pool = []
    for _ in range(rounds):
        if pool and rng.random() < 0.5:
            sp = mutate_spec(rng, rng.choice(pool))
        else:
            sp = rand_spec(rng)
            if not dfs_supported(sp):
                continue
        if box_size(sp) > 4000 or box_size(sp) == 0:
            continue
        hints = rand_hints(rng, sp) if rng.random() < 0.5 else None
        limit = rng.choice([1, 2, 3, 1000])
        evs = spec_events(sp, hints, limit)
        score = sum(1.0 / (1 + seen.get(e, 0)) for e in evs)
        new = [e for e in evs if seen.get(e, 0) < 3]
        if new or score > 1.5:
            for e in evs:
                seen[e] = seen.get(e, 0) + 1
            sp["family"] = "H"
            sp["hints"] = hints
            kept.append((score, sp, sorted(new)))
            pool.append(sp)
            pool = pool[-30:]
    kept.sort(key=lambda t: -t[0])
    return kept[:n_keep]


def _corpus():
    out = []
    d = VERIF / "corpus" / "C05"
    if d.exists():
        for f in sorted(d.glob("*.json")):
            o = json.loads(f.read_text())
            o["_file"] = f.name
            out.append(o)
    return out


def run(ctx: Ctx):
    ctx.rule = ("random CP models built through the public operators: 1..5 variables, domain width <= 6 (negative, non-zero-based, "
                "wide-valued, gapped by != const), 1..4 constraints drawn from the whole expression grammar (add/sub/rsub/mul, "
                "constants either side, nested) and every global constraint, unnamed/'_' variables; each solved with solver in "
                "{auto,dfs,sat} x solution_limit in {1,3,1000} x {no hints, random hints incl. infeasible/out-of-domain/unknown}; "
                "non-trivial = buildable model with >= 1 constraint whose brute-force solution set is neither empty nor the whole box; "
                "distinct = canonical JSON of the spec")
    ctx.proof_step(["C05"])
    thorough = ctx.tier == "thorough"
    global quick_all
    quick_all = thorough
    n = ctx.budget(210, 5000)
    specs = []
    seen_events = {}
    for o in _corpus():
        if o.get("candidate_finding") or o.get("regression") or o.get("observation_only"):
            continue
        specs.append({"vars": o["vars"], "cons": o["cons"], "hints": o.get("hints"), "family": "corpus"})
        for e in o.get("events", []):
            seen_events[e] = seen_events.get(e, 0) + 1
    specs += [{"vars": f["vars"], "cons": f["cons"], "hints": f.get("hints"), "family": "fixed"} for f in FIXED]
    tries = 0
    while len(specs) < n + len(FIXED) and tries < 20 * n:
        tries += 1
        s = rand_spec(ctx.rng)
        if box_size(s) > 6 ** 5:
            continue
        s = decorate(ctx.rng, s)
        s.setdefault("family", "R")
        specs.append(s)
    # M: magnitudes
    for _ in range(ctx.budget(75, 1500)):
        specs.append(decorate(ctx.rng, rand_spec_big(ctx.rng)))
    # W (small, brute-forced): cyclic offset equalities needing many propagation sweeps
    for _ in range(ctx.budget(30, 700)):
        specs.append(decorate(ctx.rng, cyclic_spec(ctx.rng)))
    for D in range(2, ctx.budget(84, 132)):  # every domain size of a range: a sweep limit is crossed exactly somewhere
        specs.append(ladder_spec(ctx.rng, D))
    # H: event-directed
    for score, sp, new in event_guided(ctx.rng, ctx.budget(40, 500), seen_events, ctx.budget(1500, 25000)):
        specs.append(sp)
        for e in new:
            ctx.count("rare_event", e)

    dfs_cases, dfs_meta, ans_cases, ans_meta = [], [], [], []
    import time as _time
    _t = [_time.time()]

    def lap(name):
        ctx.count("phase_seconds", f"{name}={_time.time() - _t[0]:.0f}")
        _t[0] = _time.time()

    lap("proofs+generation")

    def report(sp, solver, limit, h, bad, out, extra=None):
        small = sp
        if solver in SOLVERS and not extra:
            small = shrink(sp, solver, limit, h)
            if small != sp:
                out = run_impl(small, solver, limit, h)
                bad = judge(small, oracle(small), solver, limit, h, out) or bad
        ctx.violation(f"Model.solve(solver={solver!r}, solution_limit={limit}, hints={h}{', ' + str(extra) if extra else ''}): {bad}",
                      {"spec": small, "solver": solver, "limit": limit, "hints": h, "original_spec": sp,
                       "impl": str(out)[:400], **({"extra": extra} if extra else {})})

    for spec in specs:
        hints = spec.get("hints") or rand_hints(ctx.rng, spec)
        sp = {k: spec[k] for k in ("vars", "cons", "iter", "twice") if k in spec}
        rec = explore(sp, hints)
        if rec["skipped"]:
            ctx.count("skipped", rec["skipped"].split(":")[0])
            continue
        ctx.evaluations += rec["runs"]
        ctx.count("family", spec.get("family", "R"))
        ctx.count("iter", sp.get("iter", "list"))
        ctx.count("status", rec["status"])
        ctx.count("path", "dfs" if dfs_supported(sp) else "sat")
        ctx.count("nvars", len(sp["vars"]))
        ctx.count("hidden", sum(1 for v in sp["vars"] if is_hidden(v[0])))
        ctx.count("magnitude", len(str(max([abs(v[1]) for v in sp["vars"]] + [0]))))
        for c in sp["cons"]:
            ctx.count("kind", c[0] if c[0] != "lin" else ("lin_ne" if c[3] else "lin_eq"))
        if sp["cons"] and 0 < rec["truth_n"] and len(all_full_solutions(sp)) < box_size(sp):
            ctx.nontriv(json.dumps(sp, sort_keys=True))
        ctx.sample({"spec": sp, "solutions": rec["truth_n"]}, 3)
        for solver, limit, h, bad, out in rec["bad"]:
            report(sp, solver, limit, h, bad, out)
        if not rec["bad"]:
            r = ctx.rng.random()
            if r < 0.30 and not dfs_supported(sp):  # X: an equal float in place of an int argument
                try:
                    fs = float_variant(ctx.rng, sp)
                except OverflowError:
                    fs = None
                if fs is not None:
                    ctx.count("extra", "float_argument")
                    for solver in SOLVERS:
                        limit = ctx.rng.choice([1, 3, 1000, 3.0])
                        out = run_impl(fs, solver, limit, None)
                        ctx.evaluations += 1
                        ctx.count("float_outcome", out[0] if out[0] != "exc" else "refused:" + out[1])
                        # POLICY_X (e): float-typed durations / demands / capacities / targets are outside the property:
                        # observation only (anything may be returned or raised; a hang is cut by the guard and counted)
                        verdict = judge_float(sp, rec["truth"], solver, int(limit), out) if out[0] == "ok" else out[0]
                        ctx.count("observation_only", "float constraint argument: " + ("as for the int" if verdict is None else
                                                                                      ("differs" if out[0] == "ok" else str(verdict))))
                    fh = {k: float(v) for k, v in hints.items() if abs(v) < 2**53}
                    for solver in ("dfs", "sat"):
                        out = run_impl(sp, solver, 3, fh)
                        ctx.evaluations += 1
                        bad = judge_float(sp, rec["truth"], solver, 3, out, hints=fh)
                        if bad:
                            report(sp, solver, 3, fh, bad, out, extra="float hint values")
            if r < 0.25:  # A: call sequences on one Model object
                bad, runs = sequence_check(ctx.rng, sp, hints, rec["outs"])
                ctx.evaluations += runs
                ctx.count("extra", "sequence")
                for solver, limit, h, msg, out in bad[:1]:
                    report(sp, solver, limit, h, msg, out, extra="after other solves on the same Model")
            elif r < 0.50:  # A2: the same Model edited in place between solves
                bad, runs = inplace_check(ctx.rng, sp, hints, rec["outs"])
                ctx.evaluations += runs
                ctx.count("extra", "inplace_edit")
                for solver, limit, h, msg, out in bad[:1]:
                    report(sp, solver, limit, h, msg, out, extra="in-place edit between calls")
            elif r < 0.62:  # O: option corners and sweeps
                bad, runs = sweep_options(ctx.rng, sp, rec["truth"], hints)
                ctx.evaluations += runs
                ctx.count("extra", "option_sweep")
                for solver, limit, h, kw, msg, out in bad[:1]:
                    report(sp, solver, limit, h, msg, out, extra=kw or "limit sweep")
        for term, meta in rec["dfs_cases"]:
            dfs_cases.append(term)
            dfs_meta.append(meta)
            ctx.traces_validated += 1
        for term in rec["ans_cases"]:
            ans_cases.append(term)
            ans_meta.append(sp)

    lap("small specs (brute force)")
    # S: size thresholds, answers known by construction (plus the committed regression descriptors)
    for sp, known, settings, timeout in known_cases(ctx.rng, thorough) + regression_cases():
        fam = {k: sp[k] for k in ("vars", "cons")}
        rec = explore_known(fam, known, settings, timeout)
        ctx.evaluations += rec["runs"]
        ctx.count("family", "S")
        ctx.count("size", f"{len(sp['vars'])}v/{len(sp['cons'])}c")
        for solver, limit, h, bad, out in rec["bad"]:
            ctx.violation(f"Model.solve(solver={solver!r}, solution_limit={limit}) on a structured large model: {bad}",
                          {"spec": fam, "known": known, "solver": solver, "limit": limit, "hints": None, "impl": str(out)[:300]})
        for term in rec["ans_cases"]:
            ans_cases.append(term)
            ans_meta.append({"vars": len(sp["vars"]), "cons": len(sp["cons"])})

    lap("S size families")
    # W: work volume, one loop at a time; the counts reached are reported in the evidence
    work = {"propagate_sweeps_one_call": 0, "dfs_nodes": 0, "values_of_one_node": 0, "expression_terms": 0,
            "cumulative_time_points": 0, "sat_decisions": 0, "solutions_enumerated": 0}
    for label, sp, known, settings, timeout in work_cases(ctx.rng, thorough):
        with WorkMeter() as wm:
            rec = explore_known(sp, known, settings, timeout)
        ctx.evaluations += rec["runs"]
        ctx.count("family", "W")
        ctx.count("work_case", label)
        work["propagate_sweeps_one_call"] = max(work["propagate_sweeps_one_call"], wm.max_sweeps)
        if label.startswith("values="):
            work["values_of_one_node"] = max(work["values_of_one_node"], known["count"])
        if label.startswith("terms="):
            work["expression_terms"] = max(work["expression_terms"], len(sp["vars"]))
        if label.startswith("timepoints="):
            work["cumulative_time_points"] = max(work["cumulative_time_points"], int(label.split("=")[1]))
        for solver, limit, h, bad, out in rec["bad"]:
            ctx.violation(f"Model.solve(solver={solver!r}, solution_limit={limit}) on a work-volume instance ({label}): {bad}",
                          {"spec": sp if len(sp["vars"]) < 50 else {"vars": sp["vars"][:5] + ["..."], "cons": str(sp["cons"])[:300]},
                           "label": label, "known": known, "solver": solver, "limit": limit, "hints": None, "impl": str(out)[:300]})
    work["dfs_nodes"] = max([work["dfs_nodes"]] + _seen_iterations["dfs"])
    work["sat_decisions"] = max([work["sat_decisions"]] + _seen_iterations["sat"])
    work["solutions_enumerated"] = max([0] + _seen_iterations["sols"])
    ctx.extra["work_volume_max"] = work
    for k, v in work.items():
        ctx.count("work_max", f"{k}={v}")

    lap("W work volume")
    fail_dfs = ctx.coq_check(
        "dfs", IMPORTS, "cpmodel * list (nat * Z) * Z * list sol",
        "fun c => let '(M, h, l, impl) := c in wf_dfs M && corr_set M h l impl && (if in_0_7 M then corr_exact M h l impl else true)",
        dfs_cases, shard=120)
    fail_ans = ctx.coq_check(
        "answers", IMPORTS, "cpmodel * option (list sol)",
        "fun c => wf_dfs (fst c) && answer_check (fst c) (snd c)", ans_cases, shard=150)
    lap("coq correspondence")
    ctx.count("coq_cases", "dfs", len(dfs_cases))
    ctx.count("coq_cases", "answers", len(ans_cases))

    for i in fail_ans[:3]:
        # the Coq spec rejects an answer the Python oracle accepted: the two readings of the property differ
        ctx.violation("Coq spec_check (SV.C05.CpSpec.answer_check, in-domain and holdsb of every constraint) rejects an "
                      "implementation answer", {"spec": ans_meta[i], "case": ans_cases[i][:1500]}, no_input=not ctx.violations)

    if (fail_dfs or ctx.broken) and not ctx.violations:
        found = False
        budget = 2500
        pool = [dfs_meta[i]["spec"] for i in fail_dfs[:20]]
        for k in range(budget):
            if pool and k % 3 == 0:
                sp = json.loads(json.dumps(ctx.rng.choice(pool)))
                if sp["cons"] and ctx.rng.random() < 0.5:
                    sp["cons"].pop(ctx.rng.randrange(len(sp["cons"])))
                else:
                    sp["cons"].append(rand_constraint(ctx.rng, len(sp["vars"]), True))
            else:
                sp = rand_spec(ctx.rng)
            if box_size(sp) > 6 ** 5:
                continue
            rec = explore(sp, rand_hints(ctx.rng, sp))
            if rec["skipped"]:
                continue
            ctx.evaluations += rec["runs"]
            if rec["bad"]:
                solver, limit, h, bad, out = rec["bad"][0]
                small = shrink(sp, solver, limit, h) if solver in SOLVERS else sp
                ctx.violation(f"Model.solve(solver={solver!r}, solution_limit={limit}, hints={h}): {bad}",
                              {"spec": small, "solver": solver, "limit": limit, "hints": h, "original_spec": sp})
                found = True
                break
        if not found:
            for i in fail_dfs[:1]:
                meta = dfs_meta[i]
                term = dfs_cases[i]
                shown = ctx.coq_eval("dfs_show", IMPORTS, f"let '(M, h, l, impl) := {term} in (solve vo_id M h l, solve vo_id M h big_limit)")
                ctx.violation("correspondence lemma dfs: the Gallina DFS model (SV.C05.CpDfs.solve) and Model.solve(solver='dfs') differ "
                              "(observable: number and set of solutions; exact sequence when all domains lie in 0..7)",
                              {**meta, "model": shown[-1500:], "lemma": "Cases/C05/dfs_*.v corr"}, no_input=True)

    ctx.notes += [
        "oracle: brute force over the declared domain box (<= 5 variables, width <= 6) with an evaluator written in this module; "
        "circuit = successors in 0..n-1, no self-loop, one cycle (n=1 infeasible, n=0 vacuous) as documented in cp_encoder/test_cp; "
        "no_overlap = end_i <= start_j or end_j <= start_i; cumulative with capacity >= 0, demands >= 0",
        "a declared domain may be empty (lb > ub): the only valid answer is INFEASIBLE (commit 39644fa), modelled by CpDfs.solve",
        "value order of the DFS (iteration order of a Python set) is an oracle of the model: compared order-free, exactly only for domains inside 0..7",
        "SAT path is judged end-to-end by the oracle and by the Coq spec_check; its pieces (encoder, solver) are the subject of C06 / C01",
        "enumeration completeness (fewer answers than solution_limit => all solutions) is demanded only without hints",
        "round-2 families: M magnitudes (domains/coefficients/constants at 2^31..2^64, 10^18, brute force exact), L odd/falsy/fresh names, "
        "I one-shot iterables for all_different/circuit/sum_*, S structured large models with by-construction answers (17..2049 "
        "variables/terms/constraints, 65537-value domains, 2^13 solutions, > 10^5 search nodes), O solution_limit 0..40 and corners, "
        "SAT budgets from 0 (MAX_ITER accepted only with an explicit budget), A caller objects and the Model unchanged by solve, "
        "answers independent of earlier solves on the same Model, duplicated constraints, H event-directed specs (reference port "
        "used for steering only)",
        "round-3 families: W work volume per loop (propagation sweeps of one call via cyclic offset equalities - small ones brute-forced "
        "and in the Coq correspondence, large ones by construction -, DFS nodes, values of one node, operators of one expression, "
        "cumulative time points, no_overlap pairs, circuit positions, SAT decisions); maxima reached in coverage.work_volume_max; "
        "A2 the same Model edited in place between solves (constraints and a variable added; hints dictionary edited) against a fresh "
        "model; X: float hint values and a float solution_limit equal to the ints are judged; float-typed durations / demands / "
        "capacities / sum targets are OBSERVATION-ONLY (outside the property by coordinator policy X(e): counted in the histogram "
        "observation_only, never a violation; corpus/C05/float_duration_2p53.json documents the observed rounding above 2^53); "
        "two int_var with one name are outside the property as well (policy X(d)) and not generated",
        "models beyond Python's default recursion limit (1025..2049 open variables / terms of one sum) are part of the S family "
        "since the fix 6a89d67",
    ]


def replay(obj):
    if "spec" not in obj and "vars" in obj and "cons" in obj:  # a corpus file
        obj = {"spec": {"vars": obj["vars"], "cons": obj["cons"]}, "hints": obj.get("hints"), "solver": "all", "limit": obj.get("limit", 1000)}
    if "spec" not in obj:
        print("replay names an unchecked obligation:", obj.get("unchecked") or obj.get("what"))
        return 1
    spec = obj["spec"]
    solver, limit, hints = obj.get("solver", "auto"), obj.get("limit", 1), obj.get("hints")
    rc = 0
    settings = [(solver, limit, hints)] if solver in SOLVERS else [(s, limit, hints) for s in SOLVERS]
    truth = oracle(spec)
    print("oracle: %d solutions (named projection)" % len(truth))
    for s, l, h in settings:
        out = run_impl(spec, s, l, h)
        bad = None if out[0] in ("refused", "unbuildable") else judge(spec, truth, s, l, h, out)
        print(f"solver={s} limit={l} hints={h}: {str(out)[:300]}")
        print("verdict:", bad or "ok")
        rc |= 1 if bad else 0
    return rc
