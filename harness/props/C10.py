"""C10 - Hungarian assignment is a matching of optimal total cost.

Tie to /repo: solvor.hungarian.solve_hungarian (working tree) is run on generated cost matrices; the Gallina
model SV.C10.Hungarian.solve is evaluated on the same matrices inside coqc (vm_compute) and must return
the SAME assignment and objective.  Independently of the model, (a) a Python oracle (injection enumeration
up to 6x6 / 7x7, subset DP beyond) judges matching validity, objective sum and optimality of the
implementation's output, (b) the Coq boolean spec_check (proved sound w.r.t. matching_spec/objective_spec)
judges the implementation's outputs inside coqc, (c) the model's final potentials are checked as an
LP-duality certificate (cert_check) per case.

Inputs are matrices of dyadic rationals num / 2^shift.  The implementation gets Python ints (shift = 0,
as_float = False) or floats; the model gets the integer matrix `num` (see ctx.notes for why that is exact).
"""
import itertools
import json
from fractions import Fraction

from harness.core import Ctx, VERIF, cz, cbool, clist, guarded, pmap

ID = "C10"
ANCHORS = ["solvor/hungarian.py", "solvor/utils/helpers.py"]
IMPORTS = "From SV Require Import C10.Hungarian C10.HungarianSpec."
TIMEOUT = 1.0   # seconds per call; a 12x12 instance takes < 5 ms


# ---------------------------------------------------------------- generators
def _entries(rng, kind, nr, nc):
    if kind == "small":
        return [[rng.randint(-3, 3) for _ in range(nc)] for _ in range(nr)], 0
    if kind == "wide":
        return [[rng.randint(-9, 9) for _ in range(nc)] for _ in range(nr)], 0
    if kind == "bits":
        return [[rng.randint(0, 1) for _ in range(nc)] for _ in range(nr)], 0
    if kind == "neg":
        return [[rng.randint(-9, -1) for _ in range(nc)] for _ in range(nr)], 0
    if kind == "pos":
        return [[rng.randint(1, 9) for _ in range(nc)] for _ in range(nr)], 0
    if kind == "const":
        c = rng.randint(-4, 4)
        return [[c] * nc for _ in range(nr)], 0
    if kind == "duprows":
        base = [[rng.randint(-4, 4) for _ in range(nc)] for _ in range(max(1, nr // 2))]
        return [list(rng.choice(base)) for _ in range(nr)], 0
    if kind == "dupcols":
        base = [[rng.randint(-4, 4) for _ in range(nr)] for _ in range(max(1, nc // 2))]
        cols = [rng.choice(base) for _ in range(nc)]
        return [[cols[j][i] for j in range(nc)] for i in range(nr)], 0
    if kind == "rank1":   # c_ij = a_i + b_j: every perfect matching is optimal, all reduced costs tie
        a = [rng.randint(-4, 4) for _ in range(nr)]
        b = [rng.randint(-4, 4) for _ in range(nc)]
        return [[a[i] + b[j] for j in range(nc)] for i in range(nr)], 0
    if kind == "big":
        return [[rng.randint(-10**6, 10**6) for _ in range(nc)] for _ in range(nr)], 0
    if kind == "dyadic":
        sh = rng.randint(1, 4)
        return [[rng.randint(-24, 24) for _ in range(nc)] for _ in range(nr)], sh
    raise ValueError(kind)


KINDS = ["small", "small", "wide", "wide", "bits", "neg", "pos", "const", "duprows", "dupcols", "rank1", "big", "dyadic", "dyadic"]


def gen_case(rng, big=False):
    r = rng.random()
    hi = 7 if big else 6
    if r < 0.35:
        nr = nc = rng.randint(1, hi)
    elif r < 0.85:
        nr, nc = rng.randint(1, hi), rng.randint(1, hi)
    elif r < 0.93:
        nr, nc = rng.choice([(1, rng.randint(1, 9)), (rng.randint(1, 9), 1)])
    else:
        top = 12 if big else 9
        nr, nc = rng.randint(hi + 1, top), rng.randint(2, top)
        if rng.random() < 0.5:
            nr, nc = nc, nr
    if rng.random() < 0.02:          # r x 0 (and 0 x 0): every row stays unassigned
        nr, nc = rng.randint(0, 5), 0
    kind = rng.choice(KINDS)
    num, sh = _entries(rng, kind, nr, nc)
    return {"num": num, "shift": sh, "minimize": rng.random() < 0.5, "as_float": sh > 0 or rng.random() < 0.5, "kind": kind}


def fixed_cases():
    out = []

    def add(num, minimize=True, shift=0, as_float=False, kind="edge"):
        out.append({"num": num, "shift": shift, "minimize": minimize, "as_float": as_float, "kind": kind})

    for mz in (True, False):
        add([], mz)
        add([[]], mz)
        add([[], []], mz)
        add([[], [], []], mz, as_float=True)
        add([[5]], mz)
        add([[-5]], mz, as_float=True)
        add([[0]], mz)
        add([[3, 1, 2]], mz)
        add([[-3, -1, -2]], mz)
        add([[3], [1], [2]], mz)
        add([[-3], [-1], [-2]], mz)
        add([[10, 5, 13], [3, 9, 18], [10, 6, 12]], mz)          # docstring example
        add([[0, 0], [0, 0]], mz)
        add([[1, 2], [3, 4], [0, 0]], mz)
        add([[-1, -2], [-3, -4], [-5, -6]], mz)                   # rows > cols, all negative (padding 0 is the max)
        add([[-1, -2, -3], [-4, -5, -6]], mz)                     # cols > rows, all negative
        add([[5, 5, 5], [5, 5, 5]], mz)
        add([[1, 2, 3], [2, 4, 6], [3, 6, 9]], mz)
        add([[3, 5], [-7, 1]], mz, shift=1, as_float=True)        # 1.5 2.5 / -3.5 0.5
        add([[1, 3, 5, 7], [7, 5, 3, 1], [2, 2, 2, 2]], mz, shift=3, as_float=True)
        add([[4, 1, 3], [2, 0, 5], [3, 2, 2]], mz)
        add([[7, 7, 7, 1], [7, 7, 1, 7], [7, 1, 7, 7], [1, 7, 7, 7]], mz)
        add([[1, 2, 3, 4], [2, 3, 4, 5], [3, 4, 5, 6], [4, 5, 6, 8]], mz)
    return out


# ---------------------------------------------------------------- the implementation
def to_input(case):
    sh = case["shift"]
    if case["as_float"] or sh:
        return [[x / (1 << sh) for x in row] for row in case["num"]]   # exact: |x| < 2^53, power-of-two divisor
    return [list(row) for row in case["num"]]


def call_impl(case):
    from solvor.hungarian import solve_hungarian

    r = solve_hungarian(to_input(case), minimize=case["minimize"])
    return {"solution": r.solution, "objective": r.objective, "iterations": r.iterations, "status": getattr(r.status, "name", str(r.status))}


def run_one(case):
    res = guarded(call_impl, case, timeout=TIMEOUT)
    if res[0] != "ok":
        return {"outcome": res[0], "detail": list(res[1:])}
    v = res[1]
    sol = v["solution"]
    canon = None
    if isinstance(sol, list) and all(isinstance(x, int) and not isinstance(x, bool) for x in sol):
        canon = list(sol)
    obj = v["objective"]
    objs = None   # objective scaled by 2^shift, as an int, if it is one
    if isinstance(obj, (int, float)) and not isinstance(obj, bool) and obj == obj and abs(obj) != float("inf"):
        fr = Fraction(obj) * (1 << case["shift"])
        if fr.denominator == 1:
            objs = int(fr)
    return {"outcome": "ok", "solution": canon, "raw_solution": repr(sol)[:200], "objective": repr(obj), "obj_scaled": objs,
            "iterations": v["iterations"], "status": v["status"]}


# ---------------------------------------------------------------- independent oracle (the property itself)
def best_value(num, minimize, enum_limit):
    """Optimum of sum over a matching of size min(rows, cols), on the integer numerators.  Enumeration of
    injections when small, DP over column subsets otherwise.  Returns (value, method)."""
    nr = len(num)
    nc = len(num[0]) if nr else 0
    if nr == 0 or nc == 0:
        return 0, "empty"
    sgn = 1 if minimize else -1
    if nr <= nc:
        small, large, get = nr, nc, (lambda a, b: num[a][b])
    else:
        small, large, get = nc, nr, (lambda a, b: num[b][a])
    if large <= enum_limit:
        best = None
        for perm in itertools.permutations(range(large), small):
            s = 0
            for a in range(small):
                s += get(a, perm[a])
            s *= sgn
            if best is None or s < best:
                best = s
        return sgn * best, "enum"
    INF = float("inf")
    dp = {0: 0}
    for a in range(small):
        nd = {}
        for mask, val in dp.items():
            for b in range(large):
                if not mask >> b & 1:
                    m2 = mask | 1 << b
                    c = val + sgn * get(a, b)
                    if c < nd.get(m2, INF):
                        nd[m2] = c
        dp = nd
    return sgn * min(dp.values()), "dp"


def oracle(case, out, enum_limit=6):
    """None if the implementation's output obeys C10 on this case, else (clause, description)."""
    num = case["num"]
    nr = len(num)
    nc = len(num[0]) if nr else 0
    if out["outcome"] != "ok":
        return ("returns", f"implementation {out['outcome']}: {out.get('detail')}")
    a = out["solution"]
    if a is None:
        return ("shape", f"solution is not a list of ints: {out['raw_solution']}")
    if len(a) != nr:
        return ("length", f"assignment has {len(a)} entries for {nr} rows: {a}")
    for i, x in enumerate(a):
        if x != -1 and not (0 <= x < nc):
            return ("range", f"assignment[{i}] = {x} is neither -1 nor a column index < {nc}")
    cols = [x for x in a if x != -1]
    if len(set(cols)) != len(cols):
        return ("injective", f"a column is used twice: {a}")
    if len(cols) != min(nr, nc):
        return ("count", f"{len(cols)} rows assigned, expected min(rows, cols) = {min(nr, nc)}: {a}")
    s = sum(num[i][x] for i, x in enumerate(a) if x != -1)
    if out["obj_scaled"] is None or out["obj_scaled"] != s:
        return ("objective", f"objective {out['objective']} is not the sum of the chosen entries ({Fraction(s, 1 << case['shift'])})")
    best, _ = best_value(num, case["minimize"], enum_limit)
    if s != best:
        return ("optimal", f"objective {Fraction(s, 1 << case['shift'])} but the {'minimum' if case['minimize'] else 'maximum'} over all matchings is {Fraction(best, 1 << case['shift'])}")
    return None


def judge(item):
    case, enum_limit = item
    out = run_one(case)
    return out, oracle(case, out, enum_limit)


def shrink(case, enum_limit, budget_s=20.0):
    """Greedy: drop rows / columns, then move entries towards 0, while the oracle still complains."""
    import time
    t_end = time.time() + budget_s

    def bad(c):
        if not c["num"] or not c["num"][0] or time.time() > t_end:
            return False
        return oracle(c, run_one(c), enum_limit) is not None

    cur = case
    changed = True
    while changed:
        changed = False
        num = cur["num"]
        for i in range(len(num)):
            c = dict(cur, num=num[:i] + num[i + 1:])
            if bad(c):
                cur, changed = c, True
                break
        if changed:
            continue
        for j in range(len(num[0])):
            c = dict(cur, num=[r[:j] + r[j + 1:] for r in num])
            if bad(c):
                cur, changed = c, True
                break
        if changed:
            continue
        for i in range(len(num)):
            for j in range(len(num[0])):
                x = num[i][j]
                for y in ([0] if x else []) + ([x - 1] if x > 0 else [x + 1] if x < 0 else []):
                    if y == x:
                        continue
                    n2 = [list(r) for r in num]
                    n2[i][j] = y
                    c = dict(cur, num=n2)
                    if bad(c):
                        cur, changed = c, True
                        break
                if changed:
                    break
            if changed:
                break
    return cur


# ---------------------------------------------------------------- Coq terms
def cmat(num):
    return clist(num, lambda r: clist(r, cz))


def coq_case(case, out):
    a = out.get("solution") if out["outcome"] == "ok" else None
    objs = out.get("obj_scaled") if out["outcome"] == "ok" else None
    if a is None or objs is None:
        obs = "None"
    else:
        obs = f"(Some ({clist(a, cz)}, {cz(objs)}))"
    return f"(({cmat(case['num'])}, {cbool(case['minimize'])}), {obs})"


CASE_T = "(list (list Z) * bool) * option (list Z * Z)"
CHK_MODEL = "fun c => match snd c with Some o => obs_eqb (solve (fst (fst c)) (snd (fst c))) o | None => false end"
CHK_SPEC = "fun c => match snd c with Some o => spec_check (fst (fst c)) o | None => false end"
CHK_CERT = "fun c => solve_cert (fst (fst c)) (snd (fst c))"


def _corpus():
    d = VERIF / "corpus" / "C10"
    out = []
    if d.exists():
        for f in sorted(d.glob("*.json")):
            o = json.loads(f.read_text())
            out.append({"num": o["num"], "shift": o.get("shift", 0), "minimize": o.get("minimize", True),
                        "as_float": o.get("as_float", False), "kind": "corpus:" + f.stem})
    return out


def _canon(case):
    return json.dumps([case["num"], case["shift"], case["minimize"]])


def run(ctx: Ctx):
    big = ctx.tier == "thorough"
    enum_limit = 7 if big else 6
    ctx.rule = ("cost matrices r x c (r, c in 1..6 quick / 1..7 thorough for the enumeration oracle, tail to 9 / 12 judged by a subset DP; "
                "0x0, rx0, 1xn, nx1; square, rows>cols, cols>rows), entries from tiny integer ranges with many ties (constant, duplicate "
                "rows/cols, rank-one a_i+b_j, 0/1), negative-only, positive-only, |c|<=1e6, dyadic k/2^s; minimize and maximize; ints and "
                "floats. non-trivial = at least 2 rows and 2 columns and the inner while loop ran more often than there are padded rows "
                "(some augmenting path went through an already matched column; read from Result.iterations); distinct = (matrix, shift, minimize)")
    ctx.notes += [
        "float idealisation: the code only adds, subtracts and compares costs; all operations are linear in the cost entries, so "
        "running it on k/2^s equals running it on the integers k and dividing potentials/slacks/objective by 2^s; binary64 is exact on "
        "these values (|k| <= 1e6, s <= 4, sums of at most a few hundred terms, far below 2^53). The model runs over Z on the numerators; "
        "the assignment is compared exactly and the objective after multiplying the float by 2^s (exact Fraction arithmetic).",
        "float('inf') is modelled as None; an update with an infinite delta (nan arithmetic) and fuel exhaustion of the two while loops "
        "(fuel n+1) are the error value None of the model; C10_matching proves neither happens.",
        "well-formedness: every row has the length of the first row (ragged inputs raise IndexError or ignore trailing entries; outside the property).",
        "optimality for sizes above the enumeration limit is judged by an exact DP over column subsets (independent of the model); "
        "C10_optimal proves optimality of the MODEL's answer for every matrix; cert_check (dual feasibility + tightness of the model's FINAL "
        "potentials, by vm_compute in coqc) is kept as a redundant per-run certificate; the correspondence lemma shows the model's answer "
        "equal to the implementation's answer on the cases of this run.",
        "Result.iterations / evaluations / status are not part of the property and not compared (iterations is used only to classify cases).",
    ]
    ctx.proof_step(["C10"])

    cases = _corpus() + fixed_cases() + [gen_case(ctx.rng, big) for _ in range(ctx.budget(600, 6000))]
    results = pmap(judge, [(c, enum_limit) for c in cases])

    coq_cases, metas = [], []
    spec_cases = []
    for case, (out, bad) in zip(cases, results):
        ctx.evaluations += 1
        num = case["num"]
        nr = len(num)
        nc = len(num[0]) if nr else 0
        ctx.count("shape", "square" if nr == nc else ("rows>cols" if nr > nc else "cols>rows"))
        ctx.count("n", max(nr, nc))
        ctx.count("kind", case["kind"].split(":")[0])
        ctx.count("minimize", case["minimize"])
        ctx.count("outcome", out["outcome"] if out["outcome"] != "ok" else out.get("status"))
        if bad:
            if len(ctx.violations) >= 5:
                ctx.count("violations_not_listed", bad[0])
            else:
                small = shrink(case, enum_limit, 20.0 if len(ctx.violations) < 2 else 3.0)
                o2 = run_one(small)
                b2 = oracle(small, o2, enum_limit) or bad
                ctx.violation(f"solve_hungarian violates C10 ({b2[0]}): {b2[1]}",
                              {"case": small, "input": repr(to_input(small)), "impl": o2, "original_case": case})
        else:
            best, how = best_value(num, case["minimize"], enum_limit) if nr and nc else (0, "empty")
            ctx.count("optimum_by", how)
        if out["outcome"] == "ok" and nr >= 2 and nc >= 2 and out["iterations"] > max(nr, nc):
            ctx.nontriv(_canon(case))
        ctx.sample({"matrix": to_input(case), "minimize": case["minimize"], "solution": out.get("solution"), "objective": out.get("objective")})
        coq_cases.append(coq_case(case, out))
        metas.append((case, out))
        spec_cases.append(coq_case(case, out))
    failing = ctx.coq_check("corr", IMPORTS, CASE_T, CHK_MODEL, coq_cases)
    ctx.traces_validated += len(coq_cases) - len(failing)
    spec_failing = ctx.coq_check("spec", IMPORTS, CASE_T, CHK_SPEC, spec_cases)
    cert_failing = ctx.coq_check("cert", IMPORTS, CASE_T, CHK_CERT, coq_cases)
    ctx.count("coq", "corr_fail", len(failing))
    ctx.count("coq", "spec_fail", len(spec_failing))
    ctx.count("coq", "cert_fail", len(cert_failing))

    if spec_failing and not ctx.violations:
        # the Coq checker rejects an output the Python oracle accepted: the two definitions of the property disagree
        ctx.violation("Coq spec_check rejects an implementation output that the Python oracle accepted",
                      {"lemma": "Cases/C10/spec_*.v corr", "first_case": spec_cases[spec_failing[0]]}, no_input=True)

    disagree = [metas[i] for i in failing]
    if (disagree or cert_failing or ctx.broken) and not ctx.violations:
        found = None
        seeds = [m[0] for m in disagree[:20]]
        extra = []
        for c in seeds:            # neighbourhood of the disagreeing inputs
            for _ in range(200):
                n2 = [list(r) for r in c["num"]]
                if n2 and n2[0]:
                    i, j = ctx.rng.randrange(len(n2)), ctx.rng.randrange(len(n2[0]))
                    n2[i][j] += ctx.rng.choice([-2, -1, 1, 2])
                extra.append(dict(c, num=n2, minimize=ctx.rng.random() < 0.5))
        extra += [gen_case(ctx.rng, True) for _ in range(20000)]
        for (out, bad), c in zip(pmap(judge, [(c, 7) for c in extra]), extra):
            if bad:
                found = (c, out, bad)
                break
        if found:
            c, out, bad = found
            small = shrink(c, 7)
            o2 = run_one(small)
            b2 = oracle(small, o2, 7) or bad
            ctx.violation(f"solve_hungarian violates C10 ({b2[0]}): {b2[1]}", {"case": small, "input": repr(to_input(small)), "impl": o2})
        else:
            for case, out in disagree[:1]:
                model = ctx.coq_eval("corr_show", IMPORTS, f"solve {cmat(case['num'])} {cbool(case['minimize'])}")
                ctx.violation("correspondence lemma corr: model SV.C10.Hungarian.solve and solve_hungarian differ (observable: assignment, objective); "
                              "both outputs satisfy the property on every input tried",
                              {"case": case, "input": repr(to_input(case)), "impl": out, "model": model, "lemma": "Cases/C10/corr_*.v corr"}, no_input=True)
            if cert_failing and not disagree:
                case, out = metas[cert_failing[0]]
                ctx.violation("cert lemma: the model's final potentials are not an optimality certificate (model no longer matches C10_optimal)",
                              {"case": case, "lemma": "Cases/C10/cert_*.v corr"}, no_input=True)


def replay(obj):
    case = obj.get("case")
    if not case:
        print("replay names an unchecked obligation:", obj.get("unchecked") or obj.get("what"))
        return 1
    out = run_one(case)
    bad = oracle(case, out, 7)
    print("input:", to_input(case), "minimize =", case["minimize"])
    print("implementation:", out)
    print("oracle verdict:", bad or "ok")
    return 1 if bad else 0
