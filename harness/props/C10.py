"""C10 - Hungarian assignment is a matching of optimal total cost.

Tie to /repo: solvor.hungarian.solve_hungarian (working tree) is run on generated cost matrices; the Gallina
model SV.C10.Hungarian.solve is evaluated on the same matrices inside coqc (vm_compute) and must return
the SAME assignment and objective.  Independently of the model, (a) a Python oracle (injection enumeration
up to 6x6 / 7x7, subset DP beyond) judges matching validity, objective sum and optimality of the
implementation's output, (b) the Coq boolean spec_check (proved sound w.r.t. matching_spec/objective_spec)
judges the implementation's outputs inside coqc, (c) the model's final potentials are checked as an
LP-duality certificate (cert_check) per case.

Inputs are matrices of dyadic rationals num / 2^shift.  The implementation gets Python ints (shift = 0,
as_float = False) or floats; the model gets the integer matrix `num` (see ctx.notes for why that is exact).

Round-2 hardening families (HARDENING.md): M magnitudes (k*2^e up to 2^200, 1e9, 2^44+k, 1+k*2^-42 and other
differences of 1e-13..1e-9, and an INEXACT stream - ints beyond 2^53, decimal floats - judged with the 1e-9
tolerance and kept out of the Coq correspondence), I containers (tuples, ranges, array.array, deque, a minimal
user Sequence, shared row objects), S structured instances of 17..257 rows with the optimum known by
construction, O `minimize` given as 0/1, A input-not-modified + repeated / interleaved calls on one object,
H event-directed search with an instrumented reference port (long augmenting paths, all matched columns
visited, negative first delta, slack relaxations that improve a finite slack, ties).
Round 3: W work volume (product-form c_ij = a_i*b_j with increasing a, b: n(n+1)/2 rounds of the inner while loop, optimum by
the rearrangement inequality; 1 x n / n x 1; crossing 2^7 .. 10^5 rounds), A2 in-place edits of the caller's list between two
calls (set entry, replace row, append / pop row or column) compared with a fresh deep copy, helpers.assignment_cost on the
same objects, X float extremes (-0.0, +-2^56 + k*2^8 cancellation, ~1e308 overflow, +-inf, NaN).
"""
import itertools
import json
from fractions import Fraction

from harness.core import Ctx, VERIF, cz, cbool, clist, guarded, pmap

ID = "C10"
ANCHORS = ["solvor/hungarian.py", "solvor/utils/helpers.py"]
IMPORTS = "From SV Require Import C10.Hungarian C10.HungarianSpec."
TIMEOUT = 1.0   # seconds per call; a 12x12 instance takes < 5 ms


# ---------------------------------------------------------------- generators
def _entries(rng, kind, nr, nc):
    if kind == "small":
        return [[rng.randint(-3, 3) for _ in range(nc)] for _ in range(nr)], 0
    if kind == "wide":
        return [[rng.randint(-9, 9) for _ in range(nc)] for _ in range(nr)], 0
    if kind == "bits":
        return [[rng.randint(0, 1) for _ in range(nc)] for _ in range(nr)], 0
    if kind == "neg":
        return [[rng.randint(-9, -1) for _ in range(nc)] for _ in range(nr)], 0
    if kind == "pos":
        return [[rng.randint(1, 9) for _ in range(nc)] for _ in range(nr)], 0
    if kind == "const":
        c = rng.randint(-4, 4)
        return [[c] * nc for _ in range(nr)], 0
    if kind == "duprows":
        base = [[rng.randint(-4, 4) for _ in range(nc)] for _ in range(max(1, nr // 2))]
        return [list(rng.choice(base)) for _ in range(nr)], 0
    if kind == "dupcols":
        base = [[rng.randint(-4, 4) for _ in range(nr)] for _ in range(max(1, nc // 2))]
        cols = [rng.choice(base) for _ in range(nc)]
        return [[cols[j][i] for j in range(nc)] for i in range(nr)], 0
    if kind == "rank1":   # c_ij = a_i + b_j: every perfect matching is optimal, all reduced costs tie
        a = [rng.randint(-4, 4) for _ in range(nr)]
        b = [rng.randint(-4, 4) for _ in range(nc)]
        return [[a[i] + b[j] for j in range(nc)] for i in range(nr)], 0
    if kind == "big":
        return [[rng.randint(-10**6, 10**6) for _ in range(nc)] for _ in range(nr)], 0
    if kind == "dyadic":
        sh = rng.randint(1, 4)
        return [[rng.randint(-24, 24) for _ in range(nc)] for _ in range(nr)], sh
    raise ValueError(kind)


KINDS = ["small", "small", "wide", "wide", "bits", "neg", "pos", "const", "duprows", "dupcols", "rank1", "big", "dyadic", "dyadic"]


def gen_case(rng, big=False):
    r = rng.random()
    hi = 7 if big else 6
    if r < 0.35:
        nr = nc = rng.randint(1, hi)
    elif r < 0.85:
        nr, nc = rng.randint(1, hi), rng.randint(1, hi)
    elif r < 0.93:
        nr, nc = rng.choice([(1, rng.randint(1, 9)), (rng.randint(1, 9), 1)])
    else:
        top = 12 if big else 9
        nr, nc = rng.randint(hi + 1, top), rng.randint(2, top)
        if rng.random() < 0.5:
            nr, nc = nc, nr
    if rng.random() < 0.02:          # r x 0 (and 0 x 0): every row stays unassigned
        nr, nc = rng.randint(0, 5), 0
    kind = rng.choice(KINDS)
    num, sh = _entries(rng, kind, nr, nc)
    return {"num": num, "shift": sh, "minimize": rng.random() < 0.5, "as_float": sh > 0 or rng.random() < 0.5, "kind": kind}


# ---------------------------------------------------------------- round-2 families (HARDENING.md)
def _shape(rng, hi=5):
    r = rng.random()
    if r < 0.4:
        n = rng.randint(1, hi)
        return n, n
    return rng.randint(1, hi), rng.randint(1, hi)


def gen_magnitude(rng):
    """M, exact stream: every intermediate value of the algorithm is exactly representable in binary64."""
    nr, nc = _shape(rng)
    fam = rng.choice(["pow", "pow", "1e9", "2p31", "2p44", "2p53row", "tiny42", "tiny42", "tiny", "tiny"])
    sh = 0
    if fam == "pow":          # small multiples of a large power of two: 2^31 .. 2^200 (>= 1e18 from 2^60 on)
        e = rng.choice([31, 40, 50, 53, 60, 60, 62, 63, 64, 80, 200])
        lo = rng.choice([-9, -3, 0, 1])
        num = [[rng.randint(lo, 9) << e for _ in range(nc)] for _ in range(nr)]
    elif fam == "1e9":        # products would overflow 2^53, sums do not
        num = [[rng.choice([10**9, -10**9, 2 * 10**9, 10**9 + 7, 999999937]) + rng.randint(-3, 3) for _ in range(nc)] for _ in range(nr)]
    elif fam == "2p31":
        num = [[rng.choice([2**31, -2**31, 2**31 - 1, 2**32, 2**31 + 1]) * rng.randint(-2, 2) + rng.randint(-1, 1) for _ in range(nc)] for _ in range(nr)]
    elif fam == "2p44":       # huge + tiny in one number
        num = [[rng.choice([2**44, -2**44, 2**45, 0]) + rng.randint(-5, 5) for _ in range(nc)] for _ in range(nr)]
    elif fam == "2p53row":    # at the edge of exact integers: a single row or column, no sums beyond one entry
        k = rng.randint(1, 6)
        vals = [2**52 + rng.randint(-6, 6) for _ in range(k)]     # sums of two entries are still exact
        num = [vals] if rng.random() < 0.5 else [[x] for x in vals]
    elif fam == "tiny42":     # entries that differ by less than 1e-12: base + k * 2^-42
        sh = 42
        base = rng.choice([0, 1, 1, 2, 7, 64, -1, -64])
        num = [[base * 2**sh + rng.randint(-6, 6) for _ in range(nc)] for _ in range(nr)]
    else:                     # differences between 1e-16 and 1e-9 around moderate values
        sh = rng.choice([30, 33, 35, 38, 40, 45, 48])
        base = rng.choice([0, 1, 3, 16, -5])
        while (abs(base) + 2) * 2**sh * (2 * (nr + nc) + 2) >= 2**53:     # keep every path sum / potential exactly representable
            sh -= 1
        num = [[(base + rng.randint(0, 1)) * 2**sh + rng.randint(-4, 4) for _ in range(nc)] for _ in range(nr)]
    as_float = True if sh else rng.choice([True, False, "mixed"])
    return {"num": num, "shift": sh, "minimize": rng.random() < 0.5, "as_float": as_float, "kind": "M:" + fam}


def gen_inexact(rng):
    """M, inexact stream: exact VALUES of the inputs are known (ints / the rational value of each float) but the float
    computation rounds; judged with the 1e-9 tolerance, not part of the Coq correspondence."""
    nr, nc = _shape(rng, 4)
    fam = rng.choice(["int_1e18", "int_2p53", "int_mixed", "decimal", "decimal", "decimal_small"])
    if fam == "int_1e18":
        num = [[10**18 * rng.randint(1, 9) + rng.randint(-10**6, 10**6) for _ in range(nc)] for _ in range(nr)]
        sh, af = 0, False
    elif fam == "int_2p53":
        num = [[2**53 + rng.randint(-3, 3) + rng.choice([0, 2**53]) for _ in range(nc)] for _ in range(nr)]
        sh, af = 0, False
    elif fam == "int_mixed":
        num = [[rng.choice([2**60, -2**60, 2**61, 10**18, 1, 0, -1, 3]) for _ in range(nc)] for _ in range(nr)]
        sh, af = 0, rng.choice([False, "mixed"])
    else:
        pool = ([0.1, 0.2, 0.3, 0.7, 1.1, 2.675, 0.30000000000000004, 1e-9, 0.1 + 0.2, 1 / 3] if fam == "decimal"
                else [1e-12, 3e-12, 1e-10, 1e-9, 2e-9, 1 + 1e-12, 1 + 1e-9, 1.0])
        vals = [[rng.choice(pool) * rng.choice([1, 1, -1, 2]) for _ in range(nc)] for _ in range(nr)]
        frs = [[Fraction(x) for x in r] for r in vals]
        sh = max(f.denominator.bit_length() - 1 for r in frs for f in r)
        num = [[int(f * (1 << sh)) for f in r] for r in frs]
        af = True
    return {"num": num, "shift": sh, "minimize": rng.random() < 0.5, "as_float": af, "kind": "Mx:" + fam, "inexact": True, "nocoq": True}


CONTAINERS = ["tuple", "list_of_tuples", "range", "array", "deque", "seq", "shared"]


def gen_iterable(rng):
    """I / A: the same kind of matrices handed over in other Sequence types; shared row objects."""
    cont = rng.choice(CONTAINERS)
    c = gen_case(rng)
    if cont == "range":     # rows are arithmetic progressions
        nr, nc = _shape(rng, 6)
        nc = max(nc, 2)
        num = []
        for _ in range(nr):
            a, d = rng.randint(-9, 9), rng.choice([-3, -2, -1, 1, 2, 3])
            num.append([a + d * j for j in range(nc)])
        c = {"num": num, "shift": 0, "minimize": rng.random() < 0.5, "as_float": False, "kind": "range"}
    elif cont == "shared":
        nr, nc = _shape(rng, 6)
        num, _ = _entries(rng, "duprows", max(nr, 2), nc)
        c = {"num": num, "shift": 0, "minimize": rng.random() < 0.5, "as_float": rng.random() < 0.5, "kind": "duprows"}
    c["container"] = cont
    c["kind"] = "I:" + cont
    return c


def gen_option(rng):
    """O / A: `minimize` given as 0 / 1, and interleaved calls with both option values on one input object."""
    c = gen_case(rng)
    c["minimize"] = rng.choice([0, 1, True, False])
    c["seq"] = rng.choice(["plain", "flipped_first"])
    c["kind"] = "O:" + type(c["minimize"]).__name__ + ":" + c["seq"]
    return c


def gen_structured(rng, nr, nc, minimize, coq):
    """S: the optimum is known by construction.  c_ij = a_i + b_j + e_ij with e = 0 on the planted matching and e >= 1
    elsewhere (b = 0 for rectangular shapes so that the choice of columns / rows does not matter); negated for maximize."""
    small = min(nr, nc)
    a = [rng.randint(-50, 50) for _ in range(nr)]
    b = [rng.randint(-50, 50) if nr == nc else 0 for _ in range(nc)]
    if nr != nc:
        a = [rng.randint(-50, 50) if nr <= nc else 0 for _ in range(nr)]
        b = [rng.randint(-50, 50) if nc < nr else 0 for _ in range(nc)]
    if nr <= nc:
        cols = rng.sample(range(nc), nr)
        assign = cols
    else:
        rows = rng.sample(range(nr), nc)
        assign = [-1] * nr
        for j, i in enumerate(rows):
            assign[i] = j
    num = [[a[i] + b[j] + (0 if assign[i] == j else rng.randint(1, 9)) for j in range(nc)] for i in range(nr)]
    opt = sum(num[i][assign[i]] for i in range(nr) if assign[i] != -1)
    if not minimize:
        num = [[-x for x in r] for r in num]
        opt = -opt
    c = {"num": num, "shift": 0, "minimize": minimize, "as_float": rng.random() < 0.5, "kind": f"S:{max(nr, nc)}",
         "expect_opt": opt, "expect_assign": assign, "big": True, "timeout": 20.0}
    if not coq:
        c["nocoq"] = True
    return c


def structured_cases(rng, big):
    out = []
    for n, coq in [(17, True), (18, True), (33, True), (65, False), (129, False), (257, False)] + ([(400, False)] if big else []):
        out.append(gen_structured(rng, n, n, rng.random() < 0.5, coq))
    for nr, nc, coq in [(17, 40, True), (40, 17, True), (20, 130, False), (130, 20, False), (1, 257, False), (257, 1, False)]:
        out.append(gen_structured(rng, nr, nc, rng.random() < 0.5, coq))
    return out


# ---------------------------------------------------------------- round 3: W work volume, A2 in-place edits, X float extremes
def _increasing(rng, n):
    x, c = [], rng.randint(1, 3)
    for _ in range(n):
        x.append(c)
        c += rng.randint(1, 3)
    return x


def gen_work(rng, nr, nc, minimize, coq=False, plain=False):
    """W: product-form costs c_ij = a_i * b_j with strictly increasing positive a, b.  The e-maxx loop needs i rounds for row i
    (n(n+1)/2 in total, long augmenting paths); by the rearrangement inequality the unique minimum pairs the largest a with the
    smallest b (using the nr smallest columns) and the unique maximum pairs them in order (using the largest columns)."""
    if nr > nc:   # transpose of the nr <= nc construction
        c = gen_work(rng, nc, nr, minimize, coq, plain)
        t = c["num"]
        num = [[t[i][j] for i in range(nc)] for j in range(nr)]
        assign = [-1] * nr
        for i, j in enumerate(c["expect_assign"]):
            assign[j] = i
        return dict(c, num=num, expect_assign=assign)
    a = list(range(1, nr + 1)) if plain else _increasing(rng, nr)
    b = list(range(1, nc + 1)) if plain else _increasing(rng, nc)
    num = [[a[i] * b[j] for j in range(nc)] for i in range(nr)]
    assign = [nr - 1 - i for i in range(nr)] if minimize else [nc - nr + i for i in range(nr)]
    c = {"num": num, "shift": 0, "minimize": minimize, "as_float": rng.random() < 0.5, "kind": "W:product",
         "expect_opt": sum(num[i][assign[i]] for i in range(nr)), "expect_assign": assign, "big": True, "timeout": 120.0}
    if not coq:
        c["nocoq"] = True
    return c


def gen_work_line(rng, n, row, minimize):
    """W: 1 x n / n x 1 (padding to n x n makes the loop do n(n+1)/2 rounds); distinct entries, optimum = min / max entry."""
    vals = rng.sample(range(-3 * n, 3 * n), n)
    best = vals.index(min(vals) if minimize else max(vals))
    if row:
        num, assign = [vals], [best]
    else:
        num = [[x] for x in vals]
        assign = [-1] * n
        assign[best] = 0
    return {"num": num, "shift": 0, "minimize": minimize, "as_float": rng.random() < 0.5, "kind": "W:line", "expect_opt": vals[best],
            "expect_assign": assign, "big": True, "timeout": 120.0, "nocoq": True}


def work_cases(rng, big):
    out = [gen_work(rng, 16, 16, True, coq=True), gen_work(rng, 16, 16, False, coq=True), gen_work(rng, 12, 30, rng.random() < 0.5, coq=True),
           gen_work(rng, 30, 12, rng.random() < 0.5, coq=True)]
    for n in (46, 64, 91, 142):                       # 1081, 2080, 4186, 10153 rounds
        out.append(gen_work(rng, n, n, rng.random() < 0.5, plain=rng.random() < 0.3))
    out.append(gen_work(rng, 60, 142, True))
    out.append(gen_work(rng, 142, 60, rng.random() < 0.5))
    out.append(gen_work_line(rng, 142, True, rng.random() < 0.5))
    out.append(gen_work_line(rng, 142, False, rng.random() < 0.5))
    mz = rng.random() < 0.5
    out.append(gen_work(rng, 450, 450, mz, plain=rng.random() < 0.5))            # 101475 rounds, ~8 s
    if big:
        out.append(gen_work(rng, 450, 450, not mz))
        out.append(gen_work(rng, 640, 640, rng.random() < 0.5))                  # 205120 rounds
        out.append(gen_work_line(rng, 450, True, rng.random() < 0.5))
        out.append(gen_work_line(rng, 450, False, rng.random() < 0.5))
        out.append(gen_work(rng, 300, 450, rng.random() < 0.5))
    return out


def gen_edit(rng):
    """A2: the judged call is the SECOND one on a list that was changed in place after a first call."""
    c = gen_case(rng)
    while not c["num"] or not c["num"][0]:
        c = gen_case(rng)
    num = c["num"]
    nr, nc = len(num), len(num[0])
    ops = ["set", "set", "setrow", "append_row", "pop_row", "append_col", "pop_col"]
    if nr < 2:
        ops = [o for o in ops if o != "append_row"]
    if nc < 2:
        ops = [o for o in ops if o != "append_col"]
    op = rng.choice(ops)
    lo, hi = min(min(r) for r in num) - 3, max(max(r) for r in num) + 3
    if op == "set":
        c["edit"] = ["set", rng.randrange(nr), rng.randrange(nc), rng.randint(lo, hi)]
    elif op == "setrow":
        c["edit"] = ["setrow", rng.randrange(nr), [rng.randint(lo, hi) for _ in range(nc)]]
    elif op == "pop_row":
        c["edit"] = ["pop_row", [rng.randint(lo, hi) for _ in range(nc)]]
    elif op == "pop_col":
        c["edit"] = ["pop_col", [rng.randint(lo, hi) for _ in range(nr)]]
    else:
        c["edit"] = [op]
    c["container"] = "list"
    if rng.random() < 0.4:
        c["seq"] = "plain"
    c["kind"] = "A2:" + op
    return c


def _frepr(x):
    return repr(float(x))


def gen_extreme(rng):
    """X: float extremes."""
    nr, nc = _shape(rng, 4)
    fam = rng.choice(["negzero", "cancel", "cancel", "huge", "big300", "big300", "inf", "inf", "nan"])
    mz = rng.random() < 0.5
    if fam == "negzero":      # exact: -0.0 is the number 0
        pool = [-0.0, 0.0, -0.0, 1.0, -1.0]
        vals = [[rng.choice(pool) for _ in range(nc)] for _ in range(nr)]
        return {"num": [[int(x) for x in r] for r in vals], "floats": [[_frepr(x) for x in r] for r in vals], "shift": 0, "minimize": mz,
                "as_float": True, "kind": "X:negzero"}
    if fam == "cancel":       # exact: +-2^56 + k*2^8 next to small multiples of 2^8 - every path sum is a multiple of 2^8 below 2^61
        num = [[rng.choice([2**56, -2**56, 0, 0]) + 256 * rng.randint(-4, 4) for _ in range(nc)] for _ in range(nr)]
        return {"num": num, "shift": 0, "minimize": mz, "as_float": rng.choice([True, False, "mixed"]), "kind": "X:cancel"}
    if fam == "huge":         # finite, but sums / max_val - c overflow to inf
        pool = [1e308, -1e308, 1.7e308, -1.7e308, 2.0**1023, 1.0, 0.0, -1.0, 5e307]
    elif fam == "big300":     # huge and tiny, no overflow possible with <= 8 terms
        pool = [1e300, -1e300, 3e300, 2.5e299, 1e-300, -1e-300, 5e-324, 1.0, 0.0, -2.0]
    elif fam == "inf":
        sign = rng.choice([1, -1])
        pool = [sign * float("inf")] * 2 + [0.0, 1.0, 2.0, -3.0, 5.0]
    else:
        pool = [float("nan")] + [0.0, 1.0, 2.0, -3.0, 5.0] * rng.choice([1, 1, 0])
    vals = [[rng.choice(pool) for _ in range(nc)] for _ in range(nr)]
    return {"num": [[0] * nc for _ in range(nr)], "floats": [[_frepr(x) for x in r] for r in vals], "shift": 0, "minimize": mz, "as_float": True,
            "kind": "X:" + fam, "xkind": fam, "nocoq": True}


def observation_only(case):
    """POLICY_X: (a) NaN / inf entries, (b) finite entries so large that the algorithm's own sums overflow, (c) integer inputs whose exact
    sums do not fit in 2^53 for this float-by-design API - generated, run under the guard, counted, never judged."""
    return case.get("xkind") in ("huge", "inf", "nan") or case["kind"].startswith("Mx:int_")


def oracle_extreme(case, out, a):
    """Non-finite / overflowing inputs: the call must return, the result must be a matching (checked by the caller), the objective
    must be the float sum of the chosen entries, and - where the extended-real value of every matching is defined - optimal."""
    import math
    vals = [[float(x) for x in r] for r in case["floats"]]
    nr, nc = len(vals), len(vals[0])
    fsum = 0.0
    for i, x in enumerate(a):
        if x != -1:
            fsum += vals[i][x]
    obj = float(out["objective"])
    if not (obj == fsum or (obj != obj and fsum != fsum)):
        # an overflowed running sum may differ from the exact one: accept the exact rational sum within 1e-9 relative as well
        ok = False
        if all(math.isfinite(vals[i][x]) for i, x in enumerate(a) if x != -1) and math.isfinite(obj):
            ex = sum(Fraction(vals[i][x]) for i, x in enumerate(a) if x != -1)
            ok = abs(Fraction(obj) - ex) <= abs(ex) / 10**9
        if not ok:
            return ("objective", f"objective {out['objective']} is not the sum of the chosen entries ({fsum!r})")
    if any(x != x for r in vals for x in r):
        return None                                  # NaN: no order, optimality undefined

    def ext(assign_pairs):
        pos = sum(1 for i, j in assign_pairs if vals[i][j] == math.inf)
        neg = sum(1 for i, j in assign_pairs if vals[i][j] == -math.inf)
        if pos and neg:
            return None
        if pos:
            return (1, Fraction(0))
        if neg:
            return (-1, Fraction(0))
        return (0, sum((Fraction(vals[i][j]) for i, j in assign_pairs), Fraction(0)))

    small = min(nr, nc)
    best = None
    if nr <= nc:
        cands = ([(i, perm[i]) for i in range(nr)] for perm in itertools.permutations(range(nc), small))
    else:
        cands = ([(perm[j], j) for j in range(nc)] for perm in itertools.permutations(range(nr), small))
    for pairs in cands:
        e = ext(pairs)
        if e is None:
            return None                              # inf - inf somewhere: undefined
        key = e if case["minimize"] else (-e[0], -e[1])
        if best is None or key < best:
            best = key
    mine = ext([(i, x) for i, x in enumerate(a) if x != -1])
    mine = mine if case["minimize"] else (-mine[0], -mine[1])
    scale = max([Fraction(1)] + [abs(Fraction(x)) for r in vals for x in r if math.isfinite(x)])
    if mine[0] != best[0] or abs(mine[1] - best[1]) > scale * (nr + nc) / 10**9:
        return ("optimal", f"the chosen entries sum to {fsum!r}; a better matching exists (extended-real comparison, tolerance 1e-9 relative)")
    return None


# ---------------------------------------------------------------- H: instrumented reference port (events only; it judges nothing)
def port_events(num, minimize):
    """A direct port of the e-maxx loop on exact integers that reports rare internal events."""
    nr = len(num)
    nc = len(num[0]) if nr else 0
    ev = {}
    if not nr or not nc:
        return ev
    n = max(nr, nc)
    mv = max(x for r in num for x in r)
    C = [[(num[i][j] if minimize else mv - num[i][j]) if i < nr and j < nc else 0 for j in range(n)] for i in range(n)]
    u = [0] * (n + 1)
    v = [0] * (n + 1)
    p = [0] * (n + 1)
    way = [0] * (n + 1)
    INF = None
    rematch = [0] * (n + 1)

    def hit(k, val=1):
        ev[k] = max(ev.get(k, 0), val)

    for i in range(1, n + 1):
        p[0] = i
        j0 = 0
        minv = [INF] * (n + 1)
        used = [False] * (n + 1)
        rounds = zero = improve = 0
        while p[j0] != 0:
            rounds += 1
            used[j0] = True
            i0 = p[j0]
            delta = INF
            j1 = 0
            for j in range(1, n + 1):
                if not used[j]:
                    cur = C[i0 - 1][j - 1] - u[i0] - v[j]
                    if minv[j] is INF or cur < minv[j]:
                        if minv[j] is not INF:
                            improve += 1
                            hit("improve_small" if minv[j] - cur <= 1 else "improve")
                        minv[j] = cur
                        way[j] = j0
                    elif cur == minv[j]:
                        hit("relax_tie")
                    if delta is INF or minv[j] < delta:
                        delta = minv[j]
                        j1 = j
                    elif minv[j] == delta:
                        hit("delta_tie")
            if delta < 0:
                hit("neg_delta_first" if rounds == 1 else "neg_delta_later")
            if delta == 0:
                zero += 1
            for j in range(n + 1):
                if used[j]:
                    u[p[j]] += delta
                    v[j] -= delta
                else:
                    if minv[j] is not INF:
                        minv[j] -= delta
            j0 = j1
        hit("rounds", rounds)
        if rounds == i and i >= 3:
            hit("rounds_all", i)
        hit("zero_deltas", zero)
        hit("improves", improve)
        plen = 0
        while j0:
            j1 = way[j0]
            if p[j1] > nr or j0 > nc:
                hit("dummy_on_path")
            p[j0] = p[j1]
            rematch[p[j0]] += 1
            j0 = j1
            plen += 1
        hit("path", plen)
        ev["augment_total"] = ev.get("augment_total", 0) + plen
        ev["rounds_total"] = ev.get("rounds_total", 0) + rounds
    hit("rematch", max(rematch))
    return ev


def event_keys(ev):
    ks = set()
    for k, val in ev.items():
        if k in ("augment_total", "rounds_total"):
            continue
        if k in ("path", "rounds", "rounds_all", "zero_deltas", "improves", "rematch"):
            for t in range(3, min(val, 9) + 1):
                ks.add(f"{k}>={t}")
        else:
            ks.add(k)
    return ks


def event_directed(rng, budget, climb):
    """Random candidates + hill climbing on (path length, rounds, improvements); keep per event the smallest witnesses."""
    best = {}          # event key -> list of (size, case)
    pool = []

    def consider(c):
        ev = port_events(c["num"], c["minimize"])
        ks = event_keys(ev)
        size = len(c["num"]) * (len(c["num"][0]) if c["num"] else 0)
        for k in ks:
            lst = best.setdefault(k, [])
            if len(lst) < 3:
                lst.append((size, c))
            else:
                w = max(range(3), key=lambda t: lst[t][0])
                if size < lst[w][0]:
                    lst[w] = (size, c)
        return ev.get("path", 0) * 3 + ev.get("rounds", 0) + ev.get("improves", 0) + 2 * ev.get("zero_deltas", 0), ks

    for _ in range(budget):
        c = gen_case(rng)
        if c["shift"] or not c["num"] or not c["num"][0]:
            continue
        sc, _ = consider(c)
        pool.append((sc, c))
    pool.sort(key=lambda t: -t[0])
    for sc, c in pool[:6]:
        cur, cur_sc = c, sc
        for _ in range(climb):
            n2 = [list(r) for r in cur["num"]]
            i, j = rng.randrange(len(n2)), rng.randrange(len(n2[0]))
            n2[i][j] += rng.choice([-3, -2, -1, 1, 2, 3])
            c2 = dict(cur, num=n2)
            sc2, _ = consider(c2)
            if sc2 >= cur_sc:
                cur, cur_sc = c2, sc2
    out, seen = [], set()
    for k in sorted(best):
        for _, c in best[k]:
            key = _canon(c)
            if key not in seen:
                seen.add(key)
                out.append(dict(c, kind="H:" + k.split(">")[0]))
    return out, {k: len(v) for k, v in best.items()}


def fixed_cases():
    out = []

    def add(num, minimize=True, shift=0, as_float=False, kind="edge"):
        out.append({"num": num, "shift": shift, "minimize": minimize, "as_float": as_float, "kind": kind})

    for mz in (True, False):
        add([], mz)
        add([[]], mz)
        add([[], []], mz)
        add([[], [], []], mz, as_float=True)
        add([[5]], mz)
        add([[-5]], mz, as_float=True)
        add([[0]], mz)
        add([[3, 1, 2]], mz)
        add([[-3, -1, -2]], mz)
        add([[3], [1], [2]], mz)
        add([[-3], [-1], [-2]], mz)
        add([[10, 5, 13], [3, 9, 18], [10, 6, 12]], mz)          # docstring example
        add([[0, 0], [0, 0]], mz)
        add([[1, 2], [3, 4], [0, 0]], mz)
        add([[-1, -2], [-3, -4], [-5, -6]], mz)                   # rows > cols, all negative (padding 0 is the max)
        add([[-1, -2, -3], [-4, -5, -6]], mz)                     # cols > rows, all negative
        add([[5, 5, 5], [5, 5, 5]], mz)
        add([[1, 2, 3], [2, 4, 6], [3, 6, 9]], mz)
        add([[3, 5], [-7, 1]], mz, shift=1, as_float=True)        # 1.5 2.5 / -3.5 0.5
        add([[1, 3, 5, 7], [7, 5, 3, 1], [2, 2, 2, 2]], mz, shift=3, as_float=True)
        add([[4, 1, 3], [2, 0, 5], [3, 2, 2]], mz)
        add([[7, 7, 7, 1], [7, 7, 1, 7], [7, 1, 7, 7], [1, 7, 7, 7]], mz)
        add([[1, 2, 3, 4], [2, 3, 4, 5], [3, 4, 5, 6], [4, 5, 6, 8]], mz)
        # magnitudes: entries >= 1e18 (multiples of 2^60), differences < 1e-12 (k * 2^-42), 2^53 edge, 1e9
        add([[6 << 60, 1 << 60]], mz, as_float=True, kind="M:fixed")
        add([[4 << 60, 1 << 60], [2 << 60, 3 << 60]], mz, kind="M:fixed")
        add([[-(4 << 60), 1 << 60], [2 << 60, -(3 << 60)], [0, 5 << 60]], mz, as_float="mixed", kind="M:fixed")
        add([[2**42 + 2], [2**42 + 3]], mz, shift=42, as_float=True, kind="M:fixed")
        add([[2**42], [2**42 + 1], [2**42 + 1]], mz, shift=42, as_float=True, kind="M:fixed")
        add([[2**42 + 3, 2**42 + 1], [2**42 + 2, 2**42 + 5]], mz, shift=42, as_float=True, kind="M:fixed")
        add([[2**53, 2**53 - 1, 2**53 - 2]], mz, kind="M:fixed")          # one row: single entries only
        add([[10**9, 2 * 10**9], [10**9 + 7, 10**9]], mz, kind="M:fixed")
        add([[2**44 + 1, 2**44], [2**44, 2**44 + 1]], mz, as_float=True, kind="M:fixed")
    return out


# ---------------------------------------------------------------- the implementation
def _values(case):
    if "floats" in case:                                   # X: explicit floats (reprs), incl. -0.0, inf, nan
        return [[float(x) for x in row] for row in case["floats"]]
    return _values_of(case, case["num"])


def _values_of(case, num):
    sh = case["shift"]
    af = case.get("as_float", False)
    rows = []
    for i, row in enumerate(num):
        if sh:
            rows.append([x / (1 << sh) for x in row])            # correctly rounded; exact when representable
        elif af == "mixed":
            rows.append([float(x) if (i + j) % 2 == 0 else x for j, x in enumerate(row)])
        elif af:
            rows.append([float(x) for x in row])
        else:
            rows.append(list(row))
    return rows


class _Seq:
    """A minimal read-only collections.abc.Sequence (len, integer index, iteration) - no list methods."""

    def __init__(self, items):
        self._items = tuple(items)

    def __len__(self):
        return len(self._items)

    def __getitem__(self, i):
        if not isinstance(i, int):
            raise TypeError("only integer indices")
        return self._items[i]

    def __iter__(self):
        return iter(self._items)

    def __eq__(self, other):
        return isinstance(other, _Seq) and self._items == other._items

    def __repr__(self):
        return "Seq" + repr(self._items)


def _register_seq():
    from collections.abc import Sequence
    Sequence.register(_Seq)


def to_input(case):
    rows = _values(case)
    cont = case.get("container", "list")
    if cont == "tuple":
        return tuple(tuple(r) for r in rows)
    if cont == "list_of_tuples":
        return [tuple(r) for r in rows]
    if cont == "range":   # rows that are arithmetic progressions of ints become range objects
        out = []
        for r in rows:
            if len(r) >= 2 and all(isinstance(x, int) for x in r) and r[1] != r[0] and all(r[k + 1] - r[k] == r[1] - r[0] for k in range(len(r) - 1)):
                out.append(range(r[0], r[0] + (r[1] - r[0]) * len(r), r[1] - r[0]))
            else:
                out.append(r)
        return out
    if cont == "array":
        import array
        out = []
        for r in rows:
            if all(isinstance(x, int) and abs(x) < 2**62 for x in r):
                out.append(array.array("q", r))
            elif all(isinstance(x, float) for x in r):
                out.append(array.array("d", r))
            else:
                out.append(r)
        return out
    if cont == "deque":
        from collections import deque
        return deque(deque(r) for r in rows)
    if cont == "seq":
        _register_seq()
        return _Seq(_Seq(r) for r in rows)
    if cont == "shared":  # equal rows are ONE list object
        pool = {}
        return [pool.setdefault(tuple(map(repr, r)), r) for r in rows]
    return rows


def _snapshot(inp):
    return (type(inp).__name__, tuple((type(r).__name__, tuple((type(x).__name__, repr(x)) for x in r)) for r in inp))


def call_impl(case):
    from solvor.hungarian import solve_hungarian

    mz = case["minimize"]

    def obs(r):
        return {"solution": r.solution, "objective": r.objective, "iterations": r.iterations, "status": getattr(r.status, "name", str(r.status))}

    notes = []
    if "edit" in case:
        # A2: call on the matrix BEFORE the edit, change the caller's list in place, call again (this second answer is the one judged)
        final = _values(case)
        op = case["edit"]
        pre = [list(r) for r in final]
        if op[0] == "set":
            pre[op[1]][op[2]] = _values_of(case, [[op[3]]])[0][0]
        elif op[0] == "setrow":
            pre[op[1]] = _values_of(case, [op[2]])[0]
        elif op[0] == "append_row":
            pre.pop()
        elif op[0] == "pop_row":
            pre.append(_values_of(case, [op[1]])[0])
        elif op[0] == "append_col":
            for r in pre:
                r.pop()
        elif op[0] == "pop_col":
            col = _values_of(case, [op[1]])[0]
            for r, x in zip(pre, col):
                r.append(x)
        inp = pre
        solve_hungarian(inp, minimize=mz)
        if case.get("seq"):
            solve_hungarian(inp, minimize=not mz)
        if op[0] == "set":
            inp[op[1]][op[2]] = final[op[1]][op[2]]
        elif op[0] == "setrow":
            inp[op[1]] = list(final[op[1]])
        elif op[0] == "append_row":
            inp.append(list(final[-1]))
        elif op[0] == "pop_row":
            inp.pop()
        elif op[0] == "append_col":
            for r, fr in zip(inp, final):
                r.append(fr[-1])
        elif op[0] == "pop_col":
            for r in inp:
                r.pop()
        assert [[repr(x) for x in r] for r in inp] == [[repr(x) for x in r] for r in final]
    else:
        inp = to_input(case)
    snap = _snapshot(inp)
    if case.get("seq") == "flipped_first" and "edit" not in case:
        solve_hungarian(inp, minimize=not mz)
    v = obs(solve_hungarian(inp, minimize=mz))
    if _snapshot(inp) != snap:
        notes.append(("aliasing", "the caller's cost_matrix was modified by the call"))
    if "edit" in case:
        fresh = obs(solve_hungarian([list(r) for r in inp], minimize=mz))
        if (fresh["solution"], repr(fresh["objective"])) != (v["solution"], repr(v["objective"])):
            notes.append(("call-sequence", f"after the in-place edit {case['edit'][0]} of the caller's matrix the answer is {v['solution']} / {v['objective']!r} "
                                           f"but a fresh deep copy gives {fresh['solution']} / {fresh['objective']!r}"))
    if not case.get("big") and not case.get("inexact") and "floats" not in case and case.get("container", "list") in ("list", "tuple", "list_of_tuples", "shared") \
            and isinstance(v["solution"], list):
        from solvor.utils import assignment_cost
        try:
            ac = assignment_cost(inp, v["solution"])
        except Exception as e:  # noqa: BLE001
            ac = f"{type(e).__name__}: {e}"
        if ac != v["objective"]:
            notes.append(("helpers", f"solvor.utils.assignment_cost(cost_matrix, solution) = {ac!r} but the reported objective is {v['objective']!r}"))
    if not case.get("big"):
        again = obs(solve_hungarian(inp, minimize=mz))                       # same object, second call
        if (again["solution"], repr(again["objective"])) != (v["solution"], repr(v["objective"])):
            notes.append(("call-sequence", f"second call on the same input returns {again['solution']} / {again['objective']!r}"))
        if case.get("seq"):
            solve_hungarian(inp, minimize=not mz)                            # other option in between, same object
            third = obs(solve_hungarian(inp, minimize=mz))
            fresh = obs(solve_hungarian(to_input(case), minimize=mz))        # fresh object
            for name, o in (("after a call with the other `minimize`", third), ("on a fresh copy of the input", fresh)):
                if (o["solution"], repr(o["objective"])) != (v["solution"], repr(v["objective"])):
                    notes.append(("call-sequence", f"{name} the answer is {o['solution']} / {o['objective']!r}"))
        if _snapshot(inp) != snap:
            notes.append(("aliasing", "the caller's cost_matrix was modified by a later call"))
        if isinstance(v["solution"], list) and any(v["solution"] is r for r in inp):
            notes.append(("aliasing", "the returned solution is one of the caller's row objects"))
    v["notes"] = notes
    return v


def run_one(case):
    res = guarded(call_impl, case, timeout=case.get("timeout", TIMEOUT))
    if res[0] != "ok":
        return {"outcome": res[0], "detail": list(res[1:])}
    v = res[1]
    sol = v["solution"]
    canon = None
    if isinstance(sol, list) and all(isinstance(x, int) and not isinstance(x, bool) for x in sol):
        canon = list(sol)
    obj = v["objective"]
    objs = None    # objective scaled by 2^shift, as an int, if it is one
    objx = None    # the same as an exact fraction "p/q" (inexact stream)
    if isinstance(obj, (int, float)) and not isinstance(obj, bool) and obj == obj and abs(obj) != float("inf"):
        fr = Fraction(obj) * (1 << case["shift"])
        objx = f"{fr.numerator}/{fr.denominator}"
        if fr.denominator == 1:
            objs = int(fr)
    return {"outcome": "ok", "solution": canon, "raw_solution": repr(sol)[:200], "objective": repr(obj), "obj_scaled": objs, "obj_exact": objx,
            "iterations": v["iterations"], "status": v["status"], "notes": v["notes"]}


# ---------------------------------------------------------------- independent oracle (the property itself)
def best_value(num, minimize, enum_limit):
    """Optimum of sum over a matching of size min(rows, cols), on the integer numerators.  Enumeration of
    injections when small, DP over column subsets otherwise.  Returns (value, method)."""
    nr = len(num)
    nc = len(num[0]) if nr else 0
    if nr == 0 or nc == 0:
        return 0, "empty"
    sgn = 1 if minimize else -1
    if nr <= nc:
        small, large, get = nr, nc, (lambda a, b: num[a][b])
    else:
        small, large, get = nc, nr, (lambda a, b: num[b][a])
    if large <= enum_limit:
        best = None
        for perm in itertools.permutations(range(large), small):
            s = 0
            for a in range(small):
                s += get(a, perm[a])
            s *= sgn
            if best is None or s < best:
                best = s
        return sgn * best, "enum"
    INF = float("inf")
    dp = {0: 0}
    for a in range(small):
        nd = {}
        for mask, val in dp.items():
            for b in range(large):
                if not mask >> b & 1:
                    m2 = mask | 1 << b
                    c = val + sgn * get(a, b)
                    if c < nd.get(m2, INF):
                        nd[m2] = c
        dp = nd
    return sgn * min(dp.values()), "dp"


def oracle(case, out, enum_limit=6):
    """None if the implementation's output obeys C10 on this case, else (clause, description)."""
    num = case["num"]
    nr = len(num)
    nc = len(num[0]) if nr else 0
    if out["outcome"] != "ok":
        return ("returns", f"implementation {out['outcome']}: {out.get('detail')}")
    a = out["solution"]
    if a is None:
        return ("shape", f"solution is not a list of ints: {out['raw_solution']}")
    if len(a) != nr:
        return ("length", f"assignment has {len(a)} entries for {nr} rows: {a}")
    for i, x in enumerate(a):
        if x != -1 and not (0 <= x < nc):
            return ("range", f"assignment[{i}] = {x} is neither -1 nor a column index < {nc}")
    cols = [x for x in a if x != -1]
    if len(set(cols)) != len(cols):
        return ("injective", f"a column is used twice: {a}")
    if len(cols) != min(nr, nc):
        return ("count", f"{len(cols)} rows assigned, expected min(rows, cols) = {min(nr, nc)}: {a}")
    for clause, what in out.get("notes") or []:
        return (clause, what)
    if case.get("xkind"):
        return oracle_extreme(case, out, a)
    s = sum(num[i][x] for i, x in enumerate(a) if x != -1)
    unit = 1 << case["shift"]
    kind = "minimum" if case["minimize"] else "maximum"
    if case.get("inexact"):
        # entries / sums not exactly representable in binary64: the property's tolerance (1e-9, relative to the scale of the data)
        scale = max([unit] + [abs(x) for r in num for x in r])
        tol = Fraction(scale) * (nr + nc) / 10**9
        if out["obj_exact"] is None or abs(Fraction(out["obj_exact"]) - s) > tol:
            return ("objective", f"objective {out['objective']} differs from the sum of the chosen entries ({float(Fraction(s, unit))!r}) by more than 1e-9 relative")
        best, _ = best_value(num, case["minimize"], enum_limit)
        if abs(s - best) > tol:
            return ("optimal", f"chosen entries sum to {float(Fraction(s, unit))!r} but the {kind} over all matchings is {float(Fraction(best, unit))!r}")
        return None
    if out["obj_scaled"] is None or out["obj_scaled"] != s:
        return ("objective", f"objective {out['objective']} is not the sum of the chosen entries ({Fraction(s, unit)})")
    if "expect_opt" in case:
        best = case["expect_opt"]        # known by construction (structured large instance)
    else:
        best, _ = best_value(num, case["minimize"], enum_limit)
    if s != best:
        return ("optimal", f"objective {Fraction(s, unit)} but the {kind} over all matchings is {Fraction(best, unit)}")
    if "expect_assign" in case and a != case["expect_assign"]:
        return ("optimal", f"the optimum is unique by construction ({case['expect_assign'][:8]}...) but {a[:8]}... was returned")
    return None


def judge(item):
    case, enum_limit = item
    out = run_one(case)
    return out, oracle(case, out, enum_limit)


def shrink(case, enum_limit, budget_s=20.0):
    """Greedy: drop rows / columns, then move entries towards 0, while the oracle still complains."""
    import time
    t_end = time.time() + budget_s

    def bad(c):
        if not c["num"] or not c["num"][0] or time.time() > t_end:
            return False
        return oracle(c, run_one(c), enum_limit) is not None

    cur = case
    changed = "expect_opt" not in case and "floats" not in case and "edit" not in case
    while changed:
        changed = False
        num = cur["num"]
        for i in range(len(num)):
            c = dict(cur, num=num[:i] + num[i + 1:])
            if bad(c):
                cur, changed = c, True
                break
        if changed:
            continue
        for j in range(len(num[0])):
            c = dict(cur, num=[r[:j] + r[j + 1:] for r in num])
            if bad(c):
                cur, changed = c, True
                break
        if changed:
            continue
        for i in range(len(num)):
            for j in range(len(num[0])):
                x = num[i][j]
                # candidates keep the float computation exact: 0, another entry of the matrix, or (only while every path sum
                # stays below 2^53 in units of 2^-shift) one step towards 0
                cands = ([0] if x else []) + [z for z in sorted({w for r in num for w in r}, key=abs) if abs(z) < abs(x)][:2]
                if not case.get("inexact") and (max(abs(w) for r in num for w in r) + 1) * (2 * (len(num) + len(num[0])) + 2) < 2**53:
                    cands += [x - 1] if x > 0 else [x + 1] if x < 0 else []
                for y in cands:
                    if y == x:
                        continue
                    n2 = [list(r) for r in num]
                    n2[i][j] = y
                    c = dict(cur, num=n2)
                    if bad(c):
                        cur, changed = c, True
                        break
                if changed:
                    break
            if changed:
                break
    return cur


# ---------------------------------------------------------------- Coq terms
def cmat(num):
    return clist(num, lambda r: clist(r, cz))


def coq_case(case, out):
    a = out.get("solution") if out["outcome"] == "ok" else None
    objs = out.get("obj_scaled") if out["outcome"] == "ok" else None
    if a is None or objs is None:
        obs = "None"
    else:
        obs = f"(Some ({clist(a, cz)}, {cz(objs)}))"
    return f"(({cmat(case['num'])}, {cbool(bool(case['minimize']))}), {obs})"


CASE_T = "(list (list Z) * bool) * option (list Z * Z)"
CHK_MODEL = "fun c => match snd c with Some o => obs_eqb (solve (fst (fst c)) (snd (fst c))) o | None => false end"
CHK_SPEC = "fun c => match snd c with Some o => spec_check (fst (fst c)) o | None => false end"
CHK_CERT = "fun c => solve_cert (fst (fst c)) (snd (fst c))"


def _corpus():
    d = VERIF / "corpus" / "C10"
    out = []
    if d.exists():
        for f in sorted(d.glob("*.json")):
            o = json.loads(f.read_text())
            c = {"num": o["num"], "shift": o.get("shift", 0), "minimize": o.get("minimize", True),
                 "as_float": o.get("as_float", False), "kind": "corpus:" + f.stem}
            for k in ("container", "inexact", "nocoq", "seq", "floats", "xkind", "edit"):
                if k in o:
                    c[k] = o[k]
            out.append(c)
    return out


def _canon(case):
    return json.dumps([case["num"], case["shift"], bool(case["minimize"]), case.get("container", "list"), str(case.get("as_float"))])


def run(ctx: Ctx):
    big = ctx.tier == "thorough"
    enum_limit = 7 if big else 6
    ctx.rule = ("cost matrices r x c (r, c in 1..6 quick / 1..7 thorough for the enumeration oracle, tail to 9 / 12 judged by a subset DP; "
                "0x0, rx0, 1xn, nx1; square, rows>cols, cols>rows), entries from tiny integer ranges with many ties (constant, duplicate "
                "rows/cols, rank-one a_i+b_j, 0/1), negative-only, positive-only, |c|<=1e6, dyadic k/2^s; minimize and maximize; ints and "
                "floats. non-trivial = at least 2 rows and 2 columns and the inner while loop ran more often than there are padded rows "
                "(some augmenting path went through an already matched column; read from Result.iterations); distinct = (matrix, shift, minimize, "
                "container, number type). Round-2 families: M exact magnitudes (k*2^e for e=31..200, 1e9, 2^31, 2^44+k, 2^53-k single row, "
                "base+k*2^-42, differences 2^-30..2^-48), Mx inexact (ints > 2^53, decimal floats; 1e-9 tolerance, no Coq), I containers "
                "(tuple, list of tuples, range rows, array.array, deque, minimal user Sequence, shared row objects), O minimize in {0,1,True,False}, "
                "A input unchanged + second call + interleaved other-option call + fresh copy on EVERY small case, S planted optimum for "
                "17..257 (thorough 400) rows and 1x257 / 257x1, H event-directed cases from an instrumented port")
    ctx.notes += [
        "float idealisation: the code only adds, subtracts and compares costs; all operations are linear in the cost entries, so "
        "running it on k/2^s equals running it on the integers k and dividing potentials/slacks/objective by 2^s; binary64 is exact on "
        "these values (|k| <= 1e6, s <= 4, sums of at most a few hundred terms, far below 2^53). The model runs over Z on the numerators; "
        "the assignment is compared exactly and the objective after multiplying the float by 2^s (exact Fraction arithmetic).",
        "float('inf') is modelled as None; an update with an infinite delta (nan arithmetic) and fuel exhaustion of the two while loops "
        "(fuel n+1) are the error value None of the model; C10_matching proves neither happens.",
        "well-formedness: every row has the length of the first row (ragged inputs raise IndexError or ignore trailing entries; outside the property).",
        "optimality for sizes above the enumeration limit is judged by an exact DP over column subsets (independent of the model); "
        "C10_optimal proves optimality of the MODEL's answer for every matrix; cert_check (dual feasibility + tightness of the model's FINAL "
        "potentials, by vm_compute in coqc) is kept as a redundant per-run certificate; the correspondence lemma shows the model's answer "
        "equal to the implementation's answer on the cases of this run.",
        "Result.iterations / evaluations / status are not part of the property and not compared (iterations is used only to classify cases).",
        "magnitudes: the exact M families only contain matrices on which every intermediate value is a small multiple of one power of two "
        "or stays below 2^53, so binary64 is exact and the Z model must agree exactly; inputs on which binary64 rounds (ints beyond 2^53, "
        "decimal floats) are judged against the exact rational optimum with tolerance 1e-9 * scale * (rows+cols) and are not sent to Coq.",
        "structured large instances: optimum (and the unique optimal assignment) known by construction c_ij = a_i + b_j + e_ij, e = 0 on the "
        "planted matching, e >= 1 elsewhere; sizes above 40 are not sent to Coq.",
        "the instrumented port used for event-directed generation judges nothing; its cases go through the same oracle and correspondence.",
        "work volume: product-form matrices a_i*b_j (a, b increasing; optimum by the rearrangement inequality) and 1 x n / n x 1 make the inner "
        "while loop run n(n+1)/2 times; quick reaches 101475 rounds (n = 450), thorough 205120 (n = 640); 2^20 rounds (n = 1448) and 2^10 rounds "
        "for a single row (n = 1024) cost minutes of pure-Python time and are not run; coverage.work_max_per_loop has the counts reached.",
        "float extremes: -0.0 and +-2^56+k*2^8 cancellation are exact (full oracle and Coq); values up to 3e300 next to 1e-300 and decimal floats "
        "are judged with the 1e-9 tolerance. OBSERVATION-ONLY (coordinator policy X a-c, outside the property: data is finite and of moderate "
        "magnitude): NaN / +-inf entries, entries near 1e308 whose internal sums overflow, Python ints beyond 2^53 whose sums are not exact in "
        "binary64 - these are run under the guard (a hang is cut after 1 s) and only counted in histogram observation_only.",
    ]
    ctx.proof_step(["C10"])

    cases = _corpus() + fixed_cases() + [gen_case(ctx.rng, big) for _ in range(ctx.budget(600, 6000))]
    cases += [gen_magnitude(ctx.rng) for _ in range(ctx.budget(150, 1500))]
    cases += [gen_inexact(ctx.rng) for _ in range(ctx.budget(60, 600))]
    cases += [gen_iterable(ctx.rng) for _ in range(ctx.budget(100, 1000))]
    cases += [gen_option(ctx.rng) for _ in range(ctx.budget(60, 600))]
    hcases, hhist = event_directed(ctx.rng, ctx.budget(1500, 15000), ctx.budget(150, 600))
    cases += hcases
    ctx.extra["events_reached"] = hhist
    for k, c in enumerate(cases):          # A: interleaved calls with the other option value on every third small case
        if "seq" not in c and not c.get("big") and k % 3 == 0:
            c["seq"] = "plain" if k % 2 else "flipped_first"
    cases += [gen_edit(ctx.rng) for _ in range(ctx.budget(80, 800))]
    cases += [gen_extreme(ctx.rng) for _ in range(ctx.budget(70, 500))]
    heavy = structured_cases(ctx.rng, big) + work_cases(ctx.rng, big)
    step = max(9, len(cases) // (len(heavy) + 1))        # spread the heavy cases over the worker chunks (pmap chunksize 8)
    for k, c in enumerate(sorted(heavy, key=lambda c: -len(c["num"]) * len(c["num"][0]) * max(len(c["num"]), len(c["num"][0])))):
        cases.insert(min(len(cases), k * step), c)
    results = pmap(judge, [(c, enum_limit) for c in cases])
    work = {"outer_for": 0, "inner_while_total": 0, "scan_for_total": 0, "update_for_total": 0, "augment_while_total": 0, "augment_while_single": 0,
            "inner_while_single_row": 0}

    coq_cases, metas = [], []
    spec_cases = []
    for case, (out, bad) in zip(cases, results):
        ctx.evaluations += 1
        num = case["num"]
        nr = len(num)
        nc = len(num[0]) if nr else 0
        ctx.count("shape", "square" if nr == nc else ("rows>cols" if nr > nc else "cols>rows"))
        ctx.count("n", max(nr, nc))
        ctx.count("kind", case["kind"].split(":")[0])
        ctx.count("minimize", repr(case["minimize"]))
        ctx.count("container", case.get("container", "list"))
        ctx.count("numbers", "inexact" if case.get("inexact") else ("float" if case["shift"] else str(case.get("as_float"))))
        ctx.count("call_sequence", case.get("seq", "twice") if not case.get("big") else "once")
        ctx.count("outcome", out["outcome"] if out["outcome"] != "ok" else out.get("status"))
        if out["outcome"] == "ok":                    # W: work volume actually reached, per loop
            n_ = max(nr, nc)
            it = out["iterations"]
            work["outer_for"] = max(work["outer_for"], n_)
            work["inner_while_total"] = max(work["inner_while_total"], it)
            work["scan_for_total"] = max(work["scan_for_total"], it * n_)
            work["update_for_total"] = max(work["update_for_total"], it * (n_ + 1))
            for t in (2**7, 2**10, 2**11, 2**12, 10**4, 10**5):
                if it >= t:
                    ctx.count("inner_while_rounds_at_least", t)
            if case["kind"].startswith("W:") and n_ <= 150:
                ev = port_events(num, case["minimize"])
                work["augment_while_total"] = max(work["augment_while_total"], ev.get("augment_total", 0))
                work["augment_while_single"] = max(work["augment_while_single"], ev.get("path", 0))
                work["inner_while_single_row"] = max(work["inner_while_single_row"], ev.get("rounds", 0))
        if observation_only(case):
            # POLICY_X (a)-(c): outside the property; the call may return anything, raise, or be cut by the guard - only counted
            ctx.count("observation_only", f"{case['kind']}:{out['outcome']}" + (":" + bad[0] if bad and out["outcome"] == "ok" else ""))
        elif bad:
            if len(ctx.violations) >= 5:
                ctx.count("violations_not_listed", bad[0])
            else:
                small = shrink(case, enum_limit, 20.0 if len(ctx.violations) < 2 else 3.0)
                o2 = run_one(small)
                b2 = oracle(small, o2, enum_limit) or bad
                ctx.violation(f"solve_hungarian violates C10 ({b2[0]}): {b2[1]}",
                              {"case": small, "input": repr(to_input(small))[:2000], "impl": o2, "original_case": case if max(nr, nc) <= 12 else case["kind"]})
        elif "expect_opt" in case:
            ctx.count("optimum_by", "construction")
        else:
            ctx.count("optimum_by", "empty" if not (nr and nc) else ("enum" if max(nr, nc) <= enum_limit else "dp"))
        if out["outcome"] == "ok" and nr >= 2 and nc >= 2 and out["iterations"] > max(nr, nc):
            ctx.nontriv(_canon(case))
        if max(nr, nc) <= 8:
            ctx.sample({"matrix": _values(case), "minimize": case["minimize"], "solution": out.get("solution"), "objective": out.get("objective")})
        if case.get("nocoq"):
            continue
        coq_cases.append(coq_case(case, out))
        metas.append((case, out))
        spec_cases.append(coq_case(case, out))
    ctx.extra["work_max_per_loop"] = work
    failing = ctx.coq_check("corr", IMPORTS, CASE_T, CHK_MODEL, coq_cases)
    ctx.traces_validated += len(coq_cases) - len(failing)
    spec_failing = ctx.coq_check("spec", IMPORTS, CASE_T, CHK_SPEC, spec_cases)
    cert_failing = ctx.coq_check("cert", IMPORTS, CASE_T, CHK_CERT, coq_cases)
    ctx.count("coq", "corr_fail", len(failing))
    ctx.count("coq", "spec_fail", len(spec_failing))
    ctx.count("coq", "cert_fail", len(cert_failing))

    if spec_failing and not ctx.violations:
        # the Coq checker rejects an output the Python oracle accepted: the two definitions of the property disagree
        ctx.violation("Coq spec_check rejects an implementation output that the Python oracle accepted",
                      {"lemma": "Cases/C10/spec_*.v corr", "first_case": spec_cases[spec_failing[0]]}, no_input=True)

    disagree = [metas[i] for i in failing]
    if (disagree or cert_failing or ctx.broken) and not ctx.violations:
        found = None
        seeds = [m[0] for m in disagree[:20]]
        extra = []
        for c in seeds:            # neighbourhood of the disagreeing inputs
            for _ in range(200):
                n2 = [list(r) for r in c["num"]]
                if n2 and n2[0]:
                    i, j = ctx.rng.randrange(len(n2)), ctx.rng.randrange(len(n2[0]))
                    n2[i][j] += ctx.rng.choice([-2, -1, 1, 2])
                extra.append(dict(c, num=n2, minimize=ctx.rng.random() < 0.5))
        extra += [gen_case(ctx.rng, True) for _ in range(20000)]
        for (out, bad), c in zip(pmap(judge, [(c, 7) for c in extra]), extra):
            if bad:
                found = (c, out, bad)
                break
        if found:
            c, out, bad = found
            small = shrink(c, 7)
            o2 = run_one(small)
            b2 = oracle(small, o2, 7) or bad
            ctx.violation(f"solve_hungarian violates C10 ({b2[0]}): {b2[1]}", {"case": small, "input": repr(to_input(small)), "impl": o2})
        else:
            for case, out in disagree[:1]:
                model = ctx.coq_eval("corr_show", IMPORTS, f"solve {cmat(case['num'])} {cbool(case['minimize'])}")
                ctx.violation("correspondence lemma corr: model SV.C10.Hungarian.solve and solve_hungarian differ (observable: assignment, objective); "
                              "both outputs satisfy the property on every input tried",
                              {"case": case, "input": repr(to_input(case)), "impl": out, "model": model, "lemma": "Cases/C10/corr_*.v corr"}, no_input=True)
            if cert_failing and not disagree:
                case, out = metas[cert_failing[0]]
                ctx.violation("cert lemma: the model's final potentials are not an optimality certificate (model no longer matches C10_optimal)",
                              {"case": case, "lemma": "Cases/C10/cert_*.v corr"}, no_input=True)


def replay(obj):
    case = obj.get("case")
    if not case:
        print("replay names an unchecked obligation:", obj.get("unchecked") or obj.get("what"))
        return 1
    out = run_one(case)
    bad = oracle(case, out, 7)
    print("input:", to_input(case), "minimize =", case["minimize"])
    print("implementation:", out)
    print("oracle verdict:", bad or "ok")
    return 1 if bad else 0
