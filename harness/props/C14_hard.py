"""C14 round-2 hardening helpers (see /verif/HARDENING.md): label pool (L, M), iterable kinds (I), structured large
instances with answers known by construction + a linear-time independent oracle (S), event-instrumented reference port
of Tarjan / Kahn / condense (H).  Aliasing / call-sequence checks (A) and the backend option sweep (O) live in C14.run_impl.
Nothing here imports the Coq side; the model always sees nat ids."""
import sys

# ------------------------------------------------------------------------------------------------ L / M : labels
# A label spec is a small JSON list; mk(spec) builds a FRESH object on every call (so `is` differs while `==` holds).
_GROUP0 = [["false"], ["zero"], ["zerof"], ["negzerof"]]          # pairwise equal: at most one per graph
_GROUP1 = [["true"], ["one"], ["onef"]]                           # pairwise equal: at most one per graph
_SINGLES = [["none"], ["estr"], ["etuple"], ["efset"], ["ebytes"], ["str", "None"], ["str", "0"], ["nan_str"]]


def mk(spec):
    k = spec[0]
    if k == "none":
        return None
    if k == "false":
        return False
    if k == "true":
        return True
    if k == "zero":
        return int("0")
    if k == "one":
        return int("1")
    if k == "zerof":
        return float("0")
    if k == "negzerof":
        return float("-0.0")
    if k == "onef":
        return float("1")
    if k == "estr":
        return "".join([])
    if k == "etuple":
        return tuple([])
    if k == "efset":
        return frozenset([])
    if k == "ebytes":
        return bytes([])
    if k == "nan_str":
        return "".join(["n", "a", "n"])
    if k == "int":                      # any magnitude; int(str(..)) gives a new object for values outside the small-int cache
        return int(str(spec[1]))
    if k == "float":
        return float(repr(spec[1]))
    if k == "str":
        return "".join(list(spec[1])) if spec[1] else str()
    if k == "tuple":
        return tuple([spec[1] % 3, int(str(spec[1]))])
    if k == "nested":
        return tuple([int(str(spec[1])), tuple(["x", None])])
    if k == "fset":
        return frozenset([int(str(spec[1])), -1])
    if k == "bytes":
        return bytes([spec[1] % 256, (spec[1] // 256) % 256, 7])
    raise ValueError(spec)


def pool_labels(rng, ids):
    """Injective random label specs for the nat ids `ids`: mixed types, falsy values, None, huge ints, fresh objects."""
    specs = []
    specs += [rng.choice(_GROUP0)] if rng.random() < 0.7 else []
    specs += [rng.choice(_GROUP1)] if rng.random() < 0.4 else []
    specs += [s for s in _SINGLES if rng.random() < 0.45]
    if ["none"] not in specs and rng.random() < 0.5:
        specs.append(["none"])
    rng.shuffle(specs)
    specs = specs[:max(1, min(len(specs), (len(ids) + 1) // 2 + 1))]
    bases = [257, 1000, 2 ** 31, 10 ** 9, 2 ** 44 + 1, 2 ** 53 - 1, 2 ** 53 + 1, 2 ** 60, 10 ** 18, -(2 ** 31), -(10 ** 18)]
    vals = set()
    keep = []
    for sp in specs:
        if mk(sp) not in vals:
            vals.add(mk(sp))
            keep.append(sp)
    specs = keep
    k = 0
    while len(specs) < len(ids):
        k += 1
        r = rng.random()
        if r < 0.4:
            sp = ["int", rng.choice(bases) + 7 * k]
        elif r < 0.5:
            sp = ["float", k + 0.5]
        elif r < 0.55:
            sp = ["float", float(2 ** 53) + 2.0 * k]                   # integral floats > 2^53
        elif r < 0.7:
            sp = ["str", "n%d" % k]
        elif r < 0.8:
            sp = ["tuple", 300 + k]
        elif r < 0.87:
            sp = ["nested", 300 + k]
        elif r < 0.94:
            sp = ["fset", 300 + k]
        else:
            sp = ["bytes", 300 + k]
        if mk(sp) not in vals:                                         # injective under == / hash
            vals.add(mk(sp))
            specs.append(sp)
    rng.shuffle(specs)
    return [[i, s] for i, s in zip(ids, specs)]


class Unknown:
    """A label returned by the implementation that is not a label of the input."""

    def __init__(self, x):
        self.r = repr(x)[:60]


def labeler(case):
    """(f, inv): nat id -> fresh label object, label -> nat id (Unknown if it is none of ours)."""
    mode = case.get("label", "int")
    if mode == "pool":
        spec = {i: s for i, s in case["labels"]}
        table = {mk(s): i for i, s in spec.items()}

        def f(i):
            return mk(spec[i])
    elif mode == "str":
        def f(i):
            return "".join(["n", str(i)])
        table = None
    elif mode == "tuple":
        def f(i):
            return tuple([i % 3, i])
        table = None
    elif mode == "bigint":
        def f(i):
            return int(str(10 ** 18 + 3 * i))
        table = None
    else:
        def f(i):
            return i
        table = None

    def inv(x):
        try:
            if table is not None:
                r = table.get(x, None)
                return r if r is not None else Unknown(x)
            if mode == "str":
                return int(x[1:])
            if mode == "tuple":
                return x[1] if x[0] == x[1] % 3 else Unknown(x)
            if mode == "bigint":
                q, r = divmod(x - 10 ** 18, 3)
                return q if r == 0 and q >= 0 else Unknown(x)
            return x if isinstance(x, int) and not isinstance(x, bool) else Unknown(x)
        except Exception:  # noqa: BLE001
            return Unknown(x)

    return f, inv


# ------------------------------------------------------------------------------------------------ I : iterables
NODE_KINDS = ["list", "list", "tuple", "iter", "gen", "dictkeys"]
NBR_KINDS = ["list", "fresh", "fresh", "tuple", "iter", "gen", "dictkeys"]


def wrap(kind, xs):
    """xs: a list (for kind 'list' it is returned as is: the caller's own object)."""
    if kind in ("list", "fresh"):
        return xs
    if kind == "tuple":
        return tuple(xs)
    if kind == "iter":
        return iter(list(xs))
    if kind == "gen":
        return (x for x in list(xs))
    if kind == "dictkeys":
        d = dict.fromkeys(xs)
        return d.keys() if len(d) == len(xs) else tuple(xs)
    if kind == "range":
        return range(len(xs))
    raise ValueError(kind)


# ------------------------------------------------------------------------------------------------ S : large structured instances
def _case(nodes, adj, family, depth, expect, **kw):
    c = {"nodes": nodes, "adj": [[u, ws] for u, ws in adj.items() if ws], "kind": "big:" + family.split("(")[0], "family": family,
         "big": True, "depth": depth, "expect": expect, "label": "int", "edges_variant": False, "nodes_kind": "list", "nbr_kind": "list"}
    c.update(kw)
    return c


def big_cases(rng, thorough=False):
    """Structured instances crossing 17/65/257/801/1025/2049/65537 (depth, in-degree, multiplicity, queue length, component
    count / size).  expect = answers known by construction (also judged by the linear-time oracle below)."""
    out = []
    deep = [802, rng.randint(803, 1000), 1025, rng.randint(1100, 1500), rng.choice([2049, 3000]), 5000] + ([20000] if thorough else [])
    mid = [17, 65, 257]
    for n in mid + deep:
        order = rng.choice(["path", "path", "rot", "rev", "shuffle"]) if n in mid else rng.choice(["path", "path", "rot"])
        base = list(range(n))
        nodes = {"path": base, "rot": base[n // 3:] + base[:n // 3], "rev": base[::-1], "shuffle": rng.sample(base, n)}[order]
        # one directed cycle: a single component of n nodes
        adj = {i: [(i + 1) % n] for i in range(n)}
        out.append(_case(nodes, adj, f"cycle({n},{order})", n, {"n_comps": 1, "cyclic": True, "max_comp": n}))
        # acyclic chain: n singleton components, sinks first, unique topological order
        adj = {i: [i + 1] for i in range(n - 1)}
        out.append(_case(nodes, adj, f"chain({n},{order})", n, {"n_comps": n, "cyclic": False, "max_comp": 1, "order": list(range(n))}))
    for n in [rng.choice(mid), rng.choice(deep[:4])]:
        # chain with back edges a<-b giving one component [a..b]; an outside neighbour; a self loop outside the component
        a = rng.randrange(0, n // 3)
        b = rng.randrange(2 * n // 3, n)
        adj = {i: [i + 1] for i in range(n - 1)}
        adj[b] = adj.get(b, []) + [a]
        adj[a // 2] = adj.get(a // 2, []) + [n + 5]
        adj.setdefault(n - 1, []).append(n - 1)
        ncomp = n - (b - a)
        out.append(_case(list(range(n)), adj, f"chain_back({n},{b}->{a})", n, {"n_comps": ncomp, "cyclic": True, "max_comp": b - a + 1}))
        # chain of 2-cycles: n//2 components of size 2, each entered from the previous one
        m = n // 2
        adj = {}
        for i in range(m):
            adj[2 * i] = [2 * i + 1]
            adj[2 * i + 1] = [2 * i] + ([2 * i + 2] if i + 1 < m else [])
        out.append(_case(list(range(2 * m)), adj, f"two_cycles_chain({2 * m})", 2 * m, {"n_comps": m, "cyclic": True, "max_comp": 2}))
    # two large cycles joined by one edge: the target cycle must come first
    n = rng.choice([257, 600])
    adj = {i: [(i + 1) % n] for i in range(n)}
    adj.update({n + i: [n + (i + 1) % n] for i in range(n)})
    adj[n // 2] = adj[n // 2] + [n + 3]
    out.append(_case(list(range(2 * n)), adj, f"cycle_to_cycle({n})", n + n, {"n_comps": 2, "cyclic": True, "max_comp": n}))
    # in-degree / multiplicity / queue-length thresholds (shallow recursion)
    for k in [257, rng.choice([1025, 2049]), 65537 if thorough or rng.random() < 0.5 else 4099]:
        adj = {i: [k] for i in range(k)}
        out.append(_case(list(range(k + 1)), adj, f"star_in({k})", 2, {"n_comps": k + 1, "cyclic": False, "max_comp": 1}))
        adj = {0: list(range(1, k + 1))}
        out.append(_case(list(range(k + 1)), adj, f"star_out({k})", 2, {"n_comps": k + 1, "cyclic": False, "max_comp": 1}))
    for m in [257, 65537 if thorough or rng.random() < 0.5 else 2049]:
        out.append(_case([0, 1, 2], {0: [1] * m, 1: [2] * 3}, f"parallel({m})", 3,
                         {"n_comps": 3, "cyclic": False, "max_comp": 1, "order": [0, 1, 2]}))
        out.append(_case([0, 1], {0: [1] * m, 1: [0] * 2}, f"parallel_cycle({m})", 2, {"n_comps": 1, "cyclic": True, "max_comp": 2}))
    # a node whose in-degree crosses 257 / 65537 and whose LAST predecessor only becomes available late
    for m in [257, rng.choice([65535, 65536, 65537])]:
        # a -> w (m parallel edges), a -> b, b -> w : the only order is a, b, w
        out.append(_case([2, 1, 0], {0: [2] * m + [1], 1: [2]}, f"parallel_diamond({m})", 3,
                         {"n_comps": 3, "cyclic": False, "max_comp": 1, "order": [0, 1, 2]}))
        # m sources -> w ; s -> t -> w with s the last node of the iterable: w has in-degree m + 1 and must follow t
        adj = {i: [m] for i in range(m)}
        adj[m + 2] = [m + 1]
        adj[m + 1] = [m]
        out.append(_case(list(range(m + 3)), adj, f"star_in_late({m})", 3, {"n_comps": m + 3, "cyclic": False, "max_comp": 1}))
        # the same with a cycle behind the saturated counter: w -> s closes s -> t -> w
        adj = {i: [m] for i in range(m)}
        adj[m + 2] = [m + 1]
        adj[m + 1] = [m]
        adj[m] = [m + 2]
        out.append(_case(list(range(m + 3)), adj, f"star_in_cycle({m})", 4, {"n_comps": m + 1, "cyclic": True, "max_comp": 3}))
    k = rng.choice([1025, 2049])
    out.append(_case(rng.sample(range(k), k), {}, f"isolated({k})", 1, {"n_comps": k, "cyclic": False, "max_comp": 1}))
    # layered complete DAG: width w, l layers (w*w*(l-1) >= 2049 edges)
    w, l = rng.choice([(16, 10), (33, 4), (8, 40)])
    adj = {li * w + i: [(li + 1) * w + j for j in range(w)] for li in range(l - 1) for i in range(w)}
    out.append(_case(rng.sample(range(w * l), w * l), adj, f"layers({w}x{l})", l, {"n_comps": w * l, "cyclic": False, "max_comp": 1}))
    # random sparse digraph, a few thousand nodes: judged by the linear-time oracle only
    n = 20000 if thorough else 3000
    adj = {}
    for _ in range(3 * n):
        adj.setdefault(rng.randrange(n), []).append(rng.randrange(n + n // 50))
    out.append(_case(rng.sample(range(n), n), adj, f"random({n})", n, None))
    # vary labels / iterables on the large ones too
    for c in out:
        n = len(c["nodes"])
        c["label"] = rng.choice(["int", "int", "str", "bigint", "tuple"])
        c["nodes_kind"] = rng.choice(["list", "tuple", "gen", "iter"])
        c["nbr_kind"] = rng.choice(["list", "fresh", "tuple", "gen"])
        c["edges_variant"] = c["label"] == "int" and c["nodes"] == list(range(n)) and all(u < n for u, _ in c["adj"]) and rng.random() < 0.6
        if c["edges_variant"] and c["nodes_kind"] in ("list", "tuple") and rng.random() < 0.5:
            c["nodes_kind"] = "range"
    return out


def kosaraju(ns, succ):
    """Independent linear-time reference: classes of mutual reachability of the graph (ns, succ), iterative Kosaraju."""
    order, seen = [], set()
    for r in ns:
        if r in seen:
            continue
        seen.add(r)
        st = [(r, iter(succ.get(r, ())))]
        while st:
            v, it = st[-1]
            for w in it:
                if w not in seen:
                    seen.add(w)
                    st.append((w, iter(succ.get(w, ()))))
                    break
            else:
                order.append(v)
                st.pop()
    pred = {}
    for u in ns:
        for w in succ.get(u, ()):
            pred.setdefault(w, []).append(u)
    comp, k = {}, 0
    for r in reversed(order):
        if r in comp:
            continue
        comp[r] = k
        st = [r]
        while st:
            v = st.pop()
            for u in pred.get(v, ()):
                if u not in comp:
                    comp[u] = k
                    st.append(u)
        k += 1
    return comp, k


def fast_induced(case):
    seen, ns = set(), []
    for v in case["nodes"]:
        if v not in seen:
            seen.add(v)
            ns.append(v)
    adj = {u: ws for u, ws in case["adj"]}
    succ = {u: [w for w in adj.get(u, ()) if w in seen] for u in ns}
    return ns, seen, succ


def big_judge(case, outs):
    """[(which, description)]: the property on a large instance, in O(V+E)."""
    ns, nset, succ = fast_induced(case)
    cls, ncls = kosaraju(ns, succ)
    cyclic = ncls < len(ns) or any(u in ws for u, ws in succ.items())
    exp = case.get("expect")
    bad = []
    if exp and (exp["n_comps"] != ncls or exp["cyclic"] != cyclic):
        raise AssertionError(f"harness bug: construction of {case.get('family')} expects {exp}, reference says {ncls} classes cyclic={cyclic}")

    def chk_comps(which, r, sorted_members=False):
        if r["status"] != "OPTIMAL":
            return f"status {r['status']}"
        comps = r["comps"]
        flat = [x for c in comps for x in c]
        if any(isinstance(x, Unknown) for x in flat):
            return f"a component contains {[x.r for x in flat if isinstance(x, Unknown)][:2]} which is not a node of the input"
        if any(len(c) == 0 for c in comps):
            return "empty component"
        if len(flat) != len(ns) or set(flat) != nset:
            return f"{len(comps)} components with {len(flat)} entries do not list every one of the {len(ns)} nodes exactly once"
        if r["objective"] != len(comps):
            return f"objective {r['objective']} != number of components {len(comps)}"
        where = {}
        for i, c in enumerate(comps):
            k0 = cls[c[0]]
            for x in c:
                where[x] = i
                if cls[x] != k0:
                    return f"component {i} contains {c[0]} and {x}, which are not mutually reachable ({case.get('family')})"
        if len(comps) != ncls:
            return f"{len(comps)} components returned but there are {ncls} mutual-reachability classes ({case.get('family')})"
        for u, ws in succ.items():
            for w in ws:
                if where[u] < where[w]:
                    return f"not sinks-first: edge {u}->{w} goes from component {where[u]} to the later component {where[w]}"
        return None

    for which in ("scc", "scc_e", "scc_e2"):
        if which in outs:
            res = outs[which]
            d = f"raised {res[1]}: {res[2]}" if res[0] != "ok" else chk_comps(which, res[1])
            if d:
                bad.append((which, d))
    for which in ("topo", "topo_e", "topo_e2"):
        if which not in outs or len(ns) != len(case["nodes"]):
            continue
        res = outs[which]
        if res[0] != "ok":
            bad.append((which, f"raised {res[1]}: {res[2]}"))
            continue
        r = res[1]
        if cyclic:
            if r["status"] != "INFEASIBLE" or r["order"] is not None:
                bad.append((which, f"graph has a cycle but status={r['status']} ({case.get('family')})"))
            continue
        o = r["order"]
        if r["status"] != "OPTIMAL" or o is None:
            bad.append((which, f"acyclic graph but status={r['status']} ({case.get('family')})"))
            continue
        if len(o) != len(ns) or any(isinstance(x, Unknown) for x in o) or set(o) != nset:
            bad.append((which, f"order of length {len(o)} is not a permutation of the {len(ns)} nodes"))
            continue
        p = {x: i for i, x in enumerate(o)}
        e = next(((u, w) for u, ws in succ.items() for w in ws if not p[u] < p[w]), None)
        if e:
            bad.append((which, f"edge {e[0]}->{e[1]} points backward in the returned order"))
        elif exp and exp.get("order") is not None and o != exp["order"]:
            bad.append((which, "order differs from the unique topological order of the chain"))
    if "cond" in outs:
        res = outs["cond"]
        if res[0] != "ok":
            bad.append(("cond", f"raised {res[1]}: {res[2]}"))
        else:
            r = res[1]
            d = chk_comps("cond", r)
            if not d:
                comps, sc = r["comps"], r["succ"]
                where = {x: i for i, c in enumerate(comps) for x in c}
                want = [set() for _ in comps]
                for u, ws in succ.items():
                    for w in ws:
                        if where[u] != where[w]:
                            want[where[u]].add(where[w])
                if r["n_keys"] != len(comps) or len(sc) != len(comps):
                    d = f"adjacency has {r['n_keys']} keys for {len(comps)} components"
                elif r["dup_succ"]:
                    d = "a successor list contains a component twice"
                else:
                    i = next((i for i in range(len(comps)) if set(sc[i]) != want[i]), None)
                    if i is not None:
                        d = f"component {i}: successors {sorted(sc[i])[:5]}.., expected {sorted(want[i])[:5]}.."
            if d:
                bad.append(("cond", "condensed graph: " + d))
    return bad


# ------------------------------------------------------------------------------------------------ H : instrumented reference port
EVENTS = ["tree_child_lowers", "onstack_lowers", "onstack_no_change", "cross_to_popped", "onstack_non_ancestor", "self_loop",
          "dup_neighbour", "outside_skip", "outside_skip_deep", "pop_size_ge3", "pop_root_not_top", "pop_leaves_stack_ge2",
          "return_unpopped_ge2", "main_skip_indexed", "roots_ge3",
          "kahn_queue_ge3", "kahn_multi_decrement", "kahn_stuck_after_progress", "kahn_empty_start", "kahn_late_indeg_ge3",
          "cond_dup_edge", "cond_outside_skip", "cond_intra_skip", "cond_succ_ge2"]


def ref_events(case):
    """Event counts of a straightforward port of the (fixed) code on this case.  Only used to steer / measure generation."""
    ev = dict.fromkeys(EVENTS, 0)
    nodes = case["nodes"]
    adj = {u: ws for u, ws in case["adj"]}
    nset = set(nodes)
    index, low, stack, on, comps = {}, {}, [], set(), []
    path = []
    ctr = [0]

    def sc(v):
        index[v] = low[v] = ctr[0]
        ctr[0] += 1
        stack.append(v)
        on.add(v)
        path.append(v)
        base = len(stack)
        seen = set()
        for w in adj.get(v, ()):
            if w in seen:
                ev["dup_neighbour"] += 1
            seen.add(w)
            if w not in nset:
                ev["outside_skip"] += 1
                if len(path) >= 3:
                    ev["outside_skip_deep"] += 1
                continue
            if w not in index:
                sc(w)
                if low[w] < low[v]:
                    ev["tree_child_lowers"] += 1
                low[v] = min(low[v], low[w])
            elif w in on:
                if w == v:
                    ev["self_loop"] += 1
                elif w not in path:
                    ev["onstack_non_ancestor"] += 1
                if index[w] < low[v]:
                    ev["onstack_lowers"] += 1
                else:
                    ev["onstack_no_change"] += 1
                low[v] = min(low[v], index[w])
            else:
                ev["cross_to_popped"] += 1
        path.pop()
        if low[v] == index[v]:
            comp = []
            if stack[-1] != v:
                ev["pop_root_not_top"] += 1
            while True:
                w = stack.pop()
                on.discard(w)
                comp.append(w)
                if w == v:
                    break
            if len(comp) >= 3:
                ev["pop_size_ge3"] += 1
            if len(stack) >= 2:
                ev["pop_leaves_stack_ge2"] += 1
            comps.append(comp)
        elif len(stack) - base + 1 >= 2:
            ev["return_unpopped_ge2"] += 1

    roots = 0
    old = sys.getrecursionlimit()
    sys.setrecursionlimit(max(old, len(nset) + 500))
    try:
        for v in nodes:
            if v in index:
                ev["main_skip_indexed"] += 1
            else:
                roots += 1
                sc(v)
    finally:
        sys.setrecursionlimit(old)
    if roots >= 3:
        ev["roots_ge3"] += 1
    # Kahn
    indeg = {v: 0 for v in nodes}
    a2 = {v: [] for v in nodes}
    for v in nodes:
        for w in adj.get(v, ()):
            if w in nset:
                a2[v].append(w)
                indeg[w] += 1
    start = dict(indeg)
    q = [v for v in nodes if indeg[v] == 0]
    if not q and nodes:
        ev["kahn_empty_start"] += 1
    res = []
    while q:
        if len(q) >= 3:
            ev["kahn_queue_ge3"] += 1
        v = q.pop(0)
        res.append(v)
        for w in a2[v]:
            indeg[w] -= 1
            if indeg[w] == 0:
                q.append(w)
                if start[w] >= 3:
                    ev["kahn_late_indeg_ge3"] += 1
            elif a2[v].count(w) > 1:
                ev["kahn_multi_decrement"] += 1
    if res and len(res) != len(nodes):
        ev["kahn_stuck_after_progress"] += 1
    # condense
    n2c = {x: i for i, c in enumerate(comps) for x in c}
    edges = {}
    for v in nodes:
        for w in adj.get(v, ()):
            if w not in n2c:
                ev["cond_outside_skip"] += 1
            elif n2c[w] == n2c[v]:
                ev["cond_intra_skip"] += 1
            elif n2c[w] in edges.setdefault(n2c[v], set()):
                ev["cond_dup_edge"] += 1
            else:
                edges[n2c[v]].add(n2c[w])
    if any(len(s) >= 2 for s in edges.values()):
        ev["cond_succ_ge2"] += 1
    return ev
