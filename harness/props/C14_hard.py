"""C14 round-2 hardening helpers (see /verif/HARDENING.md): label pool (L, M), iterable kinds (I), structured large
instances with answers known by construction + a linear-time independent oracle (S), event-instrumented reference port
of Tarjan / Kahn / condense (H).  Aliasing / call-sequence checks (A) and the backend option sweep (O) live in C14.run_impl.
Nothing here imports the Coq side; the model always sees nat ids."""
import sys

# ------------------------------------------------------------------------------------------------ L / M : labels
# A label spec is a small JSON list; mk(spec) builds a FRESH object on every call (so `is` differs while `==` holds).
_GROUP0 = [["false"], ["zero"], ["zerof"], ["negzerof"]]          # pairwise equal: at most one per graph
_GROUP1 = [["true"], ["one"], ["onef"]]                           # pairwise equal: at most one per graph
_SINGLES = [["none"], ["estr"], ["etuple"], ["efset"], ["ebytes"], ["str", "None"], ["str", "0"], ["nan_str"]]


NAN = float("nan")            # a NaN label is a legal hashable node as long as it is the same object (found by identity)


def mk(spec):
    k = spec[0]
    if k == "nan":
        return NAN
    if k == "fl":                        # float extremes: inf, -inf, +-1.797e308, 5e-324 (built fresh; equal by value)
        return float(spec[1])
    if k == "none":
        return None
    if k == "false":
        return False
    if k == "true":
        return True
    if k == "zero":
        return int("0")
    if k == "one":
        return int("1")
    if k == "zerof":
        return float("0")
    if k == "negzerof":
        return float("-0.0")
    if k == "onef":
        return float("1")
    if k == "estr":
        return "".join([])
    if k == "etuple":
        return tuple([])
    if k == "efset":
        return frozenset([])
    if k == "ebytes":
        return bytes([])
    if k == "nan_str":
        return "".join(["n", "a", "n"])
    if k == "int":                      # any magnitude; int(str(..)) gives a new object for values outside the small-int cache
        return int(str(spec[1]))
    if k == "float":
        return float(repr(spec[1]))
    if k == "str":
        return "".join(list(spec[1])) if spec[1] else str()
    if k == "tuple":
        return tuple([spec[1] % 3, int(str(spec[1]))])
    if k == "nested":
        return tuple([int(str(spec[1])), tuple(["x", None])])
    if k == "fset":
        return frozenset([int(str(spec[1])), -1])
    if k == "bytes":
        return bytes([spec[1] % 256, (spec[1] // 256) % 256, 7])
    raise ValueError(spec)


_EXTREMES = [["fl", "inf"], ["fl", "-inf"], ["fl", "1.7976931348623157e308"], ["fl", "-1.7976931348623157e308"], ["fl", "5e-324"],
             ["fl", "-5e-324"], ["nan"]]


def mk_alt(spec):
    """An object EQUAL to mk(spec) (same hash) but of another numeric type where one exists: 33 <-> 33.0, 0 <-> False <-> -0.0."""
    k = spec[0]
    if k == "int" and abs(spec[1]) < 2 ** 53:
        return float(spec[1])
    if k == "float" and float(spec[1]).is_integer():
        return int(spec[1])
    if k in ("zero", "false", "zerof", "negzerof"):
        return {"false": 0, "zero": 0.0, "zerof": False, "negzerof": 0}[k]
    if k in ("one", "true", "onef"):
        return {"true": 1, "one": 1.0, "onef": True}[k]
    return mk(spec)


def pool_labels(rng, ids):
    """Injective random label specs for the nat ids `ids`: mixed types, falsy values, None, huge ints, fresh objects."""
    specs = []
    specs += [rng.choice(_GROUP0)] if rng.random() < 0.7 else []
    specs += [rng.choice(_GROUP1)] if rng.random() < 0.4 else []
    specs += [s for s in _SINGLES if rng.random() < 0.45]
    specs += [s for s in _EXTREMES if rng.random() < 0.2]
    if ["none"] not in specs and rng.random() < 0.5:
        specs.append(["none"])
    rng.shuffle(specs)
    specs = specs[:max(1, min(len(specs), (len(ids) + 1) // 2 + 1))]
    bases = [257, 1000, 2 ** 31, 10 ** 9, 2 ** 44 + 1, 2 ** 53 - 1, 2 ** 53 + 1, 2 ** 60, 10 ** 18, -(2 ** 31), -(10 ** 18)]
    vals = set()
    keep = []
    for sp in specs:
        if mk(sp) not in vals:
            vals.add(mk(sp))
            keep.append(sp)
    specs = keep
    k = 0
    while len(specs) < len(ids):
        k += 1
        r = rng.random()
        if r < 0.4:
            sp = ["int", rng.choice(bases) + 7 * k]
        elif r < 0.5:
            sp = ["float", k + 0.5]
        elif r < 0.55:
            sp = ["float", float(2 ** 53) + 2.0 * k]                   # integral floats > 2^53
        elif r < 0.7:
            sp = ["str", "n%d" % k]
        elif r < 0.8:
            sp = ["tuple", 300 + k]
        elif r < 0.87:
            sp = ["nested", 300 + k]
        elif r < 0.94:
            sp = ["fset", 300 + k]
        else:
            sp = ["bytes", 300 + k]
        if mk(sp) not in vals:                                         # injective under == / hash
            vals.add(mk(sp))
            specs.append(sp)
    rng.shuffle(specs)
    return [[i, s] for i, s in zip(ids, specs)]


class Unknown:
    """A label returned by the implementation that is not a label of the input."""

    def __init__(self, x):
        self.r = repr(x)[:60]


def labeler(case):
    """(f, inv): nat id -> fresh label object, label -> nat id (Unknown if it is none of ours)."""
    mode = case.get("label", "int")
    if mode == "pool":
        spec = {i: s for i, s in case["labels"]}
        table = {mk(s): i for i, s in spec.items()}

        def f(i, alt=False):
            return mk_alt(spec[i]) if alt else mk(spec[i])
    elif mode == "str":
        def f(i):
            return "".join(["n", str(i)])
        table = None
    elif mode == "tuple":
        def f(i):
            return tuple([i % 3, i])
        table = None
    elif mode == "bigint":
        def f(i):
            return int(str(10 ** 18 + 3 * i))
        table = None
    else:
        def f(i):
            return i
        table = None

    def inv(x):
        try:
            if table is not None:
                r = table.get(x, None)
                return r if r is not None else Unknown(x)
            if mode == "str":
                return int(x[1:])
            if mode == "tuple":
                return x[1] if x[0] == x[1] % 3 else Unknown(x)
            if mode == "bigint":
                q, r = divmod(x - 10 ** 18, 3)
                return q if r == 0 and q >= 0 else Unknown(x)
            return x if isinstance(x, int) and not isinstance(x, bool) else Unknown(x)
        except Exception:  # noqa: BLE001
            return Unknown(x)

    return f, inv


# ------------------------------------------------------------------------------------------------ I : iterables
NODE_KINDS = ["list", "list", "tuple", "iter", "gen", "dictkeys"]
NBR_KINDS = ["list", "fresh", "fresh", "tuple", "iter", "gen", "dictkeys"]


def wrap(kind, xs):
    """xs: a list (for kind 'list' it is returned as is: the caller's own object)."""
    if kind in ("list", "fresh"):
        return xs
    if kind == "tuple":
        return tuple(xs)
    if kind == "iter":
        return iter(list(xs))
    if kind == "gen":
        return (x for x in list(xs))
    if kind == "dictkeys":
        d = dict.fromkeys(xs)
        return d.keys() if len(d) == len(xs) else tuple(xs)
    if kind == "range":
        return range(len(xs))
    raise ValueError(kind)


# ------------------------------------------------------------------------------------------------ S : large structured instances
def _case(nodes, adj, family, depth, expect, **kw):
    c = {"nodes": nodes, "adj": [[u, ws] for u, ws in adj.items() if ws], "kind": "big:" + family.split("(")[0], "family": family,
         "big": True, "depth": depth, "expect": expect, "label": "int", "edges_variant": False, "nodes_kind": "list", "nbr_kind": "list"}
    c.update(kw)
    return c


def big_cases(rng, thorough=False):
    """Structured instances crossing 17/65/257/801/1025/2049/65537 (depth, in-degree, multiplicity, queue length, component
    count / size).  expect = answers known by construction (also judged by the linear-time oracle below)."""
    out = []
    deep = [802, rng.randint(803, 1000), 1025, rng.randint(1100, 1500), rng.choice([2049, 3000]), 5000, 10007] + ([20000, 100003] if thorough else [])
    mid = [17, 65, 257]
    for n in mid + deep:
        order = rng.choice(["path", "path", "rot", "rev", "shuffle"]) if n in mid else ("path" if n >= 5000 else rng.choice(["path", "path", "rot"]))
        base = list(range(n))
        nodes = {"path": base, "rot": base[n // 3:] + base[:n // 3], "rev": base[::-1], "shuffle": rng.sample(base, n)}[order]
        # one directed cycle: a single component of n nodes
        adj = {i: [(i + 1) % n] for i in range(n)}
        out.append(_case(nodes, adj, f"cycle({n},{order})", n, {"n_comps": 1, "cyclic": True, "max_comp": n}))
        # acyclic chain: n singleton components, sinks first, unique topological order
        adj = {i: [i + 1] for i in range(n - 1)}
        out.append(_case(nodes, adj, f"chain({n},{order})", n, {"n_comps": n, "cyclic": False, "max_comp": 1, "order": list(range(n))}))
    for n in [rng.choice(mid), rng.choice(deep[:4])]:
        # chain with back edges a<-b giving one component [a..b]; an outside neighbour; a self loop outside the component
        a = rng.randrange(0, n // 3)
        b = rng.randrange(2 * n // 3, n)
        adj = {i: [i + 1] for i in range(n - 1)}
        adj[b] = adj.get(b, []) + [a]
        adj[a // 2] = adj.get(a // 2, []) + [n + 5]
        adj.setdefault(n - 1, []).append(n - 1)
        ncomp = n - (b - a)
        out.append(_case(list(range(n)), adj, f"chain_back({n},{b}->{a})", n, {"n_comps": ncomp, "cyclic": True, "max_comp": b - a + 1}))
        # chain of 2-cycles: n//2 components of size 2, each entered from the previous one
        m = n // 2
        adj = {}
        for i in range(m):
            adj[2 * i] = [2 * i + 1]
            adj[2 * i + 1] = [2 * i] + ([2 * i + 2] if i + 1 < m else [])
        out.append(_case(list(range(2 * m)), adj, f"two_cycles_chain({2 * m})", 2 * m, {"n_comps": m, "cyclic": True, "max_comp": 2}))
    # two large cycles joined by one edge: the target cycle must come first
    n = rng.choice([257, 600])
    adj = {i: [(i + 1) % n] for i in range(n)}
    adj.update({n + i: [n + (i + 1) % n] for i in range(n)})
    adj[n // 2] = adj[n // 2] + [n + 3]
    out.append(_case(list(range(2 * n)), adj, f"cycle_to_cycle({n})", n + n, {"n_comps": 2, "cyclic": True, "max_comp": n}))
    # in-degree / multiplicity / queue-length thresholds (shallow recursion)
    for k in [257, rng.choice([1025, 2049, 4099]), 65537]:
        adj = {i: [k] for i in range(k)}
        out.append(_case(list(range(k + 1)), adj, f"star_in({k})", 2, {"n_comps": k + 1, "cyclic": False, "max_comp": 1}))
        adj = {0: list(range(1, k + 1))}
        out.append(_case(list(range(k + 1)), adj, f"star_out({k})", 2, {"n_comps": k + 1, "cyclic": False, "max_comp": 1}))
    for m in [257, 65537 if thorough or rng.random() < 0.5 else 2049]:
        out.append(_case([0, 1, 2], {0: [1] * m, 1: [2] * 3}, f"parallel({m})", 3,
                         {"n_comps": 3, "cyclic": False, "max_comp": 1, "order": [0, 1, 2]}))
        out.append(_case([0, 1], {0: [1] * m, 1: [0] * 2}, f"parallel_cycle({m})", 2, {"n_comps": 1, "cyclic": True, "max_comp": 2}))
    # a node whose in-degree crosses 257 / 65537 and whose LAST predecessor only becomes available late
    for m in [257, rng.choice([65535, 65536, 65537])]:
        # a -> w (m parallel edges), a -> b, b -> w : the only order is a, b, w
        out.append(_case([2, 1, 0], {0: [2] * m + [1], 1: [2]}, f"parallel_diamond({m})", 3,
                         {"n_comps": 3, "cyclic": False, "max_comp": 1, "order": [0, 1, 2]}))
        # m sources -> w ; s -> t -> w with s the last node of the iterable: w has in-degree m + 1 and must follow t
        adj = {i: [m] for i in range(m)}
        adj[m + 2] = [m + 1]
        adj[m + 1] = [m]
        out.append(_case(list(range(m + 3)), adj, f"star_in_late({m})", 3, {"n_comps": m + 3, "cyclic": False, "max_comp": 1}))
        # the same with a cycle behind the saturated counter: w -> s closes s -> t -> w
        adj = {i: [m] for i in range(m)}
        adj[m + 2] = [m + 1]
        adj[m + 1] = [m]
        adj[m] = [m + 2]
        out.append(_case(list(range(m + 3)), adj, f"star_in_cycle({m})", 4, {"n_comps": m + 1, "cyclic": True, "max_comp": 3}))
    # class W (work volume): loops driven far beyond 2^12 / 10^4 / 10^5 / 2^20 iterations at small or shallow inputs
    W = (1 << 20) + rng.randint(1, 9)
    for k in [4099, 100003] + ([W] if thorough else []):
        # flower: 0 -> every leaf -> 0 : one component, Tarjan's stack holds k+1 nodes at recursion depth 2, the pop loop runs k+1 times
        adj = {0: list(range(1, k + 1))}
        adj.update({i: [0] for i in range(1, k + 1)})
        out.append(_case(list(range(k + 1)), adj, f"flower({k})", 3, {"n_comps": 1, "cyclic": True, "max_comp": k + 1}))
    # 2^20+ parallel edges: one neighbour loop / one in-degree counter / one adjacency list crosses 2^20
    out.append(_case([0, 1, 2], {0: [2] * W + [1], 1: [2]}, f"parallel_diamond({W})", 3,
                     {"n_comps": 3, "cyclic": False, "max_comp": 1, "order": [0, 1, 2]}))
    out.append(_case([1, 0], {0: [1] * W, 1: [0] * 3}, f"parallel_cycle({W})", 2, {"n_comps": 1, "cyclic": True, "max_comp": 2}))
    k = 100003
    adj = {i: [k] for i in range(k)}
    adj[k + 2] = [k + 1]
    adj[k + 1] = [k]
    out.append(_case(list(range(k + 3)), adj, f"star_in_late({k})", 3, {"n_comps": k + 3, "cyclic": False, "max_comp": 1}))
    out.append(_case(rng.sample(range(10007), 10007), {}, "isolated(10007)", 1, {"n_comps": 10007, "cyclic": False, "max_comp": 1}))
    k = rng.choice([1025, 2049])
    out.append(_case(rng.sample(range(k), k), {}, f"isolated({k})", 1, {"n_comps": k, "cyclic": False, "max_comp": 1}))
    # layered complete DAG: width w, l layers (w*w*(l-1) >= 2049 edges)
    w, l = rng.choice([(16, 10), (33, 4), (8, 40)])
    adj = {li * w + i: [(li + 1) * w + j for j in range(w)] for li in range(l - 1) for i in range(w)}
    out.append(_case(rng.sample(range(w * l), w * l), adj, f"layers({w}x{l})", l, {"n_comps": w * l, "cyclic": False, "max_comp": 1}))
    # random sparse digraph, a few thousand nodes: judged by the linear-time oracle only
    n = 20000 if thorough else 3000
    adj = {}
    for _ in range(3 * n):
        adj.setdefault(rng.randrange(n), []).append(rng.randrange(n + n // 50))
    out.append(_case(rng.sample(range(n), n), adj, f"random({n})", n, None))
    # vary labels / iterables on the large ones too
    for c in out:
        n = len(c["nodes"])
        heavy = sum(len(ws) for _, ws in c["adj"]) > 300000 or n > 50000
        c["label"] = rng.choice(["int", "int", "str", "bigint", "tuple"]) if not heavy else "int"
        c["nodes_kind"] = rng.choice(["list", "tuple", "gen", "iter"])
        c["nbr_kind"] = rng.choice(["list", "fresh", "tuple", "gen"])
        c["edges_variant"] = c["label"] == "int" and c["nodes"] == list(range(n)) and all(u < n for u, _ in c["adj"]) and rng.random() < 0.6
        if c["edges_variant"] and c["nodes_kind"] in ("list", "tuple") and rng.random() < 0.5:
            c["nodes_kind"] = "range"
    return out


def kosaraju(ns, succ):
    """Independent linear-time reference: classes of mutual reachability of the graph (ns, succ), iterative Kosaraju."""
    order, seen = [], set()
    for r in ns:
        if r in seen:
            continue
        seen.add(r)
        st = [(r, iter(succ.get(r, ())))]
        while st:
            v, it = st[-1]
            for w in it:
                if w not in seen:
                    seen.add(w)
                    st.append((w, iter(succ.get(w, ()))))
                    break
            else:
                order.append(v)
                st.pop()
    pred = {}
    for u in ns:
        for w in succ.get(u, ()):
            pred.setdefault(w, []).append(u)
    comp, k = {}, 0
    for r in reversed(order):
        if r in comp:
            continue
        comp[r] = k
        st = [r]
        while st:
            v = st.pop()
            for u in pred.get(v, ()):
                if u not in comp:
                    comp[u] = k
                    st.append(u)
        k += 1
    return comp, k


def fast_induced(case):
    seen, ns = set(), []
    for v in case["nodes"]:
        if v not in seen:
            seen.add(v)
            ns.append(v)
    adj = {u: ws for u, ws in case["adj"]}
    succ = {u: [w for w in adj.get(u, ()) if w in seen] for u in ns}
    return ns, seen, succ


def big_judge(case, outs):
    """[(which, description)]: the property on a large instance, in O(V+E)."""
    ns, nset, succ = fast_induced(case)
    cls, ncls = kosaraju(ns, succ)
    cyclic = ncls < len(ns) or any(u in ws for u, ws in succ.items())
    exp = case.get("expect")
    bad = []
    indeg, sizes = {}, {}
    for u, ws in succ.items():
        for w in ws:
            indeg[w] = indeg.get(w, 0) + 1
    for k in cls.values():
        sizes[k] = sizes.get(k, 0) + 1
    fam = case.get("family", "")
    case["_work"] = {
        "tarjan_nodes_indexed": len(ns), "tarjan_edges_scanned": sum(len(ws) for _, ws in case["adj"]),
        "tarjan_neighbours_of_one_node": max([len(ws) for _, ws in case["adj"]] or [0]),
        "tarjan_recursion_depth": (len(ns) if fam.endswith(",path)") else len(ns) - len(ns) // 3 if fam.endswith(",rot)") else 0)
        if fam.startswith(("cycle(", "chain(")) else 0,
        "tarjan_stack_size": max(sizes.values() or [0]), "tarjan_component_pop_loop": max(sizes.values() or [0]), "components": ncls,
        "kahn_nodes_output": 0 if cyclic else len(ns), "kahn_in_degree_of_one_node": max(indeg.values() or [0]),
        "kahn_initial_queue": sum(1 for v in ns if v not in indeg),
        "kahn_decrements": 0 if cyclic else sum(len(ws) for ws in succ.values()),
        "condense_edges_scanned": sum(len(ws) for ws in succ.values()),
        "condense_successors_of_one_component": max([len({cls[w] for w in ws if cls[w] != cls[u]}) for u, ws in succ.items()] or [0]),
    }
    if exp and (exp["n_comps"] != ncls or exp["cyclic"] != cyclic):
        raise AssertionError(f"harness bug: construction of {case.get('family')} expects {exp}, reference says {ncls} classes cyclic={cyclic}")

    def chk_comps(which, r, sorted_members=False):
        if r["status"] != "OPTIMAL":
            return f"status {r['status']}"
        comps = r["comps"]
        flat = [x for c in comps for x in c]
        if any(isinstance(x, Unknown) for x in flat):
            return f"a component contains {[x.r for x in flat if isinstance(x, Unknown)][:2]} which is not a node of the input"
        if any(len(c) == 0 for c in comps):
            return "empty component"
        if len(flat) != len(ns) or set(flat) != nset:
            return f"{len(comps)} components with {len(flat)} entries do not list every one of the {len(ns)} nodes exactly once"
        if r["objective"] != len(comps):
            return f"objective {r['objective']} != number of components {len(comps)}"
        where = {}
        for i, c in enumerate(comps):
            k0 = cls[c[0]]
            for x in c:
                where[x] = i
                if cls[x] != k0:
                    return f"component {i} contains {c[0]} and {x}, which are not mutually reachable ({case.get('family')})"
        if len(comps) != ncls:
            return f"{len(comps)} components returned but there are {ncls} mutual-reachability classes ({case.get('family')})"
        for u, ws in succ.items():
            for w in ws:
                if where[u] < where[w]:
                    return f"not sinks-first: edge {u}->{w} goes from component {where[u]} to the later component {where[w]}"
        return None

    for which in ("scc", "scc_e", "scc_e2"):
        if which in outs:
            res = outs[which]
            d = f"raised {res[1]}: {res[2]}" if res[0] != "ok" else chk_comps(which, res[1])
            if d:
                bad.append((which, d))
    for which in ("topo", "topo_e", "topo_e2"):
        if which not in outs or len(ns) != len(case["nodes"]):
            continue
        res = outs[which]
        if res[0] != "ok":
            bad.append((which, f"raised {res[1]}: {res[2]}"))
            continue
        r = res[1]
        if cyclic:
            if r["status"] != "INFEASIBLE" or r["order"] is not None:
                bad.append((which, f"graph has a cycle but status={r['status']} ({case.get('family')})"))
            continue
        o = r["order"]
        if r["status"] != "OPTIMAL" or o is None:
            bad.append((which, f"acyclic graph but status={r['status']} ({case.get('family')})"))
            continue
        if len(o) != len(ns) or any(isinstance(x, Unknown) for x in o) or set(o) != nset:
            bad.append((which, f"order of length {len(o)} is not a permutation of the {len(ns)} nodes"))
            continue
        p = {x: i for i, x in enumerate(o)}
        e = next(((u, w) for u, ws in succ.items() for w in ws if not p[u] < p[w]), None)
        if e:
            bad.append((which, f"edge {e[0]}->{e[1]} points backward in the returned order"))
        elif exp and exp.get("order") is not None and o != exp["order"]:
            bad.append((which, "order differs from the unique topological order of the chain"))
    if "cond" in outs:
        res = outs["cond"]
        if res[0] != "ok":
            bad.append(("cond", f"raised {res[1]}: {res[2]}"))
        else:
            r = res[1]
            d = chk_comps("cond", r)
            if not d:
                comps, sc = r["comps"], r["succ"]
                where = {x: i for i, c in enumerate(comps) for x in c}
                want = [set() for _ in comps]
                for u, ws in succ.items():
                    for w in ws:
                        if where[u] != where[w]:
                            want[where[u]].add(where[w])
                if r["n_keys"] != len(comps) or len(sc) != len(comps):
                    d = f"adjacency has {r['n_keys']} keys for {len(comps)} components"
                elif r["dup_succ"]:
                    d = "a successor list contains a component twice"
                else:
                    i = next((i for i in range(len(comps)) if set(sc[i]) != want[i]), None)
                    if i is not None:
                        d = f"component {i}: successors {sorted(sc[i])[:5]}.., expected {sorted(want[i])[:5]}.."
            if d:
                bad.append(("cond", "condensed graph: " + d))
    return bad


# ------------------------------------------------------------------------------------------------ W : > 2^20 nodes, lean runner
def huge_cases(rng, thorough=False):
    """N = 2^20 + a few nodes, almost all isolated; a sparse random structure on ~14 special nodes sitting at the beginning, around index
    2^20 and at the very end of the node order (edges late -> early, early -> late, small cycles among late nodes, outside neighbours).
    Every linear-time loop (DFS index, component count, node -> component map, Kahn's queue) crosses 2^20 at recursion depth < 20."""
    out = []
    for t in range(3 if thorough else 1):
        N = (1 << 20) + rng.randint(14, 60)
        order = rng.choice(["asc", "asc", "desc"])
        lab = (lambda p: p) if order == "asc" else (lambda p: N - 1 - p)      # position in the visiting order -> label
        first = [lab(p) for p in rng.sample(range(0, 12), 4)]
        mid = [lab(p) for p in rng.sample(range((1 << 20) - 4, (1 << 20) + 1), 3)]
        last = [lab(p) for p in rng.sample(range((1 << 20) + 2, N), 7)]       # visited (and indexed) after 2^20 + 1 other nodes:
        adj = {}                                                              # they receive edges from last nodes only
        for _ in range(rng.randint(5, 9)):                                    # among the early part
            adj.setdefault(rng.choice(first + mid), []).append(rng.choice(first + mid))
        for _ in range(rng.randint(9, 16)):                                   # from the last nodes to everything (completed or open)
            w = rng.choice(first + mid + last) if rng.random() < 0.9 else N + rng.randint(0, 5)
            adj.setdefault(rng.choice(last), []).append(w)
        a, b, c, d = rng.sample(last, 4)                                      # a 3-cycle among last nodes pointing back to completed nodes,
        adj.setdefault(a, []).append(b)                                       # and one more last node pointing to the cycle
        adj.setdefault(b, []).append(c)
        adj.setdefault(c, []).extend([a, rng.choice(first)])
        adj.setdefault(d, []).extend([a, rng.choice(mid)])
        if t == 1 or (t == 0 and rng.random() < 0.3):                  # an acyclic variant so that topological_sort has to output 2^20+ nodes
            rank = {v: i for i, v in enumerate(first + mid + last)}
            adj = {u: [w for w in ws if w >= N or rank[w] < rank[u]] for u, ws in adj.items()}
        funcs = ["scc", "topo", "cond"] + (["scc_e", "topo_e"] if thorough else [])
        out.append({"huge": True, "N": N, "order": order, "nodes_kind": rng.choice(["range", "list", "gen"]),
                    "adj": [[u, ws] for u, ws in sorted(adj.items()) if ws], "funcs": funcs, "kind": "huge", "family": f"sparse_on_{N}_nodes",
                    "nodes": [], "label": "int", "edges_variant": False})
    if thorough:
        M = (1 << 20) // 3 + 7
        out.append({"huge": True, "N": 3 * M, "order": "asc", "nodes_kind": "range", "rule": "triangles", "adj": [], "funcs": ["scc", "topo", "cond"],
                    "kind": "huge", "family": f"{M}_disjoint_3_cycles", "nodes": [], "label": "int", "edges_variant": False})
    return out


def run_huge(case):
    """Run + judge inside the worker (O(N), only a verdict travels back).  Reference: naive reachability among the special nodes; every
    other node is a singleton class with no edges."""
    import gc

    from harness.core import guarded
    from solvor.scc import (condense, strongly_connected_components, strongly_connected_components_edges,
                            topological_sort, topological_sort_edges)

    N = case["N"]
    tri = case.get("rule") == "triangles"
    adj = {u: tuple(ws) for u, ws in case["adj"]}
    if tri:
        def nb(v):
            return (v + 1,) if v % 3 < 2 else (v - 2,)
    else:
        def nb(v):
            return adj.get(v, ())

    def nodes():
        base = range(N) if case["order"] == "asc" else range(N - 1, -1, -1)
        k = case["nodes_kind"]
        return base if k == "range" else (list(base) if k == "list" else (v for v in base))

    S = set(adj) | {w for ws in adj.values() for w in ws if w < N}
    succ = {u: [w for w in adj.get(u, ()) if w < N] for u in S}
    reach = {}
    for s0 in S:
        seen, todo = {s0}, [s0]
        while todo:
            for w in succ[todo.pop()]:
                if w not in seen:
                    seen.add(w)
                    todo.append(w)
        reach[s0] = seen
    want = {frozenset(w for w in reach[v] if v in reach[w]) for v in S}
    clsof = {v: c for c in want for v in c}
    want_count = (N // 3) if tri else len(want) + N - len(S)
    cyclic = tri or any(len(c) > 1 for c in want) or any(u in ws for u, ws in succ.items())
    want_edges = {}
    for u, ws in succ.items():
        for w in ws:
            if clsof[u] != clsof[w]:
                want_edges.setdefault(clsof[u], set()).add(clsof[w])
    bad, calls = [], 0

    def is_class(c):
        if tri:
            return len(c) == 3 and len({x // 3 for x in c}) == 1
        return (len(c) == 1 and next(iter(c)) not in S) or frozenset(c) in want

    def cover(groups, what):
        seen, pos = bytearray(N), {}
        for i, c in enumerate(groups):
            if len(c) == 0:
                return f"{what}: empty component", pos
            for x in c:
                if not isinstance(x, int) or isinstance(x, bool) or not 0 <= x < N:
                    return f"{what}: {x!r} is not a node", pos
                if seen[x]:
                    return f"{what}: node {x} listed twice", pos
                seen[x] = 1
                if x in S:
                    pos[x] = i
            if not is_class(c):
                return f"{what}: {sorted(c)[:6]} is not a class of mutual reachability", pos
        miss = seen.count(0)
        if miss:
            return f"{what}: {miss} of the {N} nodes are in no component, e.g. node {seen.index(0)}", pos
        if len(groups) != want_count:
            return f"{what}: {len(groups)} components, mutual reachability has {want_count} classes", pos
        return None, pos

    def call(fn, *a, **kw):
        nonlocal calls
        calls += 1
        return guarded(fn, *a, timeout=180, **kw)

    for which in case["funcs"]:
        gc.collect()
        if which in ("scc", "scc_e"):
            res = call(strongly_connected_components, nodes(), nb) if which == "scc" else \
                call(strongly_connected_components_edges, N, [(u, w) for u, ws in case["adj"] for w in ws if w < N], backend="python")
            if res[0] != "ok":
                bad.append((which, f"raised {res[1:]}"))
                continue
            r = res[1]
            d, pos = cover(r.solution, "components")
            if not d and r.objective != len(r.solution):
                d = f"objective {r.objective} != {len(r.solution)} components"
            if not d:
                e = next(((u, w) for u, ws in succ.items() for w in ws if pos[u] < pos[w]), None)
                d = f"not sinks-first: edge {e[0]}->{e[1]} goes from component {pos[e[0]]} to the later component {pos[e[1]]}" if e else None
            if d:
                bad.append((which, d))
        elif which in ("topo", "topo_e"):
            res = call(topological_sort, nodes(), nb) if which == "topo" else \
                call(topological_sort_edges, N, [(u, w) for u, ws in case["adj"] for w in ws if w < N], backend="python")
            if res[0] != "ok":
                bad.append((which, f"raised {res[1:]}"))
                continue
            r = res[1]
            if cyclic:
                if r.status.name != "INFEASIBLE" or r.solution is not None:
                    bad.append((which, f"graph has a cycle but status={r.status.name}"))
                if tri or which != "topo":
                    continue
                # the same instance without its back edges (an edge is kept iff it leads to a special node of smaller rank): Kahn's loop
                # now has to output all N nodes
                rank = {v: i for i, v in enumerate(sorted(S))}
                adj_a = {u: tuple(w for w in ws if w < N and rank[w] < rank[u]) for u, ws in adj.items()}
                res = call(topological_sort, nodes(), lambda v: adj_a.get(v, ()))
                if res[0] != "ok":
                    bad.append((which, f"(back edges removed: {adj_a}) raised {res[1:]}"))
                    continue
                r = res[1]
                if r.status.name != "OPTIMAL" or r.solution is None or len(r.solution) != N:
                    bad.append((which, f"(back edges removed: neighbours {adj_a}) acyclic graph but status={r.status.name}, "
                                       f"{0 if r.solution is None else len(r.solution)} of {N} nodes in the order"))
                    continue
                seen, pos = bytearray(N), {}
                for i, x in enumerate(r.solution):
                    if not isinstance(x, int) or not 0 <= x < N or seen[x]:
                        bad.append((which, f"(back edges removed) the order is not a permutation of the nodes (entry {x!r})"))
                        break
                    seen[x] = 1
                    if x in S:
                        pos[x] = i
                else:
                    e = next(((u, w) for u, ws in adj_a.items() for w in ws if not pos[u] < pos[w]), None)
                    if e:
                        bad.append((which, f"(back edges removed: neighbours {adj_a}) edge {e[0]}->{e[1]} points backward in the returned order"))
                continue
            if r.status.name != "OPTIMAL" or r.solution is None:
                bad.append((which, f"acyclic graph but status={r.status.name}"))
                continue
            d, pos = cover([[x] for x in r.solution], "order") if len(r.solution) == N else (f"order has {len(r.solution)} entries for {N} nodes", {})
            if not d:
                e = next(((u, w) for u, ws in succ.items() for w in ws if not pos[u] < pos[w]), None)
                d = f"edge {e[0]}->{e[1]} points backward in the returned order" if e else None
            if d:
                bad.append((which, d))
        else:
            res = call(condense, nodes(), nb)
            if res[0] != "ok":
                bad.append((which, f"raised {res[1:]}"))
                continue
            cn, adjc = res[1].solution
            d, _ = cover(cn, "condensed nodes")
            if not d and len(adjc) != len(cn):
                d = f"adjacency has {len(adjc)} keys for {len(cn)} condensed nodes"
            if not d:
                tot = sum(len(v) for v in adjc.values())
                if tot != sum(len(v) for v in want_edges.values()):
                    d = f"{tot} condensed edges, expected {sum(len(v) for v in want_edges.values())}"
                else:
                    for c, ws in want_edges.items():
                        if set(adjc.get(c, ())) != ws:
                            d = f"condensed node {sorted(c)}: successors {[sorted(x) for x in adjc.get(c, ())][:4]}, expected {[sorted(x) for x in ws][:4]}"
                            break
            if d:
                bad.append((which, d))
        res = r = None
    work = {"tarjan_nodes_indexed": N, "components": want_count, "condense_node_to_component_entries": N,
            "kahn_nodes_output": N if "topo" in case["funcs"] and not tri else 0, "kahn_initial_queue": N - len({w for ws in succ.values() for w in ws}) if not tri else 0}
    return {"huge": True, "bad": bad, "work": work, "calls": calls}


# ------------------------------------------------------------------------------------------------ H : instrumented reference port
EVENTS = ["tree_child_lowers", "onstack_lowers", "onstack_no_change", "cross_to_popped", "onstack_non_ancestor", "self_loop",
          "dup_neighbour", "outside_skip", "outside_skip_deep", "pop_size_ge3", "pop_root_not_top", "pop_leaves_stack_ge2",
          "return_unpopped_ge2", "main_skip_indexed", "roots_ge3",
          "kahn_queue_ge3", "kahn_multi_decrement", "kahn_stuck_after_progress", "kahn_empty_start", "kahn_late_indeg_ge3",
          "cond_dup_edge", "cond_outside_skip", "cond_intra_skip", "cond_succ_ge2"]


def ref_events(case):
    """Event counts of a straightforward port of the (fixed) code on this case.  Only used to steer / measure generation."""
    ev = dict.fromkeys(EVENTS, 0)
    nodes = case["nodes"]
    adj = {u: ws for u, ws in case["adj"]}
    nset = set(nodes)
    index, low, stack, on, comps = {}, {}, [], set(), []
    path = []
    ctr = [0]

    def sc(v):
        index[v] = low[v] = ctr[0]
        ctr[0] += 1
        stack.append(v)
        on.add(v)
        path.append(v)
        base = len(stack)
        seen = set()
        for w in adj.get(v, ()):
            if w in seen:
                ev["dup_neighbour"] += 1
            seen.add(w)
            if w not in nset:
                ev["outside_skip"] += 1
                if len(path) >= 3:
                    ev["outside_skip_deep"] += 1
                continue
            if w not in index:
                sc(w)
                if low[w] < low[v]:
                    ev["tree_child_lowers"] += 1
                low[v] = min(low[v], low[w])
            elif w in on:
                if w == v:
                    ev["self_loop"] += 1
                elif w not in path:
                    ev["onstack_non_ancestor"] += 1
                if index[w] < low[v]:
                    ev["onstack_lowers"] += 1
                else:
                    ev["onstack_no_change"] += 1
                low[v] = min(low[v], index[w])
            else:
                ev["cross_to_popped"] += 1
        path.pop()
        if low[v] == index[v]:
            comp = []
            if stack[-1] != v:
                ev["pop_root_not_top"] += 1
            while True:
                w = stack.pop()
                on.discard(w)
                comp.append(w)
                if w == v:
                    break
            if len(comp) >= 3:
                ev["pop_size_ge3"] += 1
            if len(stack) >= 2:
                ev["pop_leaves_stack_ge2"] += 1
            comps.append(comp)
        elif len(stack) - base + 1 >= 2:
            ev["return_unpopped_ge2"] += 1

    roots = 0
    old = sys.getrecursionlimit()
    sys.setrecursionlimit(max(old, len(nset) + 500))
    try:
        for v in nodes:
            if v in index:
                ev["main_skip_indexed"] += 1
            else:
                roots += 1
                sc(v)
    finally:
        sys.setrecursionlimit(old)
    if roots >= 3:
        ev["roots_ge3"] += 1
    # Kahn
    indeg = {v: 0 for v in nodes}
    a2 = {v: [] for v in nodes}
    for v in nodes:
        for w in adj.get(v, ()):
            if w in nset:
                a2[v].append(w)
                indeg[w] += 1
    start = dict(indeg)
    q = [v for v in nodes if indeg[v] == 0]
    if not q and nodes:
        ev["kahn_empty_start"] += 1
    res = []
    while q:
        if len(q) >= 3:
            ev["kahn_queue_ge3"] += 1
        v = q.pop(0)
        res.append(v)
        for w in a2[v]:
            indeg[w] -= 1
            if indeg[w] == 0:
                q.append(w)
                if start[w] >= 3:
                    ev["kahn_late_indeg_ge3"] += 1
            elif a2[v].count(w) > 1:
                ev["kahn_multi_decrement"] += 1
    if res and len(res) != len(nodes):
        ev["kahn_stuck_after_progress"] += 1
    # condense
    n2c = {x: i for i, c in enumerate(comps) for x in c}
    edges = {}
    for v in nodes:
        for w in adj.get(v, ()):
            if w not in n2c:
                ev["cond_outside_skip"] += 1
            elif n2c[w] == n2c[v]:
                ev["cond_intra_skip"] += 1
            elif n2c[w] in edges.setdefault(n2c[v], set()):
                ev["cond_dup_edge"] += 1
            else:
                edges[n2c[v]].add(n2c[w])
    if any(len(s) >= 2 for s in edges.values()):
        ev["cond_succ_ge2"] += 1
    return ev
