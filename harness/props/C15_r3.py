"""C15 round-3 hardening (HARDENING.md 'Round-3 addendum'): W work volume, A2 in-place edits between calls (and duplicate
labels), X float extremes, for articulation_points, bridges, kcore_decomposition, kcore, pagerank, louvain.

W   every loop of the five algorithms is driven past 2^7 .. 10^5 iterations (2^20 in thorough) at moderate input size, with answers
    known by construction or from an exact reference:  DFS calls / adjacency steps (paths, stars, cliques, duplicate bundles),
    k-core pops / levels / bucket moves (cliques K100, K150; stars), pagerank power iterations (a 3-node graph whose error decays
    like damping^k: damping 0.9 .. 0.9999 gives 130 .. 196 237 iterations; exact stationary vector by Gaussian elimination in Q;
    tol = 0 runs with max_iter at 2^7, 2^10, 2^11, 2^12, 10^4, 10^5 (+-1) against an independent float reference), louvain sweeps /
    node visits / modularity pair loop (sparse random graphs: the loop structure `every sweep but the last moves a node, the last
    moves none` is read from the run by the line tracer).  The maximum count reached per loop is written to the evidence.
A2  ONE neighbour-function object over a live dict and ONE node list object are kept across calls; between calls the graph is
    edited IN PLACE (append / delete / replace a neighbour, clear a list, swap / replace / append / drop a node); after each edit
    every public function is called with the same objects and must agree with the brute-force references on the CURRENT graph
    and with a call on a deep copy through a new function object.  New lambdas are created and dropped in between (id() reuse),
    graphs of equal size but different content alternate (len()-keyed caches).  Duplicate labels: a node listed twice in `nodes`
    must raise ValueError or be treated as listed once.
X   float extremes in every numeric argument: tol nan / inf / -0.0 / negative / 5e-324 / int, damping 0 / 1 / -0.0 as ints and
    floats, resolution 5e-324 / 1e308 / 2^1023 / 0 / -0.0 / negative / int, k as integral float / fraction / nan / inf / bool,
    max_iter as float / bool / negative; non-finite damping / resolution must raise (or still give a finite simplex / the formula's
    value); labels: ints answered by equal floats (33 vs 33.0, 0 vs -0.0), +-inf, +-1e308, 5e-324 (label maps of C15_hard).
"""
import copy
import math
import random
import time
from fractions import Fraction


# ================================================================================================ helpers
def _count(ctx, key, val):
    """maximum count reached per loop"""
    cur = ctx.extra.setdefault("W_max_iterations_per_loop", {})
    cur[key] = max(cur.get(key, 0), int(val))


def _mods():
    from solvor.articulation import articulation_points, bridges
    from solvor.community import louvain
    from solvor.kcore import kcore, kcore_decomposition
    from solvor.pagerank import pagerank

    return articulation_points, bridges, kcore_decomposition, kcore, pagerank, louvain


# ================================================================================================ W : pagerank
def _gauss(A, b):
    n = len(A)
    M = [row[:] + [b[i]] for i, row in enumerate(A)]
    for c in range(n):
        p = next(r for r in range(c, n) if M[r][c] != 0)
        M[c], M[p] = M[p], M[c]
        M[c] = [x / M[c][c] for x in M[c]]
        for r in range(n):
            if r != c and M[r][c] != 0:
                M[r] = [x - M[r][c] * y for x, y in zip(M[r], M[c])]
    return [M[i][n] for i in range(n)]


def pr_stationary(nodes, nb, d):
    """exact PageRank vector: (I - d*P) x = (1-d)/n, P column-stochastic with uniform dangling columns"""
    n = len(nodes)
    ix = {v: i for i, v in enumerate(nodes)}
    P = [[Fraction(0)] * n for _ in range(n)]
    for u in nodes:
        out = [w for w in nb[u] if w in ix]
        if not out:
            for i in range(n):
                P[i][ix[u]] += Fraction(1, n)
        else:
            for w in out:
                P[ix[w]][ix[u]] += Fraction(1, len(out))
    A = [[(1 if i == j else 0) - d * P[i][j] for j in range(n)] for i in range(n)]
    x = _gauss(A, [(1 - d) / n] * n)
    return {v: x[ix[v]] for v in nodes}


def pr_float_reference(nodes, nb, d, tol, max_iter):
    """independent float power iteration (push formulation), returns (scores, iterations, converged)"""
    n = len(nodes)
    ns = set(nodes)
    outs = {u: [w for w in nb[u] if w in ns] for u in nodes}
    x = dict.fromkeys(nodes, 1.0 / n)
    for it in range(1, max_iter + 1):
        y = dict.fromkeys(nodes, 0.0)
        dang = 0.0
        for u in nodes:
            if outs[u]:
                s = x[u] / len(outs[u])
                for w in outs[u]:
                    y[w] += s
            else:
                dang += x[u]
        md = 0.0
        for v in nodes:
            y[v] = (1.0 - d) / n + d * y[v] + d * dang / n
            md = max(md, abs(y[v] - x[v]))
        x = y
        if md < tol:
            return x, it, True
    return x, max_iter, False


SLOW3 = ([0, 1, 2], {0: [1], 1: [0], 2: [0]})  # the 2-cycle has eigenvalue -1: the error decays exactly like damping^k


def run_work_pagerank(ctx, bad):
    from harness.core import guarded

    pagerank = _mods()[4]
    nodes, nb = SLOW3
    f = lambda v: nb[v]  # noqa: E731
    grid = [(0.9, 1e-6), (0.99, 1e-6), (0.995, 1e-6), (0.997, 1e-6), (0.999, 1e-6), (0.9999, 1e-9)] + ([(0.99999, 1e-9)] if ctx.tier == "thorough" else [])
    for d, tol in grid:
        rep = {"kind": "work", "fn": "pagerank", "instance": f"slow3 damping={d} tol={tol}"}
        r = guarded(pagerank, list(nodes), f, damping=d, tol=tol, max_iter=10**7, timeout=60)
        ctx.evaluations += 1
        if r[0] != "ok":
            bad.append((f"pagerank {rep['instance']}: {r}", rep))
            continue
        r = r[1]
        _count(ctx, "pagerank_power_iterations", r.iterations)
        ref, it_ref, conv = pr_float_reference(nodes, nb, d, tol, 10**7)
        star = pr_stationary(nodes, nb, Fraction(d))
        sc = r.solution
        v = None
        if r.status.name != "OPTIMAL" or not conv:
            v = f"status {r.status.name} after {r.iterations} iterations (reference converges after {it_ref})"
        elif abs(r.iterations - it_ref) > 1:
            v = f"{r.iterations} iterations, the reference power iteration needs {it_ref}"
        elif set(sc) != set(nodes) or min(sc.values()) < 0 or abs(math.fsum(sc.values()) - 1) > 1e-9:
            v = f"scores {sc} are not a probability vector"
        else:
            err = sum(abs(Fraction(sc[x]) - star[x]) for x in nodes)
            bound = Fraction(d) * 3 * Fraction(tol) / (1 - Fraction(d)) + Fraction(1, 10**9)
            if err > bound:
                v = f"L1 distance to the exact PageRank vector {float(err):.3e} > damping*n*tol/(1-damping) = {float(bound):.3e}"
        if v:
            bad.append((f"pagerank on the 3-node slow-mixing graph, damping={d}, tol={tol}: {v}", rep))
    # tol = 0: exactly max_iter iterations, at every threshold +-1
    caps = [2**7, 2**10, 2**11, 2**12, 10**4] + ([10**5] if ctx.tier == "quick" else [10**5, 2**20])
    for cap in caps:
        for m in (cap - 1, cap, cap + 1):
            rep = {"kind": "work", "fn": "pagerank", "instance": f"slow3 tol=0 max_iter={m}"}
            r = guarded(pagerank, list(nodes), f, damping=0.9999, tol=0.0, max_iter=m, timeout=60)
            ctx.evaluations += 1
            if r[0] != "ok":
                bad.append((f"pagerank {rep['instance']}: {r}", rep))
                break
            r = r[1]
            _count(ctx, "pagerank_power_iterations", r.iterations)
            ref, _, _ = pr_float_reference(nodes, nb, 0.9999, 0.0, m)
            if r.iterations != m or r.status.name != "MAX_ITER":
                bad.append((f"pagerank tol=0, max_iter={m}: {r.iterations} iterations / {r.status.name} (expected {m} / MAX_ITER)", rep))
                break
            if max(abs(r.solution[x] - ref[x]) for x in nodes) > 1e-9:
                bad.append((f"pagerank tol=0, max_iter={m}: scores {r.solution} differ from the {m}-th iterate {ref}", rep))
                break


# ================================================================================================ W : DFS / k-core / louvain
def _sparse_random(n, deg, seed):
    rng = random.Random(seed)
    return list(range(n)), {v: [rng.randrange(n) for _ in range(deg)] for v in range(n)}


def run_work_graphs(ctx, bad):
    from harness.core import guarded
    from harness.props.C15_hard import fast_modularity

    articulation_points, bridges, kcore_decomposition, kcore, pagerank, louvain = _mods()
    big = ctx.tier == "thorough"

    # ---- low-link DFS: calls (= nodes on a path) and adjacency steps (cliques, duplicate bundles)
    for n in [100003] + ([2**20 + 2] if big else []):
        f = lambda v, n=n: [w for w in (v - 1, v + 1) if 0 <= w < n]  # noqa: E731
        for name, fn, want in (("articulation_points", articulation_points, n - 2), ("bridges", bridges, n - 1)):
            rep = {"kind": "work", "fn": name, "instance": f"path{n}"}
            r = guarded(fn, range(n), f, timeout=120)
            ctx.evaluations += 1
            if r[0] != "ok":
                bad.append((f"{name} on a path of {n} nodes: {r}", rep))
                continue
            _count(ctx, "lowlink_dfs_calls", r[1].iterations)
            sol = r[1].solution
            ok = (len(sol) == want and r[1].iterations == n and
                  (set(sol) == set(range(1, n - 1)) if name == "articulation_points" else set(sol) == {(i, i + 1) for i in range(n - 1)}))
            if not ok:
                bad.append((f"{name} on a path of {n} nodes: {len(sol)} reported ({r[1].iterations} dfs calls), {want} by construction", rep))
    for m in [150] + ([1500] if big else []):  # clique + one pendant per clique node: every clique node is a cut vertex, every pendant edge a bridge
        def f(v, m=m):
            return [w for w in range(m) if w != v] + [m + v] if v < m else [v - m]
        nodes = list(range(2 * m))
        for name, fn, want in (("articulation_points", articulation_points, set(range(m))), ("bridges", bridges, {(v, m + v) for v in range(m)})):
            rep = {"kind": "work", "fn": name, "instance": f"clique{m}+pendants"}
            r = guarded(fn, nodes, f, timeout=120)
            ctx.evaluations += 1
            _count(ctx, "lowlink_adjacency_steps", m * (m - 1) + 2 * m)
            if r[0] != "ok" or set(r[1].solution) != want or len(r[1].solution) != len(want):
                bad.append((f"{name} on K{m} with a pendant at every vertex: {len(r[1].solution) if r[0] == 'ok' else r} reported, {len(want)} by construction", rep))
    D = 100001 if not big else 2**20 + 1
    # the only real neighbour of 0 comes after D/2 self loops and D/2 labels outside the node set; 3 lists 0 D times
    nbd = {0: [0] * (D // 2) + [99] * (D // 2) + [1], 1: [2, 3], 2: [3], 3: [3] + [0] * D}
    nodes = [0, 1, 2, 3]
    for name, fn, want in (("articulation_points", articulation_points, set()), ("bridges", bridges, set())):
        rep = {"kind": "work", "fn": name, "instance": f"bundle{D}"}
        r = guarded(fn, nodes, lambda v: nbd[v], timeout=60)
        ctx.evaluations += 1
        _count(ctx, "adjacency_build_neighbour_entries", 2 * D)
        if r[0] != "ok" or set(r[1].solution) != want:
            bad.append((f"{name}: 0 lists {D - 1} self loops / outside labels and then 1; 3 lists 0 {D} times; with 1-2, 1-3, 2-3 the graph is 2-connected: "
                        f"{r[1].solution if r[0] == 'ok' else r}, expected none", rep))
    nbd2 = {0: [0] * (D // 2) + [99] * (D // 2) + [1], 1: [2], 2: []}  # path 0-1-2 whose first edge is entry number D of its list
    for name, fn, want in (("articulation_points", articulation_points, {1}), ("bridges", bridges, {(0, 1), (1, 2)})):
        r = guarded(fn, [0, 1, 2], lambda v: nbd2[v], timeout=60)
        ctx.evaluations += 1
        if r[0] != "ok" or set(r[1].solution) != want:
            bad.append((f"{name} on the path 0-1-2 where 1 is entry {D} of neighbors(0) after self loops and outside labels: {r[1].solution if r[0] == 'ok' else r}",
                        {"kind": "work", "fn": name, "instance": f"late-edge{D}"}))
    r = guarded(kcore_decomposition, [0, 1, 2], lambda v: nbd2[v], timeout=60)
    if r[0] != "ok" or r[1].solution != {0: 1, 1: 1, 2: 1}:
        bad.append((f"kcore_decomposition on the path 0-1-2 where 1 is entry {D} of neighbors(0): {r[1].solution if r[0] == 'ok' else r}",
                    {"kind": "work", "fn": "kcore_decomposition", "instance": f"late-edge{D}"}))
    r = guarded(louvain, [0, 1, 2], lambda v: nbd2[v], timeout=60)
    if r[0] != "ok" or sorted(v for c in r[1].solution for v in c) != [0, 1, 2] or abs(Fraction(r[1].objective) - fast_modularity([0, 1, 2], lambda v: nbd2[v], 1.0, r[1].solution)) > Fraction(1, 10**9):
        bad.append((f"louvain on the path 0-1-2 where 1 is entry {D} of neighbors(0): {r[1] if r[0] == 'ok' else r}", {"kind": "work", "fn": "louvain", "instance": f"late-edge{D}"}))
    S = 100003 if not big else 2**20 + 2  # star: one node with S distinct neighbours
    fs = lambda v, S=S: range(1, S + 1) if v == 0 else ()  # noqa: E731
    for name, fn, want in (("articulation_points", articulation_points, 1), ("bridges", bridges, S)):
        r = guarded(fn, range(S + 1), fs, timeout=120)
        ctx.evaluations += 1
        _count(ctx, "lowlink_adjacency_steps", 2 * S)
        if r[0] != "ok" or len(r[1].solution) != want or (name == "bridges" and set(r[1].solution) != {(0, i) for i in range(1, S + 1)}):
            bad.append((f"{name} on a star with {S} leaves: {len(r[1].solution) if r[0] == 'ok' else r} reported, {want} by construction", {"kind": "work", "fn": name, "instance": f"star{S}"}))
    r = guarded(kcore_decomposition, range(S + 1), fs, timeout=120)
    _count(ctx, "kcore_levels", S + 1)
    if r[0] != "ok" or set(r[1].solution.values()) != {1} or len(r[1].solution) != S + 1:
        bad.append((f"kcore_decomposition on a star with {S} leaves: core numbers are not all 1", {"kind": "work", "fn": "kcore_decomposition", "instance": f"star{S}"}))

    # ---- k-core: pops, levels, bucket moves
    for m in [100, 150] + ([460, 1100] if big else []):
        f = lambda v, m=m: [w for w in range(m) if w > v]  # noqa: E731
        rep = {"kind": "work", "fn": "kcore_decomposition", "instance": f"clique{m}"}
        r = guarded(kcore_decomposition, range(m), f, timeout=120)
        ctx.evaluations += 1
        _count(ctx, "kcore_bucket_moves", m * (m - 1) // 2)  # peeling K_m: the j-th pop moves the m-j remaining nodes one bucket down (clamped at k)
        if r[0] != "ok" or r[1].solution != dict.fromkeys(range(m), m - 1) or r[1].iterations != m:
            bad.append((f"kcore_decomposition on K{m}: core numbers are not all {m - 1}", rep))
        rk = guarded(kcore, range(m), f, m - 1, timeout=120)
        if rk[0] != "ok" or rk[1].solution != set(range(m)):
            bad.append((f"kcore(k={m - 1}) on K{m} is not the whole clique", {**rep, "fn": "kcore"}))
    for n in [100003] + ([2**20 + 2] if big else []):
        # a path with a clique K12 at its far end: 2 levels do all the pops, the clique waits in the high buckets
        def f(v, n=n):
            return [v + 1] if v < n - 12 else [w for w in range(n - 12, n) if w > v]
        rep = {"kind": "work", "fn": "kcore_decomposition", "instance": f"path+K12 ({n})"}
        r = guarded(kcore_decomposition, range(n), f, timeout=120)
        ctx.evaluations += 1
        if r[0] != "ok":
            bad.append((f"kcore_decomposition on {rep['instance']}: {r}", rep))
            continue
        _count(ctx, "kcore_pops", r[1].iterations)
        sol = r[1].solution
        if r[1].iterations != n or any(sol[v] != (11 if v >= n - 12 else 1) for v in range(n)):
            bad.append((f"kcore_decomposition on a path of {n - 12} nodes ending in K12: wrong core numbers ({r[1].iterations} pops)", rep))

    # ---- louvain: sweeps, node visits, modularity pair loop; loop structure read from the run
    from harness.props import C15 as M

    for n, deg, seed, traced in [(3000, 3, 18, True), (1000, 3, 7, True)] + ([(30000, 3, 3, False), (10000, 3, 2, True)] if big else []):
        nodes, nb = _sparse_random(n, deg, seed)
        rep = {"kind": "work", "fn": "louvain", "instance": f"sparse random n={n} deg={deg} seed={seed}"}
        if traced:
            r = guarded(M.run_lv, nodes, nb, 1.0, None, False, True, timeout=120)
        else:
            r = guarded(louvain, nodes, lambda v: nb[v], timeout=120)
        ctx.evaluations += 1
        if r[0] != "ok":
            bad.append((f"louvain on {rep['instance']}: {r}", rep))
            continue
        if traced:
            o = r[1]
            comms, obj, its = o["solution"], o["objective"], o["iterations"]
        else:
            comms, obj, its = [sorted(c) for c in r[1].solution], r[1].objective, r[1].iterations
        _count(ctx, "louvain_sweeps", its)
        _count(ctx, "louvain_node_visits", its * n)
        _count(ctx, "louvain_modularity_pair_loop", sum(len(c) ** 2 for c in comms))
        flat = [v for c in comms for v in c]
        if len(flat) != n or set(flat) != set(nodes) or any(not c for c in comms):
            bad.append((f"louvain on {rep['instance']}: result is not a partition of the node set", rep))
        elif abs(Fraction(obj) - fast_modularity(nodes, lambda v: nb[v], 1.0, comms)) > Fraction(1, 10**9):
            bad.append((f"louvain on {rep['instance']}: reported modularity {obj!r} is not the modularity of the returned partition", rep))
        elif traced and o["moves"]:
            mv = o["moves"]
            if len(mv) != n * its:
                bad.append((f"louvain on {rep['instance']}: {len(mv)} node visits traced for {its} sweeps of {n} nodes", rep))
            else:
                moved = [any(m[2] != m[3] for m in mv[i * n:(i + 1) * n]) for i in range(its)]
                if not all(moved[:-1]) or moved[-1]:
                    bad.append((f"louvain on {rep['instance']}: `while improved` ended after sweep {its} although "
                                f"{'that sweep still moved a node' if moved[-1] else 'an earlier sweep moved nothing'}", rep))
    _count(ctx, "louvain_modularity_pair_loop", 2050 ** 2)  # star2049 of the S family: one community of 2050 nodes


# ================================================================================================ A2 : in-place edits between calls
def _canon_all(M, nodes, adj, f, order, k, params):
    """call the six public functions with the SAME node list / function objects; canonical outputs on labels"""
    articulation_points, bridges, kcore_decomposition, kcore, pagerank, louvain = _mods()
    out = {}
    for name in order:
        try:
            if name == "ap":
                out[name] = sorted(articulation_points(nodes, f).solution)
            elif name == "br":
                out[name] = sorted(bridges(nodes, f).solution)
            elif name == "kc":
                out[name] = sorted(kcore_decomposition(nodes, f).solution.items())
            elif name == "kk":
                out[name] = sorted(kcore(nodes, f, k).solution)
            elif name == "pr":
                r = pagerank(nodes, f, damping=params[0][0] / params[0][1], tol=params[1], max_iter=params[2])
                out[name] = (sorted(r.solution.items()), r.objective, r.iterations, r.status.name)
            else:
                r = louvain(nodes, f, resolution=params[3])
                out[name] = (sorted(sorted(c) for c in r.solution), r.objective, r.iterations)
        except Exception as e:  # noqa: BLE001
            out[name] = ("exc", type(e).__name__, str(e)[:80])
    return out


def _edit(rng, nodes, adj):
    """one in-place edit of the caller's graph; returns its description"""
    ops = ["append", "delete", "replace", "clear", "swap_nodes", "new_node", "drop_node", "append_dup", "rename_node"]
    for _ in range(20):
        op = rng.choice(ops)
        if op == "append" and len(nodes) >= 2:
            u, w = rng.sample(nodes, 2)
            adj[u].append(w)
            return f"adj[{u}].append({w})"
        if op == "append_dup":
            u = rng.choice(nodes)
            if adj[u]:
                adj[u].append(adj[u][0])
                return f"adj[{u}].append(adj[{u}][0])"
        if op == "delete":
            cand = [u for u in nodes if adj[u]]
            if cand:
                u = rng.choice(cand)
                i = rng.randrange(len(adj[u]))
                w = adj[u].pop(i)
                return f"del adj[{u}][{i}] (was {w})"
        if op == "replace" and len(nodes) >= 2:
            cand = [u for u in nodes if adj[u]]
            if cand:
                u = rng.choice(cand)
                i = rng.randrange(len(adj[u]))
                adj[u][i] = rng.choice(nodes)
                return f"adj[{u}][{i}] = {adj[u][i]}"
        if op == "clear":
            cand = [u for u in nodes if adj[u]]
            if cand:
                u = rng.choice(cand)
                adj[u].clear()
                return f"adj[{u}].clear()"
        if op == "swap_nodes" and len(nodes) >= 2:
            i, j = rng.sample(range(len(nodes)), 2)
            nodes[i], nodes[j] = nodes[j], nodes[i]
            return f"nodes[{i}], nodes[{j}] swapped"
        if op == "new_node" and len(nodes) < 9:
            new = max(nodes + [0]) + rng.randint(1, 3)
            adj[new] = [rng.choice(nodes)] if nodes else []
            nodes.append(new)
            return f"nodes.append({new}); adj[{new}] = {adj[new]}"
        if op == "drop_node" and len(nodes) > 2:
            v = nodes.pop(rng.randrange(len(nodes)))
            return f"nodes.remove({v}) (entries pointing to it stay: now outside the node set)"
        if op == "rename_node" and nodes:
            i = rng.randrange(len(nodes))
            new = max(nodes) + 1
            adj[new] = adj[nodes[i]]  # the SAME list object under a new name
            old = nodes[i]
            nodes[i] = new
            return f"nodes[{i}] = {new} (was {old}; same neighbour list object)"
    return "no-op"


def run_inplace(ctx, bad):
    from harness.props import C15 as M

    rng = ctx.rng
    n_cases = 40 if ctx.tier == "quick" else 600
    for case_no in range(n_cases):
        nodes0, nb0 = M.gen_graph(rng, False)
        if len(nodes0) < 2:
            continue
        nodes = list(nodes0)  # ONE node list object
        adj = {v: list(nb0[v]) for v in nodes}  # ONE live dict
        style = rng.choice(["lambda", "dict.get", "method"])
        if style == "lambda":
            f = lambda v: adj[v]  # noqa: E731   ONE function object for the whole sequence
        elif style == "dict.get":
            f = adj.__getitem__
        else:
            class G:
                def nb(self, v):
                    return adj[v]
            f = G().nb
        params = (rng.choice(M.DAMPINGS), rng.choice([1e-3, 1e-6]), rng.choice([3, 10, 100]), rng.choice([1.0, 0.5, 2.0]))
        names = ["ap", "br", "kc", "kk", "pr", "lv"]
        history = [f"nodes = {nodes}", f"adj = {adj}", f"neighbour function: {style}"]
        first = rng.choice(names)
        _canon_all(M, nodes, adj, f, [first], 1, params)
        history.append(f"call {first}")
        ok = True
        for rnd in range(4):
            history.append(_edit(rng, nodes, adj))
            if rng.random() < 0.3:  # unrelated calls in between: new function objects that are dropped again (id() reuse), same sizes
                other = {v: [w for w in nodes if w != v][:1] for v in nodes}
                g = lambda v: other[v]  # noqa: E731
                _canon_all(M, list(nodes), other, g, rng.sample(names, 2), 1, params)
                del g
                history.append("unrelated calls on another graph of the same size through a temporary lambda")
            order = rng.sample(names, len(names))
            k = rng.randint(0, 3)
            live = _canon_all(M, nodes, adj, f, order, k, params)
            ctx.evaluations += 12
            snap_nodes, snap_adj = copy.deepcopy(nodes), copy.deepcopy(adj)
            fresh = _canon_all(M, snap_nodes, snap_adj, (lambda a: (lambda v: a[v]))(snap_adj), names, k, params)
            history.append(f"call {order} (k={k})")
            rep = {"kind": "inplace", "history": list(history), "nodes": snap_nodes, "nb": {str(u): x for u, x in snap_adj.items() if u in snap_nodes},
                   "damping": list(params[0]), "tol": params[1], "max_iter": params[2], "resolution": params[3]}
            nbn = {v: snap_adj[v] for v in snap_nodes}
            ref = {"ap": M.ref_cut_vertices(snap_nodes, nbn), "br": M.ref_bridges(snap_nodes, nbn),
                   "kc": sorted(M.ref_core_numbers(snap_nodes, nbn).items())}
            ref["kk"] = sorted(v for v, c in ref["kc"] if c >= k)
            for name in names:
                v = None
                if name in ref and live[name] != ref[name]:
                    v = f"{name} after the in-place edit `{history[-2] if 'unrelated' not in history[-2] else history[-3]}` returned {str(live[name])[:100]}, the current graph gives {str(ref[name])[:100]}"
                elif live[name] != fresh[name]:
                    v = f"{name} on the edited live objects returned {str(live[name])[:110]}, on a deep copy through a new function object {str(fresh[name])[:110]}"
                if v:
                    bad.append((v + " (answer depends on an earlier call)", rep))
                    ok = False
                    break
            if not ok:
                break
        ctx.count("A2_inplace_sequences", "ok" if ok else "violation")


def run_duplicates(ctx, bad):
    """a node listed twice in `nodes`: OUTSIDE the property (POLICY_X (d): `nodes` is a collection of distinct nodes) - observation only:
    the call may return anything or raise; outcomes are counted, never judged"""
    from harness.core import guarded
    from harness.props import C15 as M

    rng = ctx.rng
    for _ in range(6 if ctx.tier == "quick" else 40):
        nodes0, nb = M.gen_graph(rng, False)
        if not nodes0:
            continue
        dup = list(nodes0)
        dup.insert(rng.randrange(len(dup) + 1), rng.choice(nodes0))
        params = (rng.choice(M.DAMPINGS), 1e-6, 100, 1.0)
        r = guarded(_canon_all, M, dup, nb, lambda v: nb[v], ["ap", "br", "kc", "kk", "pr", "lv"], 1, params, timeout=10)
        ctx.evaluations += 6
        ctx.count("observation_only", "node listed twice: " + ("returned" if r[0] == "ok" else r[0]))


# ================================================================================================ X : float extremes
def run_extremes(ctx, bad):
    from harness.core import guarded
    from harness.props import C15 as M

    articulation_points, bridges, kcore_decomposition, kcore, pagerank, louvain = _mods()
    rng = ctx.rng
    nan, inf = float("nan"), float("inf")

    def outside(x):
        """POLICY_X (a)/(b): NaN, +-inf, or finite floats of overflow magnitude - observation only"""
        return isinstance(x, float) and (x != x or abs(x) >= 1e300)

    def observe(what, r):
        ctx.count("observation_only", f"{what}: " + ("returned" if r[0] == "ok" else "raised" if r[0] == "exc" else r[0]))

    for _ in range(12 if ctx.tier == "quick" else 150):
        nodes, nb = M.gen_graph(rng, False)
        if len(nodes) < 2:
            continue
        f = lambda v: nb[v]  # noqa: E731
        base = {"kind": "extreme", "nodes": nodes, "nb": {str(k): v for k, v in nb.items()}, "damping": [17, 20], "tol": 1e-6, "max_iter": 100, "resolution": 1.0}
        # ---- pagerank: tol
        for tol in (nan, inf, -0.0, 0, -1.0, -inf, 5e-324, 1, 1e308):
            r = guarded(pagerank, list(nodes), f, damping=0.85, tol=tol, max_iter=30, timeout=5)
            ctx.evaluations += 1
            ctx.count("X_float_extremes", "pagerank tol")
            rep = {**base, "fn": "pagerank", "args": f"tol={tol!r}, max_iter=30"}
            if outside(tol) and tol != 1e308:  # a huge FINITE tol is an ordinary option corner and stays judged
                observe("pagerank tol nan/inf", r)
                continue
            if r[0] != "ok":
                if not (r[0] == "exc" and r[1] in ("ValueError", "TypeError")):
                    bad.append((f"pagerank(tol={tol!r}): {r}", rep))
                continue
            o = {"solution": dict(r[1].solution), "status": r[1].status.name, "objective": r[1].objective, "iterations": r[1].iterations}
            if tol != tol or tol <= 0:  # nothing is < tol: never converged
                v = None if (o["status"], o["iterations"]) == ("MAX_ITER", 30) else f"{o['status']} after {o['iterations']} iterations, but no max_diff is < tol"
                v = v or M.judge_pr(nodes, nb, (17, 20), 1e-6, 30, {**o, "status": "MAX_ITER"})
            elif tol >= 1:  # every max_diff of probability vectors is < 1: first iteration
                v = None if (o["status"], o["iterations"]) == ("OPTIMAL", 1) else f"{o['status']} after {o['iterations']} iterations, but max_diff < 1 <= tol at the first"
                v = v or M.judge_pr(nodes, nb, (17, 20), 1e-6, 30, {**o, "status": "MAX_ITER", "iterations": 30})
            else:
                v = M.judge_pr(nodes, nb, (17, 20), tol, 30, o)
            if v:
                bad.append((f"pagerank(tol={tol!r}, max_iter=30): {v}", rep))
        # ---- pagerank: damping at the ends of [0,1] as ints / floats / -0.0; non-finite or outside -> must raise (or still be a simplex)
        for d in (0, 1, 0.0, 1.0, -0.0, True, nan, inf, -inf, -0.5, 1.5, 1e308):
            r = guarded(pagerank, list(nodes), f, damping=d, tol=1e-9, max_iter=20, timeout=5)
            ctx.evaluations += 1
            ctx.count("X_float_extremes", "pagerank damping")
            rep = {**base, "fn": "pagerank", "args": f"damping={d!r}, tol=1e-9, max_iter=20"}
            if outside(d) or not 0 <= d <= 1:  # the property quantifies over damping in (0,1); the closed ends stay judged
                observe("pagerank damping nan/inf/outside [0,1]", r)
                continue
            if r[0] != "ok":
                if not (r[0] == "exc" and r[1] in ("ValueError", "TypeError")):
                    bad.append((f"pagerank(damping={d!r}): {r}", rep))
                continue
            o = {"solution": dict(r[1].solution), "status": r[1].status.name, "objective": r[1].objective, "iterations": r[1].iterations}
            fr = Fraction(d)
            v = M.judge_pr(nodes, nb, (fr.numerator, fr.denominator), 1e-9, 20, o)
            if v:
                bad.append((f"pagerank(damping={d!r}): {v}", rep))
        # ---- pagerank: max_iter as float / bool / negative
        for mi in (5.0, True, False, -1, -10**18):
            r = guarded(pagerank, list(nodes), f, max_iter=mi, timeout=5)
            ctx.evaluations += 1
            rep = {**base, "fn": "pagerank", "args": f"max_iter={mi!r}"}
            if r[0] == "exc" and r[1] in ("TypeError", "ValueError"):
                continue
            eff = max(0, int(mi))
            if r[0] != "ok":
                bad.append((f"pagerank(max_iter={mi!r}): {r}", rep))
                continue
            o = {"solution": dict(r[1].solution), "status": r[1].status.name, "objective": r[1].objective, "iterations": r[1].iterations}
            v = M.judge_pr(nodes, nb, (17, 20), 1e-6, eff, o)
            if v:
                bad.append((f"pagerank(max_iter={mi!r}): {v}", rep))
        # ---- louvain: resolution
        E = M.sym_edges(nodes, nb)
        for res in (1, 2, 0, -0.0, 0.0, -1.0, -3, 5e-324, 1e-300, 1e308, 2.0**1023, nan, inf, -inf):
            r = guarded(louvain, list(nodes), f, resolution=res, timeout=5)
            ctx.evaluations += 1
            ctx.count("X_float_extremes", "louvain resolution")
            rep = {**base, "fn": "louvain", "args": f"resolution={res!r}", "resolution": res if res == res and abs(res) != inf else str(res)}
            if outside(res):
                observe("louvain resolution nan/inf/>=1e300", r)
                continue
            if r[0] != "ok":
                if not (r[0] == "exc" and r[1] in ("ValueError", "TypeError")):
                    bad.append((f"louvain(resolution={res!r}): {r}", rep))
                continue
            comms = [sorted(c) for c in r[1].solution]
            obj = r[1].objective
            flat = [v for c in comms for v in c]
            if sorted(flat) != sorted(nodes) or any(not c for c in comms):
                bad.append((f"louvain(resolution={res!r}): {comms} is not a partition of the node set", rep))
                continue
            exp = M.ref_modularity(nodes, nb, res, comms) if E else Fraction(0)
            if abs(exp) > Fraction(17, 10) * 10**308:
                good = obj == (inf if exp > 0 else -inf) or (math.isfinite(obj) and abs(Fraction(obj) - exp) <= abs(exp) / 10**9)
            else:
                good = obj == obj and math.isfinite(obj) and abs(Fraction(obj) - exp) <= M.EPS * max(1, abs(exp))
            if not good:
                try:
                    shown = repr(float(exp))
                except OverflowError:
                    shown = "beyond the float range (%s)" % ("-" if exp < 0 else "+")
                bad.append((f"louvain(resolution={res!r}) reports modularity {obj!r}, the returned partition has {shown}", rep))
        # ---- kcore: k as integral float, fraction, nan, inf, bool, -0.0
        core = M.ref_core_numbers(nodes, nb)
        for k in (2.0, 1.0, 0.5, 1.5, nan, inf, -inf, -0.0, True, False, 1e308, 5e-324, Fraction(3, 2)):
            r = guarded(kcore, list(nodes), f, k, timeout=5)
            ctx.evaluations += 1
            ctx.count("X_float_extremes", "kcore k")
            rep = {**base, "fn": "kcore", "args": f"k={k!r}"}
            if isinstance(k, float) and (k != k or abs(k) == inf):
                observe("kcore k nan/inf", r)
                continue
            if r[0] != "ok":
                if not (r[0] == "exc" and r[1] in ("ValueError", "TypeError")):
                    bad.append((f"kcore(k={k!r}): {r}", rep))
                continue
            want = {v for v in nodes if core[v] >= k}
            if set(r[1].solution) != want or r[1].objective != len(want):
                bad.append((f"kcore(k={k!r}) returned {sorted(r[1].solution)}, nodes with core number >= k are {sorted(want)}", rep))


def run_all(ctx, bad):
    t = {}
    for name, fn in (("W_pagerank", run_work_pagerank), ("W_graphs", run_work_graphs), ("A2_inplace", run_inplace),
                     ("A2_duplicates", run_duplicates), ("X_extremes", run_extremes)):
        t0 = time.time()
        fn(ctx, bad)
        t[name] = round(time.time() - t0, 2)
    ctx.extra["r3_family_seconds"] = t
    for k, v in ctx.extra.get("W_max_iterations_per_loop", {}).items():
        ctx.count("W_max_iterations_per_loop", k, v)
