"""Round-2 generator families of the job-shop part of C18 (pure data; run and judged by harness/props/C18.py).

A case is the dict of C18.py ({"jobs": [[ [machine, duration] ]], "rule", "seed", "local_search", "max_iter", "cb_k", "interval"}) plus
optional keys that say HOW the call is made (the model always sees the plain integers of "jobs"):
  shape       container types of the jobs argument: list_tuple (default) | tuple_tuple | list_list | seq (a collections.abc.Sequence
              that is neither list nor tuple) | mixed
  fresh_ints  machines and durations are produced by arithmetic at call time (equal-but-not-identical int objects above 256)
  bool_labels machine 0/1 and duration 0/1 are passed as False/True
  float_durs  durations passed as float(d) (integer-valued floats)
  half        durations passed as d / 2 (dyadic); the returned times are doubled back before judging (metamorphic: halving every
              duration halves the schedule exactly)
  scale       K: durations passed as d * K; "jobs" already holds the scaled integers, "base" the unscaled case (metamorphic: the
              schedule of the scaled call is K times the schedule of the base call, same seed)
  omit        keyword arguments left to their defaults (rule='spt', local_search=True, max_iter=1000, seed=None)
  nocoq       too large for vm_compute: judged by the Python oracle and `expect` only
  expect      {"objective": x} and/or {"schedule": [[j, k, s, e]]} known by construction
  family      name for the histogram
"""
from harness.props.jobshop_events import RULES, gen_bottleneck, gen_flow, gen_random, gen_staggered

SMALL = (gen_staggered, gen_flow, gen_bottleneck, gen_random)


def _base(rng, jobs, **kw):
    c = {"jobs": jobs, "rule": rng.choice(RULES), "seed": rng.randrange(1000), "local_search": True,
         "max_iter": rng.choice([1, 5, 30]), "cb_k": None, "interval": 0}
    c.update(kw)
    return c


def _small(rng):
    c = rng.choice(SMALL)(rng)
    c["max_iter"] = rng.choice([1, 5, 30])
    return c


# ---------------------------------------------------------------- L / I: labels, containers
def gen_shapes(rng):
    c = _small(rng)
    c["shape"] = rng.choice(["tuple_tuple", "list_list", "seq", "mixed", "seq"])
    c["family"] = "I:" + c["shape"]
    r = rng.random()
    if r < 0.06:
        c["jobs"][rng.randrange(len(c["jobs"]))] = []        # an empty job in a non-list container: ValueError
    elif r < 0.10:
        rng.choice(rng.choice(c["jobs"]))[rng.randrange(2)] = -1
    elif r < 0.13:
        c["jobs"] = []                                        # an empty tuple / Sequence of jobs
    return c


def gen_labels(rng):
    c = _small(rng)
    r = rng.random()
    if r < 0.55:
        off = rng.choice([257, 258, 300, 1000])          # machine numbers >= 257: `is` differs while == holds
        for job in c["jobs"]:
            for o in job:
                o[0] += off
                o[1] = o[1] + rng.choice([0, 257, 1000]) if o[1] else 0
        c["fresh_ints"] = True
        c["family"] = "L:fresh-ints>=257"
        # n_machines = max + 1: a drawn machine is rarely a used one, so many passes are needed for the local search to act
        c["max_iter"] = rng.choice([300, 1000]) if off <= 320 else 2000
    elif r < 0.8:
        for job in c["jobs"]:
            for o in job:
                o[0] %= 2
                o[1] = o[1] % 2 if rng.random() < 0.5 else o[1]
        c["bool_labels"] = True
        c["family"] = "L:bool-labels"
    else:
        c["fresh_ints"] = True
        c["shape"] = rng.choice(["seq", "tuple_tuple"])
        for job in c["jobs"]:
            for o in job:
                o[1] *= 300
        c["family"] = "L:fresh-durations"
    return c


# ---------------------------------------------------------------- M: magnitudes
MAGS = [2**31, 10**9, 2**53 - 1, 2**53 + 1, 2**60, 10**18, 2**44 + 1, 2**31 - 1, 10**9 + 7]


def gen_scaled(rng):
    base = _small(rng)
    k = rng.choice(MAGS)
    c = {**base, "jobs": [[[m, d * k] for m, d in job] for job in base["jobs"]], "scale": k, "base": base, "family": "M:scaled"}
    return c


def gen_mixed_magnitudes(rng):
    c = _small(rng)
    for job in c["jobs"]:
        for o in job:
            r = rng.random()
            if r < 0.4:
                o[1] = rng.choice([2**44, 2**53, 2**60, 10**18, 2**31]) + rng.choice([-1, 0, 1, 1, 3])
            elif r < 0.5:
                o[1] = rng.choice([2**53 - 1, 2**53 + 1, 2**62])
    c["family"] = "M:huge+tiny"
    return c


def gen_float_durs(rng):
    c = _small(rng)
    r = rng.random()
    if r < 0.5:
        c["float_durs"] = True
        c["family"] = "M:integral-floats"
        if rng.random() < 0.4:
            k = rng.choice([2**20, 2**40, 10**9])
            for job in c["jobs"]:
                for o in job:
                    o[1] *= k
    else:
        c["half"] = True                                # "jobs" holds the doubled durations
        c["family"] = "M:dyadic-halves"
    return c


# ---------------------------------------------------------------- O: option corners and sweeps
def gen_option_corner(rng):
    c = _small(rng)
    r = rng.random()
    if r < 0.3:
        c["max_iter"] = rng.choice([999, 1000, 1001, 101, 100, 99, 2, 3])
    elif r < 0.45:
        c["omit"] = ["max_iter"]
        c["max_iter"] = 1000
    elif r < 0.6:
        c["omit"] = rng.choice([["rule"], ["local_search"], ["rule", "local_search", "max_iter"]])
        if "rule" in c["omit"]:
            c["rule"] = "spt"
        if "max_iter" in c["omit"]:
            c["max_iter"] = 1000
    elif r < 0.75:
        c["omit"] = ["seed"]                             # seed=None: the recorded draws still determine the model's run
        c["seed"] = None
    elif r < 0.85:
        c["seed"] = rng.choice([0, -1, 2**40, 2**64 + 1])
    else:
        c["cb_k"] = rng.choice([1, 2, 3, 100, 101])
        c["interval"] = rng.choice([1, 2, 5, 100, -1])
        c["max_iter"] = rng.choice([5, 30, 150])
    if c["max_iter"] > 150 and sum(len(j) for j in c["jobs"]) > 9:
        c["jobs"] = c["jobs"][:2]
    c["family"] = "O:corner"
    return c


def gen_sweep(rng, lo=1, hi=40):
    """one instance, max_iter = lo..hi (same seed: each run extends the previous one by one pass)"""
    base = _small(rng)
    return [{**base, "jobs": [[list(o) for o in job] for job in base["jobs"]], "max_iter": k, "family": "O:max_iter-sweep"}
            for k in range(lo, hi + 1)]


# ---------------------------------------------------------------- S: sizes, answers known by construction
def gen_sized(rng, big=False):
    out = []
    for n in (17, 65, 257, 1025) + ((2049,) if big else ()):
        durs = [rng.randint(0, 9) for _ in range(n)]
        # one job, n operations alternating over 3 machines: start_k = sum of the durations before it
        jobs = [[[k % 3, d] for k, d in enumerate(durs)]]
        pre, sched = 0, []
        for k, d in enumerate(durs):
            sched.append([0, k, pre, pre + d])
            pre += d
        out.append(_base(rng, jobs, local_search=n <= 65, max_iter=2, nocoq=n > 17, family=f"S:chain-{n}",
                         expect={"objective": pre, "schedule": sched}))
        # n jobs, one operation each on its own machine: everything starts at 0
        out.append(_base(rng, [[[j, d]] for j, d in enumerate(durs)], max_iter=30, nocoq=n > 17, family=f"S:parallel-{n}",
                         expect={"objective": max(durs), "schedule": [[j, 0, 0, d] for j, d in enumerate(durs)]}))
        if n <= 1025:
            # n jobs, one operation each on ONE machine: makespan = sum, whatever the order
            out.append(_base(rng, [[[0, d]] for d in durs], local_search=n <= 65, max_iter=2, nocoq=n > 17, family=f"S:single-machine-{n}",
                             expect={"objective": sum(durs)}))
        if n <= 257:
            # two-stage flow shop, n jobs
            out.append(_base(rng, [[[0, rng.randint(0, 5)], [1, rng.randint(0, 5)]] for _ in range(n)], local_search=n <= 17, max_iter=2,
                             nocoq=n > 17, family=f"S:flow2-{n}"))
    for top in (257, 2049, 65537, 10**6):
        c = _small(rng)
        ms = sorted({o[0] for job in c["jobs"] for o in job})
        for job in c["jobs"]:
            for o in job:
                if o[0] == ms[-1]:
                    o[0] = top
        c.update(max_iter=2, nocoq=top > 320, family=f"S:machine-index-{top}")
        out.append(c)
    return out


# ---------------------------------------------------------------- A: aliasing / call sequences
def gen_alias(rng):
    """(a, b): two calls on ONE shared jobs object, run a, b, a, b; the answers must not depend on the history"""
    a = _small(rng)
    a["shape"] = rng.choice(["list_tuple", "list_list", "seq", "tuple_tuple"])
    b = {**a, "rule": rng.choice(RULES), "seed": rng.randrange(1000), "local_search": rng.random() < 0.7, "max_iter": rng.choice([0, 1, 5, 30])}
    a["family"] = b["family"] = "A:shared-input"
    return a, b


# ================================================================ round 3
# ---------------------------------------------------------------- W: work volume of every internal loop, answers by construction
def gen_work(rng, big=False):
    """Instances that maximise the iteration count of ONE internal loop at moderate input size and cross 2^7, 2^10, 2^11, 2^12, 10^4, 10^5
    (2^20) iterations of it.  `expect` also fixes Result.iterations / Result.evaluations where the construction determines them; `port`
    asks for the exact comparison with the reference port (jobshop_events.ref_run) as well."""
    out = []

    def chain(n, machines):
        durs = [rng.randint(0, 5) for _ in range(n)]
        pre, sched = 0, []
        for k, d in enumerate(durs):
            sched.append([0, k, pre, pre + d])
            pre += d
        return [[[k % machines, d] for k, d in enumerate(durs)]], pre, sched

    # (1) dispatch loop `for _ in range(total_ops)` and the validation loop: one job of n operations (ready list of length 1)
    for n in (130, 1030, 2050, 4100) + ((10**4 + 1, 10**5 + 1) if big else (10**4 + 1,)):
        jobs, mk, sched = chain(n, 3)
        out.append(_base(rng, jobs, local_search=False, nocoq=True, family=f"W:dispatch-steps-{n}",
                         expect={"objective": mk, "schedule": sched, "iterations": 0, "evaluations": 1}, work={"dispatch_steps": n}))
    # (2) the scan over jobs inside one dispatch step / the ready list: n single-operation jobs on their own machines (quadratic)
    for n in (130, 1030, 2050, 4100) + ((10**4 + 1,) if big else ()):
        durs = [rng.randint(0, 9) for _ in range(n)]
        out.append(_base(rng, [[[j, d]] for j, d in enumerate(durs)], rule=rng.choice(["fifo", "spt", "lpt", "mwkr"]), local_search=False, nocoq=True,
                         family=f"W:ready-scan-{n}", work={"ready_list": n, "dispatch_steps": n},
                         expect={"objective": max(durs), "schedule": [[j, 0, 0, d] for j, d in enumerate(durs)], "iterations": 0, "evaluations": 1}))
    # (3) local-search passes: every machine holds one operation, so every pass is skipped and the loop runs max_iter times
    for it in (130, 1030, 2050, 4100, 10**4 + 1, 10**5 + 1) + ((2**20 + 2,) if big else ()):
        durs = [rng.randint(0, 9) for _ in range(3)]
        out.append(_base(rng, [[[j, d]] for j, d in enumerate(durs)], max_iter=it, nocoq=it > 10**4 + 1, family=f"W:ls-passes-{it}", port=it <= 10**5 + 1,
                         expect={"objective": max(durs), "schedule": [[j, 0, 0, d] for j, d in enumerate(durs)], "iterations": it, "evaluations": 1},
                         work={"ls_passes": it}))
    # (3b) passes that are mostly skipped with a few real ones in between (no_improve only counts the real ones): exact reference = port
    for it in (1500, 5000) + ((50000,) if big else ()):
        jobs = [[[0, rng.randint(1, 4)], [1 + j, rng.randint(0, 4)]] for j in range(2)] + [[[3 + j, rng.randint(0, 3)]] for j in range(rng.randint(8, 30))]
        out.append(_base(rng, jobs, max_iter=it, family=f"W:ls-passes-mixed-{it}", port=True, nocoq=it > 5000, work={"ls_passes": it}))
    # (4) objective evaluations: n one-operation jobs on ONE machine: every neighbour has the same makespan (the sum), nothing is accepted,
    #     each pass tries all n - 1 adjacent swaps and the search stops after max_no_improve = 100 passes: evaluations = 1 + 100 (n - 1)
    for n in (3, 12, 22, 42) + ((102,) if big else ()):
        durs = [rng.randint(0, 6) for _ in range(n)]
        out.append(_base(rng, [[[0, d]] for d in durs], max_iter=rng.choice([100, 101, 1000]), nocoq=n > 12, family=f"W:evaluations-{1 + 100 * (n - 1)}", port=n <= 42,
                         expect={"objective": sum(durs), "iterations": 100, "evaluations": 1 + 100 * (n - 1)},
                         work={"evaluations": 1 + 100 * (n - 1), "no_improve": 100, "pairs_per_pass": n - 1}))
    # (5) adjacent pairs tried in ONE pass
    for n in (130,) + ((300,) if big else ()):
        durs = [rng.randint(0, 6) for _ in range(n)]
        out.append(_base(rng, [[[0, d]] for d in durs], max_iter=1, nocoq=True, family=f"W:pairs-in-a-pass-{n - 1}",
                         expect={"objective": sum(durs), "iterations": 1, "evaluations": n}, work={"pairs_per_pass": n - 1, "evaluations": n}))
    # (6) steps of ONE rebuild (and its scan over all operations, and the scan of a pass): one job of n operations over n / 2 machines, two per
    #     machine, so every pass does exactly one rebuild; the job order forces the schedule
    for n in (130, 1030, 4100) + ((10**4 + 2,) if big else ()):
        jobs, mk, sched = chain(n, n // 2)
        out.append(_base(rng, jobs, max_iter=2, nocoq=True, family=f"W:rebuild-steps-{n}",
                         expect={"objective": mk, "schedule": sched, "iterations": 2, "evaluations": 3}, work={"rebuild_steps": n, "ops_scan": n}))
    # (7) many ready operations inside a rebuild (sort of the ready list): 2-stage flow shop with n jobs, one pass
    for n in (130,) + ((1030,) if big else ()):
        out.append(_base(rng, [[[0, rng.randint(0, 3)], [1 + j, rng.randint(0, 3)]] for j in range(n)], max_iter=1, nocoq=True, port=True,
                         family=f"W:rebuild-ready-{n}", work={"ready_list": n, "rebuild_steps": 2 * n}))
    return out


# ---------------------------------------------------------------- A2: in-place edits between calls, duplicate objects inside one input
def gen_edit(rng):
    """(case, edits): call, then edit the caller's jobs object IN PLACE (same outer object, often same length), call again; the second answer
    must equal the answer of a fresh call on a deep copy of the edited input.  edits = list of (kind, j, k, value)."""
    c = _small(rng)
    c["shape"] = rng.choice(["list_tuple", "list_list", "list_list", "list_tuple"])
    edits = []
    for _ in range(rng.choice([1, 1, 2, 3])):
        r = rng.random()
        j = rng.randrange(len(c["jobs"]))
        k = rng.randrange(len(c["jobs"][j]))
        if r < 0.35:
            edits.append(("dur", j, k, rng.choice([0, 1, 2, 5, 9])))         # same lengths, same ids of the containers
        elif r < 0.5:
            edits.append(("mach", j, k, rng.randrange(3)))
        elif r < 0.65:
            edits.append(("swap_jobs", j, rng.randrange(len(c["jobs"])), 0))  # same length, same objects, other order
        elif r < 0.8:
            edits.append(("append_op", j, 0, [rng.randrange(3), rng.randint(0, 5)]))
        elif r < 0.9:
            edits.append(("append_job", 0, 0, [[rng.randrange(3), rng.randint(0, 5)]]))
        else:
            edits.append(("del_op", j, k, 0))
    c["family"] = "A2:in-place-edit"
    return c, edits


def gen_duplicates(rng):
    """equal jobs are THE SAME object (jobs = [J, J, K]) and equal operations the same tuple: a cache keyed by id() must not confuse them"""
    c = _small(rng)
    if len(c["jobs"]) >= 2:
        a, b = rng.sample(range(len(c["jobs"])), 2)
        c["jobs"][b] = [list(o) for o in c["jobs"][a]]
    if rng.random() < 0.5:
        c["jobs"].append([list(o) for o in c["jobs"][0]])
    c["shape"] = rng.choice(["shared_objects", "shared_objects", "shared_objects_list"])
    c["family"] = "A2:duplicate-objects"
    return c


# ---------------------------------------------------------------- X: float extremes
def gen_float_mix(rng):
    """integral floats next to ints (33.0 vs 33), negative zero, float progress_interval / seed: the answer must be the answer of the all-int call"""
    c = _small(rng)
    c["float_mask"] = [[rng.random() < 0.5 for _ in job] for job in c["jobs"]]
    if rng.random() < 0.3:
        k = rng.choice([2**30, 2**44, 10**6])
        for job in c["jobs"]:
            for o in job:
                o[1] *= k
    if rng.random() < 0.3:
        c["cb_k"], c["interval"], c["float_interval"] = rng.choice([2, 3, 50]), rng.choice([1, 2, 3]), True
    if rng.random() < 0.2:
        c["float_seed"] = True
    c["family"] = "X:int-vs-integral-float"
    return c


def gen_nonfinite(rng):
    """NaN / inf durations and finite ones whose sums overflow to inf: outside the property (finite data); run observation-only"""
    c = _small(rng)
    kind = rng.choice(["nan", "inf", "overflow"])
    ops = [(j, k) for j, job in enumerate(c["jobs"]) for k in range(len(job))]
    c["special"] = {}
    for (j, k) in rng.sample(ops, min(len(ops), rng.choice([1, 1, 2]))):
        c["special"][f"{j},{k}"] = {"nan": "nan", "inf": "inf", "overflow": "1e308"}[kind]
    if kind == "overflow" and len(c["special"]) < 2 and len(ops) >= 2:
        j, k = ops[0] if f"{ops[0][0]},{ops[0][1]}" not in c["special"] else ops[1]
        c["special"][f"{j},{k}"] = "1e308"
    c["family"] = "X:non-finite-" + kind
    c["nocoq"] = True
    return c
