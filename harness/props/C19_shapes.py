"""C19 - input-shape classes (HARDENING.md) for the part-B solvers: differential_evolution, particle_swarm, nelder_mead,
bayesian_opt (group 1) and powell, bfgs, lbfgs (group 2).  Called from harness/props/C19.py: run_shapes(ctx).

Class M: the objective returns EXACT Python ints (or exactly representable integral floats) of magnitude 2^31 .. 2^64:
         offset + scale * (small integer landscape of the float point).  Python compares ints exactly, so the property
         must hold exactly: objective == f(solution), best of everything evaluated, evaluations == calls.
Class I: bounds / start points handed over as tuples, lists, tuples of lists.
Class A: the caller's bounds / x0 / initial populations are not modified; same call twice gives the same result.
Class O: max_iter at 0, 1, 2 and small sweeps (the option space itself is covered by C19_b.py).
(Class L does not apply: these solvers have no labels - points are float vectors.)

Oracle = the recorded log only (independent of every model): the objective is wrapped by a proxy that copies the point at
call time.  Group 1: reported objective == f(returned solution) exactly, at least as good as every logged value,
evaluations == number of calls, solution inside the bounds, maximize(-f) mirrors minimize(f), same call twice agrees.
Group 2: reported objective == f(returned solution) exactly (both directions); determinism.
Group-1 results are additionally judged inside coqc by SV.C19.Common.obs_spec_check (proved sound), Z being exact at any
magnitude.
"""
from __future__ import annotations

import copy
import importlib
import json
import math

from harness.core import Ctx, cbool, clist, cnat, cz, guarded, pmap

GROUP1 = ("de", "pso", "nm", "bayes")
GROUP2 = ("powell", "bfgs", "lbfgs")
BOUNDED = ("de", "pso", "bayes")
HUGE = [2**31, 10**9, 2**53 - 1, 2**53, 2**53 + 1, 2**60, 10**18, -(2**60), -(2**53 + 1), 2**44 + 1, 2**64 + 3]
IMPORTS = "From SV Require Import C19.Common C19.A_Anneal C19.A_Lns C19.A_Tabu C19.A_Evolve C19.A_Check.\nOpen Scope Z_scope."


def _safe(v):
    if v != v:
        return 0.0
    return max(-1e6, min(1e6, v))


def landscape(o):
    """small integer-valued function of a float vector (plateaus, ties, jumps)"""
    k, c, s = o["kind"], o.get("c", [0.0, 0.0, 0.0]), o.get("s", 3)
    if k == "quad":
        return lambda x: int(round(sum((_safe(v) - c[i % 3]) ** 2 * s for i, v in enumerate(x))))
    if k == "abs":
        return lambda x: int(round(sum(abs(_safe(v) - c[i % 3]) * s for i, v in enumerate(x))))
    if k == "table":
        t = o["table"]
        return lambda x: sum(t[(math.floor(_safe(v) * o.get("res", 1)) + 5 * i) % len(t)] for i, v in enumerate(x))
    if k == "const":
        return lambda x: o.get("k", 2)
    raise ValueError(k)


def objective(o, negate):
    g = landscape(o)
    off, sc = o.get("offset", 0), o.get("scale", 1)
    sgn = -1 if negate else 1
    if o.get("float"):
        return lambda x: float(sgn * (off + sc * g(x)))
    return lambda x: sgn * (off + sc * g(x))


def as_kind(seq, kind):
    if kind == "tuple_of_lists":
        return tuple(list(b) for b in seq)
    if kind == "list_of_lists":
        return [list(b) for b in seq]
    if kind == "tuple":
        return tuple(tuple(b) if isinstance(b, (list, tuple)) else b for b in seq)
    return [tuple(b) if isinstance(b, (list, tuple)) else b for b in seq]


def build_args(spec):
    """caller-owned containers (class A: compared with a rebuild after the call)"""
    a = {}
    if "bounds" in spec and spec["bounds"] is not None:
        a["bounds"] = as_kind(spec["bounds"], spec.get("bounds_kind", "list"))
    if "x0" in spec:
        a["x0"] = tuple(spec["x0"]) if spec.get("x0_kind") == "tuple" else list(spec["x0"])
    if spec.get("init") is not None:
        a["init"] = [list(p) for p in spec["init"]]
    return a


def deep_eq(a, b):
    if type(a) is not type(b):
        return False
    if isinstance(a, dict):
        return a.keys() == b.keys() and all(deep_eq(a[k], b[k]) for k in a)
    if isinstance(a, (list, tuple)):
        return len(a) == len(b) and all(deep_eq(x, y) for x, y in zip(a, b))
    return a == b


def execute(spec, flip=False):
    s = spec["solver"]
    minimize = spec["minimize"] != flip
    f = objective(spec["obj"], flip)
    log = []

    def rec(x):
        v = f(x)
        log.append(([float(t) for t in x], v))
        return v

    args = build_args(spec)
    common = dict(minimize=minimize, max_iter=spec["max_iter"])
    if s == "de":
        fn = importlib.import_module("solvor.differential_evolution").differential_evolution
        call = lambda: fn(rec, args["bounds"], population_size=spec["population_size"], strategy=spec["strategy"], tol=spec["tol"],  # noqa: E731
                          seed=spec["seed"], initial_population=args.get("init"), **common)
    elif s == "pso":
        fn = importlib.import_module("solvor.particle_swarm").particle_swarm
        call = lambda: fn(rec, args["bounds"], n_particles=spec["n_particles"], seed=spec["seed"], initial_positions=args.get("init"),  # noqa: E731
                          **common)
    elif s == "nm":
        fn = importlib.import_module("solvor.nelder_mead").nelder_mead
        call = lambda: fn(rec, args["x0"], tol=spec["tol"], adaptive=spec["adaptive"], initial_step=spec["initial_step"], **common)  # noqa: E731
    elif s == "bayes":
        fn = importlib.import_module("solvor.bayesian").bayesian_opt
        call = lambda: fn(rec, args["bounds"], n_initial=spec["n_initial"], acquisition=spec["acquisition"], seed=spec["seed"], **common)  # noqa: E731
    elif s == "powell":
        fn = importlib.import_module("solvor.powell").powell
        call = lambda: fn(rec, args["x0"], bounds=args.get("bounds"), tol=spec["tol"], **common)  # noqa: E731
    else:
        m = importlib.import_module("solvor.bfgs")
        c, gs = spec["grad_c"], spec["grad_s"]
        sg = 1 if minimize else -1

        def grad(x):
            return [sg * 2 * gs * (_safe(v) - c[i % 3]) for i, v in enumerate(x)]

        if s == "bfgs":
            call = lambda: m.bfgs(grad, args["x0"], objective_fn=rec, tol=spec["tol"], **common)  # noqa: E731
        else:
            call = lambda: m.lbfgs(grad, args["x0"], objective_fn=rec, m=spec["m"], tol=spec["tol"], **common)  # noqa: E731
    out = guarded(call, timeout=20)
    o = {"status": out[0], "log": log, "minimize": minimize, "flip": flip, "args_intact": deep_eq(args, build_args(spec))}
    if out[0] == "ok":
        r = out[1]
        o["res"] = {"solution": [float(t) for t in r.solution], "objective": r.objective, "iterations": int(r.iterations),
                    "evaluations": int(r.evaluations), "status": r.status.name}
    else:
        o["error"] = list(out[1:])
    return o


def judge(spec, o):
    if o["status"] != "ok":
        return f"implementation {o['status']}: {o.get('error')}"
    r = o["res"]
    f = objective(spec["obj"], o["flip"])
    fx = f(r["solution"])
    if r["objective"] != fx:
        return f"reported objective {r['objective']!r} != f(returned solution {r['solution']}) = {fx!r}"
    if not o["args_intact"]:
        return "the caller's bounds / x0 / initial population was modified"
    if spec["solver"] in GROUP1:
        vals = [v for _, v in o["log"]]
        worse = [v for v in vals if (v < r["objective"] if o["minimize"] else v > r["objective"])]
        if worse:
            k = vals.index(worse[0])
            return (f"reported objective {r['objective']!r} is worse than evaluated candidate #{k} {o['log'][k][0]} with f={worse[0]!r} "
                    f"({'minimize' if o['minimize'] else 'maximize'})")
        if r["evaluations"] != len(vals):
            return f"evaluations={r['evaluations']} but the objective was called {len(vals)} times"
    # (powell with bounds is not in C19's bounded group; on the unchanged code it can leave its bounds when the objective
    #  improves towards the boundary - reported as a finding, not judged here)
    if spec["solver"] in BOUNDED:
        for v, (lo, hi) in zip(r["solution"], spec["bounds"]):
            if not (lo <= v <= hi):
                return f"returned solution {r['solution']} is outside the bounds {spec['bounds']}"
    return None


def judge_pair(a, b, what):
    if a["status"] != "ok" or b["status"] != "ok":
        return None
    ra, rb = a["res"], b["res"]
    neg = -1 if what == "mirror" else 1
    if ra["solution"] != rb["solution"] or ra["objective"] != neg * rb["objective"] or ra["evaluations"] != rb["evaluations"] \
            or ra["iterations"] != rb["iterations"]:
        return f"{what} broken: ({ra['solution']}, {ra['objective']!r}, evals {ra['evaluations']}) vs ({rb['solution']}, {rb['objective']!r}, evals {rb['evaluations']})"
    return None


def work(spec):
    a = execute(spec)
    b = execute(spec, flip=True)
    c = execute(spec)
    # the mirror clause of C19 is stated for the first group only (powell's golden section / bfgs' line search on a
    # step-shaped objective are not sign-symmetric in floating point; observed on the unchanged code)
    mirror = judge_pair(a, b, "mirror") if spec["solver"] in GROUP1 else None
    bad = judge(spec, a) or (judge(spec, b) and "mirror run: " + judge(spec, b)) or mirror or judge_pair(a, c, "same call twice")
    return {"bad": bad, "a": a, "b": b}


# --------------------------------------------------------------------------------------------------- generators
def gen_obj(rng, mag):
    kind = rng.choice(["quad", "quad", "abs", "table", "table", "const"])
    o = {"kind": kind, "c": [rng.choice([0.0, 0.5, -1.25, 2.0]) for _ in range(3)], "s": rng.choice([1, 3, 7, 20])}
    if kind == "table":
        o["table"] = [rng.randint(0, 6) for _ in range(rng.choice([3, 5, 8]))]
        o["res"] = rng.choice([1, 2, 4])
    if kind == "const":
        o["k"] = rng.randint(-3, 4)
    if mag == "float":  # integral floats at 2^60: spacing 256
        o.update(offset=rng.choice([2**60, -(2**60)]), scale=256 * rng.choice([1, 3]), float=True)
    elif mag == "huge":
        o.update(offset=rng.choice(HUGE), scale=rng.choice([1, 1, 1, 3, 2**31, 10**9]))
    return o


def gen_bounds(rng, d):
    return [[rng.choice([-3.0, -1.0, 0.0, -2.5]), rng.choice([1.0, 2.0, 4.0, 3.5])] for _ in range(d)]


def gen_spec(rng, solver, big=False):
    d = rng.choice([1, 2, 2, 3])
    mag = rng.choice(["huge", "huge", "huge", "float", "small"])
    spec = {"part": "shapes", "solver": solver, "d": d, "obj": gen_obj(rng, mag), "minimize": rng.random() < 0.5, "seed": rng.randrange(10**6),
            "max_iter": rng.choice([0, 1, 2, 3, 4, 5, 6, 8, 10, 12] + ([20, 30] if big else []))}
    pt = lambda: [rng.choice([-2.0, -0.5, 0.0, 0.75, 1.5, 3.0]) for _ in range(d)]  # noqa: E731
    if solver in ("de", "pso", "bayes"):
        spec["bounds"] = gen_bounds(rng, d)
        spec["bounds_kind"] = rng.choice(["list", "tuple", "tuple_of_lists", "list_of_lists"])
    if solver == "de":
        spec.update(population_size=rng.choice([4, 5, 6, 8]), strategy=rng.choice(["rand/1", "best/1"]), tol=rng.choice([1e-8, 1e-8, 0.5]),
                    init=None if rng.random() < 0.6 else [[min(max(v, b[0]), b[1]) for v, b in zip(pt(), spec["bounds"])] for _ in range(rng.choice([2, 5]))])
    elif solver == "pso":
        spec.update(n_particles=rng.choice([1, 2, 3, 5, 8]),
                    init=None if rng.random() < 0.6 else [[min(max(v, b[0]), b[1]) for v, b in zip(pt(), spec["bounds"])] for _ in range(rng.choice([2, 5]))])
    elif solver == "nm":
        spec.update(x0=pt(), x0_kind=rng.choice(["list", "tuple"]), tol=rng.choice([0.0, 1e-6, 0.5]), adaptive=rng.random() < 0.3,
                    initial_step=rng.choice([0.05, 0.5, 1.0]), max_iter=rng.choice([0, 1, 2, 3, 5, 8, 13, 21, 34]))
    elif solver == "bayes":
        spec.update(n_initial=rng.choice([1, 2, 3, 5]), acquisition=rng.choice(["ei", "ucb"]), max_iter=rng.choice([0, 1, 2, 3, 5, 6, 8]))
    elif solver == "powell":
        spec.update(x0=pt(), x0_kind=rng.choice(["list", "tuple"]), bounds=None if rng.random() < 0.5 else gen_bounds(rng, d),
                    bounds_kind=rng.choice(["list", "tuple"]), tol=rng.choice([1e-6, 0.3]), max_iter=rng.choice([0, 1, 2, 3]))
        if spec["bounds"]:
            spec["x0"] = [min(max(v, b[0]), b[1]) for v, b in zip(spec["x0"], spec["bounds"])]
    else:
        spec.update(x0=pt(), x0_kind=rng.choice(["list", "tuple"]), tol=rng.choice([1e-6, 0.5]), grad_c=[rng.choice([0.0, 0.5, -1.25]) for _ in range(3)],
                    grad_s=rng.choice([0.5, 1.0, 3.0]), m=rng.choice([1, 2, 10]), max_iter=rng.choice([0, 1, 2, 3, 5, 8]))
    return spec


def coq_spec_term(spec, o):
    """SpecCase for the Coq checker obs_spec_check (group 1, integral objective)."""
    r = o["res"]
    obj = r["objective"]
    if isinstance(obj, float):
        if obj != obj or obj in (float("inf"), float("-inf")) or obj != int(obj):
            return None
        obj = int(obj)
    ids = [i for i, (pt, _) in enumerate(o["log"]) if pt == r["solution"]]
    us = [int(v) for _, v in o["log"]]
    return f"SpecCase {cbool(o['minimize'])} {clist(us, cz)} (mkObs {clist(ids, cnat)} {cz(obj)} {cnat(r['evaluations'])} {cnat(r['iterations'])})"


def run_shapes(ctx: Ctx):
    big = ctx.tier == "thorough"
    per = {"de": ctx.budget(24, 300), "pso": ctx.budget(24, 300), "nm": ctx.budget(24, 300), "bayes": ctx.budget(10, 80),
           "powell": ctx.budget(16, 200), "bfgs": ctx.budget(16, 200), "lbfgs": ctx.budget(16, 200)}
    specs = []
    for s, n in per.items():
        specs += [gen_spec(ctx.rng, s, big) for _ in range(n)]
    # class O: max_iter sweep on one instance per solver
    for s in per:
        base = gen_spec(ctx.rng, s, big)
        for mi in range(0, 7 if s != "bayes" else 4):
            c = copy.deepcopy(base)
            c["max_iter"] = mi
            specs.append(c)
    results = pmap(work, specs)
    terms, tmeta = [], []
    for spec, r in zip(specs, results):
        ctx.evaluations += 3
        ctx.count("shapes_solver", spec["solver"])
        ctx.count("shapes_magnitude", "float@2^60" if spec["obj"].get("float") else ("small" if not spec["obj"].get("offset") else "huge-int"))
        if r["a"]["status"] == "ok" and len(r["a"]["log"]) >= 3:
            ctx.nontriv(json.dumps(spec, sort_keys=True))
        if r["bad"]:
            ctx.violation(f"{spec['solver']} [shapes M/I/A]: {r['bad']}",
                          {"case": spec, "impl": {"primary": r["a"].get("res") or r["a"].get("error"), "mirror": r["b"].get("res") or r["b"].get("error")}})
        if spec["solver"] in GROUP1:
            for o in (r["a"], r["b"]):
                if o["status"] == "ok" and len(o["log"]) <= 400:
                    t = coq_spec_term(spec, o)
                    if t:
                        terms.append(t)
                        tmeta.append((spec, o))
    failing = ctx.coq_check("shapes_spec", IMPORTS, "speccase", "spec_ok", terms, shard=150)
    for i in failing:
        spec, o = tmeta[i]
        if not any(v["replay"].get("case") == spec for v in ctx.violations):
            ctx.violation(f"{spec['solver']} [shapes]: Coq spec checker obs_spec_check rejects the implementation's result {o['res']} against the recorded log",
                          {"case": spec, "impl": o["res"]})
    ctx.notes.append("C19/shapes: part-B solvers on exact integer objectives of magnitude 2^31..2^64 are judged by the recorded-log oracle and the Coq "
                     "spec checker only (no machine correspondence at these magnitudes beyond harness/props/C19_b.py's own cases)")


def replay(obj):
    spec = obj["case"]
    r = work(spec)
    for tag in ("a", "b"):
        o = r[tag]
        print("primary" if tag == "a" else "mirror", "minimize" if o["minimize"] else "maximize", "->", o.get("res") or o.get("error"),
              f"({len(o['log'])} objective calls)")
        print("   first values:", [v for _, v in o["log"]][:12])
    print("oracle verdict:", r["bad"] or "ok")
    return 1 if r["bad"] else 0
