"""C19 - input-shape classes (HARDENING.md) for the part-B solvers: differential_evolution, particle_swarm, nelder_mead,
bayesian_opt (group 1) and powell, bfgs, lbfgs (group 2).  Called from harness/props/C19.py: run_shapes(ctx).

Class M: the objective returns EXACT Python ints (or exactly representable integral floats) of magnitude 2^31 .. 2^64:
         offset + scale * (small integer landscape of the float point).  Python compares ints exactly, so the property
         must hold exactly: objective == f(solution), best of everything evaluated, evaluations == calls.
Class I: bounds / start points handed over as tuples, lists, tuples of lists.
Class A: the caller's bounds / x0 / initial populations are not modified; same call twice gives the same result.
Class O: max_iter at 0, 1, 2 and small sweeps (the option space itself is covered by C19_b.py).
(Class L does not apply: these solvers have no labels - points are float vectors.)

Oracle = the recorded log only (independent of every model): the objective is wrapped by a proxy that copies the point at
call time.  Group 1: reported objective == f(returned solution) exactly, at least as good as every logged value,
evaluations == number of calls, solution inside the bounds, maximize(-f) mirrors minimize(f), same call twice agrees.
Group 2: reported objective == f(returned solution) exactly (both directions); determinism.
Group-1 results are additionally judged inside coqc by SV.C19.Common.obs_spec_check (proved sound), Z being exact at any
magnitude.
"""
from __future__ import annotations

import copy
import importlib
import json
import math

from harness.core import Ctx, cbool, clist, cnat, cz, guarded, pmap

GROUP1 = ("de", "pso", "nm", "bayes")
GROUP2 = ("powell", "bfgs", "lbfgs")
BOUNDED = ("de", "pso", "bayes")
HUGE = [2**31, 10**9, 2**53 - 1, 2**53, 2**53 + 1, 2**60, 10**18, -(2**60), -(2**53 + 1), 2**44 + 1, 2**64 + 3]
IMPORTS = "From SV Require Import C19.Common C19.A_Anneal C19.A_Lns C19.A_Tabu C19.A_Evolve C19.A_Check.\nOpen Scope Z_scope."


def _safe(v):
    if v != v:
        return 0.0
    return max(-1e6, min(1e6, v))


def landscape(o):
    """small integer-valued function of a float vector (plateaus, ties, jumps)"""
    k, c, s = o["kind"], o.get("c", [0.0, 0.0, 0.0]), o.get("s", 3)
    if k == "quad":
        return lambda x: int(round(sum((_safe(v) - c[i % 3]) ** 2 * s for i, v in enumerate(x))))
    if k == "abs":
        return lambda x: int(round(sum(abs(_safe(v) - c[i % 3]) * s for i, v in enumerate(x))))
    if k == "table":
        t = o["table"]
        return lambda x: sum(t[(math.floor(_safe(v) * o.get("res", 1)) + 5 * i) % len(t)] for i, v in enumerate(x))
    if k == "const":
        return lambda x: o.get("k", 2)
    raise ValueError(k)


def xval(v):
    return float(v) if isinstance(v, str) else v


def objective(o, negate, plant=None):
    """plant = (point, value): the objective takes `value` at exactly that point (class W: an optimum planted at an early
    evaluation of a dry run).  The description `o` is read at CALL time (class A2: edited in place between calls)."""
    sgn = -1 if negate else 1

    def f(x):
        if plant is not None and [float(t) for t in x] == plant[0]:
            return plant[1]
        g = landscape(o)(x)
        if "xvals" in o:  # class X: float extremes looked up by the small landscape
            return sgn * xval(o["xvals"][g % len(o["xvals"])])
        v = sgn * (o.get("offset", 0) + o.get("scale", 1) * g)
        return float(v) if o.get("float") else v

    return f


def as_kind(seq, kind):
    if kind == "tuple_of_lists":
        return tuple(list(b) for b in seq)
    if kind == "list_of_lists":
        return [list(b) for b in seq]
    if kind == "tuple":
        return tuple(tuple(b) if isinstance(b, (list, tuple)) else b for b in seq)
    return [tuple(b) if isinstance(b, (list, tuple)) else b for b in seq]


def build_args(spec):
    """caller-owned containers (class A: compared with a rebuild after the call)"""
    a = {}
    if "bounds" in spec and spec["bounds"] is not None:
        a["bounds"] = as_kind(spec["bounds"], spec.get("bounds_kind", "list"))
    if "x0" in spec:
        a["x0"] = tuple(spec["x0"]) if spec.get("x0_kind") == "tuple" else list(spec["x0"])
    if spec.get("init") is not None:
        a["init"] = [list(p) for p in spec["init"]]
    return a


def deep_eq(a, b):
    if type(a) is not type(b):
        return False
    if isinstance(a, dict):
        return a.keys() == b.keys() and all(deep_eq(a[k], b[k]) for k in a)
    if isinstance(a, (list, tuple)):
        return len(a) == len(b) and all(deep_eq(x, y) for x, y in zip(a, b))
    return a == b


def execute(spec, flip=False, live=None):
    """live = {"f", "log", "args"}: reuse the SAME objective / container objects as an earlier call (class A2)."""
    s = spec["solver"]
    minimize = spec["minimize"] != flip
    if live is not None:
        rec, log, args = live["rec"], live["log"], live["args"]
        del log[:]
        return _call(spec, s, minimize, flip, rec, log, args)
    plant = None
    if spec.get("plant") is not None:  # class W: dry run, then plant a far better value at its k-th evaluated point
        dry = _call(spec, s, minimize, flip, *_recorder(objective(spec["obj"], flip)), build_args(spec))
        if len(dry["log"]) > spec["plant"]:
            far = 10**7 * (spec["obj"].get("scale", 1)) + abs(spec["obj"].get("offset", 0))
            plant = (dry["log"][spec["plant"]][0], (-far if minimize else far))
    rec, log = _recorder(objective(spec["obj"], flip, plant))
    o = _call(spec, s, minimize, flip, rec, log, build_args(spec))
    o["plant"] = plant
    return o


def _recorder(f):
    log = []

    def rec(x):
        v = f(x)
        log.append(([float(t) for t in x], v))
        return v

    return rec, log


def _call(spec, s, minimize, flip, rec, log, args):
    common = dict(minimize=minimize, max_iter=spec["max_iter"])
    if s == "de":
        fn = importlib.import_module("solvor.differential_evolution").differential_evolution
        call = lambda: fn(rec, args["bounds"], population_size=spec["population_size"], strategy=spec["strategy"], tol=spec["tol"],  # noqa: E731
                          seed=spec["seed"], initial_population=args.get("init"), **common)
    elif s == "pso":
        fn = importlib.import_module("solvor.particle_swarm").particle_swarm
        call = lambda: fn(rec, args["bounds"], n_particles=spec["n_particles"], seed=spec["seed"], initial_positions=args.get("init"),  # noqa: E731
                          **common)
    elif s == "nm":
        fn = importlib.import_module("solvor.nelder_mead").nelder_mead
        call = lambda: fn(rec, args["x0"], tol=spec["tol"], adaptive=spec["adaptive"], initial_step=spec["initial_step"], **common)  # noqa: E731
    elif s == "bayes":
        fn = importlib.import_module("solvor.bayesian").bayesian_opt
        extra = {"acq_restarts": spec["acq_restarts"]} if "acq_restarts" in spec else {}
        call = lambda: fn(rec, args["bounds"], n_initial=spec["n_initial"], acquisition=spec["acquisition"], seed=spec["seed"], **extra, **common)  # noqa: E731
    elif s == "powell":
        fn = importlib.import_module("solvor.powell").powell
        call = lambda: fn(rec, args["x0"], bounds=args.get("bounds"), tol=spec["tol"], **common)  # noqa: E731
    else:
        m = importlib.import_module("solvor.bfgs")
        c, gs = spec["grad_c"], spec["grad_s"]
        sg = 1 if minimize else -1

        def grad(x):
            if spec.get("grad_kind") == "sin":  # never vanishes together with the steps: the run uses its whole budget
                return [sg * (gs * math.sin(_safe(v)) + 0.3 * (_safe(v) - c[i % 3])) for i, v in enumerate(x)]
            return [sg * 2 * gs * (_safe(v) - c[i % 3]) for i, v in enumerate(x)]

        if s == "bfgs":
            call = lambda: m.bfgs(grad, args["x0"], objective_fn=rec, tol=spec["tol"], **common)  # noqa: E731
        else:
            call = lambda: m.lbfgs(grad, args["x0"], objective_fn=rec, m=spec["m"], tol=spec["tol"], **common)  # noqa: E731
    out = guarded(call, timeout=spec.get("timeout", 20))
    o = {"status": out[0], "log": list(log), "minimize": minimize, "flip": flip, "args_intact": deep_eq(args, build_args(spec))}
    if out[0] == "ok":
        r = out[1]
        o["res"] = {"solution": [float(t) for t in r.solution], "objective": r.objective, "iterations": int(r.iterations),
                    "evaluations": int(r.evaluations), "status": r.status.name}
    else:
        o["error"] = list(out[1:])
    return o


def is_nan(v):
    return isinstance(v, float) and v != v


def veq(a, b):
    return a == b or (is_nan(a) and is_nan(b))


def judge(spec, o):
    if o["status"] == "exc" and spec.get("may_raise"):
        return None  # class X: NaN / inf objectives may be rejected by an exception, never by a wrong answer or a hang
    if o["status"] != "ok":
        return f"implementation {o['status']}: {o.get('error')}"
    r = o["res"]
    f = objective(spec["obj"], o["flip"], o.get("plant"))
    fx = f(r["solution"])
    if not veq(r["objective"], fx):
        return f"reported objective {r['objective']!r} != f(returned solution {r['solution']}) = {fx!r}"
    if not o["args_intact"]:
        return "the caller's bounds / x0 / initial population was modified"
    if spec["solver"] in GROUP1:
        vals = [v for _, v in o["log"]]
        worse = [v for v in vals if (v < r["objective"] if o["minimize"] else v > r["objective"])]
        if any(is_nan(v) for v in vals):
            worse = []  # NaN is unordered: best-of-evaluated is judged on NaN-free logs only
        if worse:
            k = vals.index(worse[0])
            return (f"reported objective {r['objective']!r} is worse than evaluated candidate #{k} {o['log'][k][0]} with f={worse[0]!r} "
                    f"({'minimize' if o['minimize'] else 'maximize'})")
        if r["evaluations"] != len(vals):
            return f"evaluations={r['evaluations']} but the objective was called {len(vals)} times"
    # (powell with bounds is not in C19's bounded group; on the unchanged code it can leave its bounds when the objective
    #  improves towards the boundary - reported as a finding, not judged here)
    if spec["solver"] in BOUNDED:
        for v, (lo, hi) in zip(r["solution"], spec["bounds"]):
            if not (lo <= v <= hi):
                return f"returned solution {r['solution']} is outside the bounds {spec['bounds']}"
    return None


def judge_pair(a, b, what):
    if a["status"] != "ok" or b["status"] != "ok":
        return None
    ra, rb = a["res"], b["res"]
    neg = -1 if what == "mirror" else 1
    if ra["solution"] != rb["solution"] or not veq(ra["objective"], neg * rb["objective"]) or ra["evaluations"] != rb["evaluations"] \
            or ra["iterations"] != rb["iterations"]:
        return f"{what} broken: ({ra['solution']}, {ra['objective']!r}, evals {ra['evaluations']}) vs ({rb['solution']}, {rb['objective']!r}, evals {rb['evaluations']})"
    return None


def apply_a2(spec, args):
    """class A2: edit the caller's objects in place (objective parameters, a bound, a start coordinate, an initial point)"""
    ed = spec["a2"]
    if "c0" in ed:
        spec["obj"]["c"][0] = ed["c0"]
    if "table0" in ed and "table" in spec["obj"]:
        spec["obj"]["table"][0] = ed["table0"]
    if "bound" in ed and "bounds" in args and isinstance(args["bounds"], list) and isinstance(args["bounds"][0], list):
        i, hi = ed["bound"]
        spec["bounds"][i][1] = hi
        args["bounds"][i][1] = hi
    if "x0" in ed and isinstance(args.get("x0"), list):
        spec["x0"][0] = ed["x0"]
        args["x0"][0] = ed["x0"]
    if "init" in ed and args.get("init"):
        spec["init"][0][0] = ed["init"]
        args["init"][0][0] = ed["init"]


def work_a2(spec):
    live_spec = copy.deepcopy(spec)
    rec, log = _recorder(objective(live_spec["obj"], False))
    live = {"rec": rec, "log": log, "args": build_args(live_spec)}
    execute(live_spec, live=live)
    apply_a2(live_spec, live["args"])
    second = execute(live_spec, live=live)
    eff = copy.deepcopy(live_spec)
    fresh = execute(copy.deepcopy(eff))
    flip = execute(copy.deepcopy(eff), flip=True)
    mirror = judge_pair(second, flip, "mirror") if spec["solver"] in GROUP1 else None
    bad = judge(eff, second) or mirror or judge_pair(second, fresh, "call after an in-place edit of the inputs vs fresh call on a copy")
    return {"bad": bad, "a": second, "b": flip, "spec": eff}


def work(spec):
    if spec.get("a2"):
        return work_a2(spec)
    a = execute(spec)
    b = execute(spec, flip=True)
    c = execute(spec)
    # the mirror clause of C19 is stated for the first group only (powell's golden section / bfgs' line search on a
    # step-shaped objective are not sign-symmetric in floating point; observed on the unchanged code)
    mirror = judge_pair(a, b, "mirror") if spec["solver"] in GROUP1 else None
    bad = judge(spec, a) or (judge(spec, b) and "mirror run: " + judge(spec, b)) or mirror or judge_pair(a, c, "same call twice")
    return {"bad": bad, "a": a, "b": b}


# --------------------------------------------------------------------------------------------------- generators
def gen_obj(rng, mag):
    kind = rng.choice(["quad", "quad", "abs", "table", "table", "const"])
    o = {"kind": kind, "c": [rng.choice([0.0, 0.5, -1.25, 2.0]) for _ in range(3)], "s": rng.choice([1, 3, 7, 20])}
    if kind == "table":
        o["table"] = [rng.randint(0, 6) for _ in range(rng.choice([3, 5, 8]))]
        o["res"] = rng.choice([1, 2, 4])
    if kind == "const":
        o["k"] = rng.randint(-3, 4)
    if mag == "float":  # integral floats at 2^60: spacing 256
        o.update(offset=rng.choice([2**60, -(2**60)]), scale=256 * rng.choice([1, 3]), float=True)
    elif mag == "huge":
        o.update(offset=rng.choice(HUGE), scale=rng.choice([1, 1, 1, 3, 2**31, 10**9]))
    return o


def gen_bounds(rng, d):
    return [[rng.choice([-3.0, -1.0, 0.0, -2.5]), rng.choice([1.0, 2.0, 4.0, 3.5])] for _ in range(d)]


def gen_spec(rng, solver, big=False):
    d = rng.choice([1, 2, 2, 3])
    mag = rng.choice(["huge", "huge", "huge", "float", "small"])
    spec = {"part": "shapes", "solver": solver, "d": d, "obj": gen_obj(rng, mag), "minimize": rng.random() < 0.5, "seed": rng.randrange(10**6),
            "max_iter": rng.choice([0, 1, 2, 3, 4, 5, 6, 8, 10, 12] + ([20, 30] if big else []))}
    pt = lambda: [rng.choice([-2.0, -0.5, 0.0, 0.75, 1.5, 3.0]) for _ in range(d)]  # noqa: E731
    if solver in ("de", "pso", "bayes"):
        spec["bounds"] = gen_bounds(rng, d)
        spec["bounds_kind"] = rng.choice(["list", "tuple", "tuple_of_lists", "list_of_lists"])
    if solver == "de":
        spec.update(population_size=rng.choice([4, 5, 6, 8]), strategy=rng.choice(["rand/1", "best/1"]), tol=rng.choice([1e-8, 1e-8, 0.5]),
                    init=None if rng.random() < 0.6 else [[min(max(v, b[0]), b[1]) for v, b in zip(pt(), spec["bounds"])] for _ in range(rng.choice([2, 5]))])
    elif solver == "pso":
        spec.update(n_particles=rng.choice([1, 2, 3, 5, 8]),
                    init=None if rng.random() < 0.6 else [[min(max(v, b[0]), b[1]) for v, b in zip(pt(), spec["bounds"])] for _ in range(rng.choice([2, 5]))])
    elif solver == "nm":
        spec.update(x0=pt(), x0_kind=rng.choice(["list", "tuple"]), tol=rng.choice([0.0, 1e-6, 0.5]), adaptive=rng.random() < 0.3,
                    initial_step=rng.choice([0.05, 0.5, 1.0]), max_iter=rng.choice([0, 1, 2, 3, 5, 8, 13, 21, 34]))
    elif solver == "bayes":
        spec.update(n_initial=rng.choice([1, 2, 3, 5]), acquisition=rng.choice(["ei", "ucb"]), max_iter=rng.choice([0, 1, 2, 3, 5, 6, 8]))
    elif solver == "powell":
        spec.update(x0=pt(), x0_kind=rng.choice(["list", "tuple"]), bounds=None if rng.random() < 0.5 else gen_bounds(rng, d),
                    bounds_kind=rng.choice(["list", "tuple"]), tol=rng.choice([1e-6, 0.3]), max_iter=rng.choice([0, 1, 2, 3]))
        if spec["bounds"]:
            spec["x0"] = [min(max(v, b[0]), b[1]) for v, b in zip(spec["x0"], spec["bounds"])]
    else:
        spec.update(x0=pt(), x0_kind=rng.choice(["list", "tuple"]), tol=rng.choice([1e-6, 0.5]), grad_c=[rng.choice([0.0, 0.5, -1.25]) for _ in range(3)], grad_kind="bowl",
                    grad_s=rng.choice([0.5, 1.0, 3.0]), m=rng.choice([1, 2, 10]), max_iter=rng.choice([0, 1, 2, 3, 5, 8]))
    return spec


# budgets that make the solver's objective-evaluation count cross 2^7, 2^10, 2^12 and 10^4 (class W)
W_LEVELS = {
    "de": [("max_iter", 20), ("max_iter", 135), ("max_iter", 520), ("max_iter", 1300)],      # 8 individuals per generation
    "pso": [("max_iter", 30), ("max_iter", 210), ("max_iter", 830), ("max_iter", 2010)],     # 5 particles
    "nm": [("max_iter", 140), ("max_iter", 1030), ("max_iter", 4100), ("max_iter", 10010)],
    "bayes": [("max_iter", 130), ("max_iter", 134), ("max_iter", 258), ("max_iter", 514), ("max_iter", 1026)],  # GP fit is cubic
    "powell": [("max_iter", 3), ("max_iter", 12), ("max_iter", 40), ("max_iter", 90)],
    "bfgs": [("max_iter", 10), ("max_iter", 40), ("max_iter", 140), ("max_iter", 330)],
    "lbfgs": [("max_iter", 10), ("max_iter", 40), ("max_iter", 140), ("max_iter", 330)],
}


def gen_W(rng, solver, level):
    """work volume: long runs; `plant` puts a far better value at the k-th point the run evaluates (k small), so anything that
    forgets old observations (window, cap, restart) returns a worse point than one it evaluated"""
    spec = gen_spec(rng, solver)
    spec["shape"] = "W"
    spec["obj"] = gen_obj(rng, rng.choice(["small", "small", "huge"]))
    spec["max_iter"] = W_LEVELS[solver][level][1]
    spec["plant"] = rng.choice([0, 0, 1, 2, 3, None])
    spec["timeout"] = 600
    if solver == "de":  # many plateaus: the population does not collapse to one point (tol=0 stops only on exact collapse)
        spec.update(population_size=8, tol=0.0, init=None, strategy="rand/1")
        spec["obj"].update(kind="table", table=[rng.randint(0, 6) for _ in range(8)], res=rng.choice([2, 4]))
    elif solver == "pso":
        spec.update(n_particles=5, init=None)
    elif solver == "nm":
        spec.update(tol=0.0)
    elif solver == "bayes":
        spec.update(n_initial=spec["max_iter"] - rng.choice([2, 2, 4]), acq_restarts=1, d=1, bounds=gen_bounds(rng, 1))
        spec["obj"]["kind"] = rng.choice(["quad", "abs"])
    elif solver == "powell":
        spec.update(tol=0.0)
    else:
        spec.update(tol=0.0, grad_kind="sin")
    return spec


XVALS = [0.0, -0.0, 2.0**60, -(2.0**60), 2.0**60 + 256, 5e-324, 1e-300, 0.1 + 0.2, 0.3, 33, 33.0, 2**60, -(2**60) + 1, 1e15, -1e15 + 0.5]
XOUTSIDE = [1e308, -1e308, 1.7976931348623157e308, "inf", "-inf", "nan", 1e300]  # outside the property (POLICY_X): observation only


def gen_X(rng, solver):
    """float extremes as objective values: +-1e308, +-inf, +-0.0, denormals, 2^60 next to -2^60, ints next to equal floats; NaN"""
    spec = gen_spec(rng, solver)
    spec["shape"] = "X"
    pool = XVALS + (XOUTSIDE * 2 if rng.random() < 0.25 else [])
    spec["obj"] = {"kind": rng.choice(["table", "abs", "quad"]), "c": [rng.choice([0.0, 0.5, -1.25]) for _ in range(3)], "s": rng.choice([1, 3]),
                   "table": [rng.randint(0, 6) for _ in range(5)], "res": rng.choice([1, 2]), "xvals": [rng.choice(pool) for _ in range(rng.choice([3, 5, 8]))]}
    spec["observe_only"] = any(isinstance(v, str) or abs(v) >= 1e300 for v in spec["obj"]["xvals"])
    return spec


def gen_A2(rng, solver):
    """in-place edits between calls: the same objective object (its parameters edited), the same bounds / x0 / initial-population lists"""
    spec = gen_spec(rng, solver)
    spec["shape"] = "A2"
    spec["obj"] = gen_obj(rng, "small")
    spec["bounds_kind"] = "list_of_lists"
    spec["x0_kind"] = "list"
    spec["max_iter"] = max(spec["max_iter"], 3)
    ed = {"c0": rng.choice([-2.0, 1.0, 3.0]), "table0": rng.choice([-9, 9])}
    if spec.get("bounds"):
        i = rng.randrange(len(spec["bounds"]))
        ed["bound"] = [i, spec["bounds"][i][1] + rng.choice([1.0, 2.5])]
    if "x0" in spec and not spec.get("bounds"):
        ed["x0"] = rng.choice([-1.0, 0.25, 2.0])
    if spec.get("init"):
        ed["init"] = spec["init"][0][0] * 0.5
    spec["a2"] = ed
    return spec


def coq_spec_term(spec, o):
    """SpecCase for the Coq checker obs_spec_check (group 1, integral objective)."""
    r = o["res"]
    obj = r["objective"]
    if isinstance(obj, float):
        if obj != obj or obj in (float("inf"), float("-inf")) or obj != int(obj):
            return None
        obj = int(obj)
    ids = [i for i, (pt, _) in enumerate(o["log"]) if pt == r["solution"]]
    us = [int(v) for _, v in o["log"]]
    return f"SpecCase {cbool(o['minimize'])} {clist(us, cz)} (mkObs {clist(ids, cnat)} {cz(obj)} {cnat(r['evaluations'])} {cnat(r['iterations'])})"


def run_shapes(ctx: Ctx):
    big = ctx.tier == "thorough"
    per = {"de": ctx.budget(24, 300), "pso": ctx.budget(24, 300), "nm": ctx.budget(24, 300), "bayes": ctx.budget(10, 80),
           "powell": ctx.budget(16, 200), "bfgs": ctx.budget(16, 200), "lbfgs": ctx.budget(16, 200)}
    specs = []
    for s, n in per.items():
        specs += [gen_spec(ctx.rng, s, big) for _ in range(n)]
    # class O: max_iter sweep on one instance per solver
    for s in per:
        base = gen_spec(ctx.rng, s, big)
        for mi in range(0, 7 if s != "bayes" else 4):
            c = copy.deepcopy(base)
            c["max_iter"] = mi
            specs.append(c)
    # class W: every solver across 2^7, 2^10, 2^12, 10^4 evaluations (bayes: 130, 134, 258, 514 quick; 1026 thorough)
    for s in per:
        levels = range(len(W_LEVELS[s])) if (big or s != "bayes") else range(3)
        for lv in levels:
            for _ in range(2 if (s != "bayes" or lv < 3) else 1):
                specs.append(gen_W(ctx.rng, s, lv))
    for s, n in per.items():
        specs += [gen_X(ctx.rng, s) for _ in range(max(4, n // 2))]
        specs += [gen_A2(ctx.rng, s) for _ in range(max(4, n // 3))]
    specs.sort(key=lambda sp: -(sp["max_iter"] ** (3 if sp["solver"] == "bayes" else 1)))
    results = pmap(work, specs, chunksize=1)
    terms, tmeta = [], []
    loop_max = ctx.extra.setdefault("max_loop_counts", {})
    for spec, r in zip(specs, results):
        spec = r.get("spec") or spec  # class A2: the spec as edited in place
        ctx.count("shapes_family", spec.get("shape", "M"))
        if r["a"]["status"] == "ok":
            for k in ("evaluations", "iterations"):
                key = f"{spec['solver']}.{k}"
                loop_max[key] = max(loop_max.get(key, 0), r["a"]["res"][k])
        ctx.evaluations += 3
        ctx.count("shapes_solver", spec["solver"])
        ctx.count("shapes_magnitude", "float@2^60" if spec["obj"].get("float") else ("small" if not spec["obj"].get("offset") else "huge-int"))
        if r["a"]["status"] == "ok" and len(r["a"]["log"]) >= 3:
            ctx.nontriv(json.dumps(spec, sort_keys=True))
        if spec.get("observe_only"):  # NaN / inf / >= 1e300: outside the property - run, counted, never judged
            ctx.count("observation_only", f"{spec['solver']}:{r['a']['status']}" + (":oracle-would-object" if r["bad"] else ""))
            continue
        if r["bad"]:
            ctx.violation(f"{spec['solver']} [shapes {spec.get('shape', 'M')}]: {r['bad']}",
                          {"case": spec, "impl": {"primary": r["a"].get("res") or r["a"].get("error"), "mirror": r["b"].get("res") or r["b"].get("error")}})
        if spec["solver"] in GROUP1:
            for o in (r["a"], r["b"]):
                if o["status"] == "ok" and len(o["log"]) <= 400 and "xvals" not in spec["obj"]:
                    t = coq_spec_term(spec, o)
                    if t:
                        terms.append(t)
                        tmeta.append((spec, o))
    failing = ctx.coq_check("shapes_spec", IMPORTS, "speccase", "spec_ok", terms, shard=150)
    for i in failing:
        spec, o = tmeta[i]
        if not any(v["replay"].get("case") == spec for v in ctx.violations):
            ctx.violation(f"{spec['solver']} [shapes]: Coq spec checker obs_spec_check rejects the implementation's result {o['res']} against the recorded log",
                          {"case": spec, "impl": o["res"]})
    ctx.notes.append("C19/shapes: NaN, +-inf and |v| >= 1e300 as objective values are outside the property: observation only (histogram observation_only)")
    ctx.notes.append("C19/shapes: part-B solvers on exact integer objectives of magnitude 2^31..2^64 are judged by the recorded-log oracle and the Coq "
                     "spec checker only (no machine correspondence at these magnitudes beyond harness/props/C19_b.py's own cases)")


def replay(obj):
    spec = obj["case"]
    r = work(spec)
    for tag in ("a", "b"):
        o = r[tag]
        print("primary" if tag == "a" else "mirror", "minimize" if o["minimize"] else "maximize", "->", o.get("res") or o.get("error"),
              f"({len(o['log'])} objective calls)")
        print("   first values:", [v for _, v in o["log"]][:12])
    print("oracle verdict:", r["bad"] or "ok")
    return 1 if r["bad"] else 0
