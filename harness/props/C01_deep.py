"""C01 deep part (shape A/O stretch `C01_algorithm`): solve_sat against its faithful Gallina model SV.C01.DeepCdcl.

Every run is made with both hooks of solvor/sat.py (events of d951d11 + ("decide", var) / ("restart",) behind
`_VERIF_DECISIONS`).  The only thing taken from the run is the sequence of variables pick_var() returned; the model
(two-watched-literal propagation with the in-place swaps, binary implications, 1-UIP analysis, backjumping with saved
phases, Luby restarts, reduce_db, pure literals, unit clauses, blocking clauses, budgets) is then executed inside coqc
and must reproduce the run EXACTLY: the full event trace (init, every learned clause in order with its literal order,
every blocking clause, every solution, every decision, every restart, the verdict) and the Result (status, solution,
solutions, objective, iterations = decisions, evaluations = propagations).

Exposes run_part(ctx); called from C01.py.  A disagreement is first looked at with C01's independent oracle (direct
evaluation + truth table); if no returned assignment is wrong it is reported as no-failing-input-found.
"""
from __future__ import annotations

import json
import os

from harness.core import Ctx, cbool, clist, cnat, cz, guarded, pmap
from harness.props import sat_common as SC

IMPORTS = "From SV Require Import C01.SatSpec C01.Machine C01.DeepCdcl."
CASE_TYPE = "cnf * list Z * (Z * Z * Z * Z) * (list devent * dres)"
CHK = "fun c => let '(cls, A, (mc, mr, lim, lf), (evs, r)) := c in deep_check cls A mc mr lim lf evs r"
MAX_EVENTS_QUICK = 1500
MAX_EVENTS_THOROUGH = 4000


def hook_present():
    import solvor.sat as S

    return hasattr(S, "_VERIF_DECISIONS")


def run_impl_deep(case, timeout=5):
    """solve_sat under both hooks and the time guard.  Module-level (pmap)."""
    import solvor.sat as S

    S._VERIF_TRACE = []
    S._VERIF_DECISIONS = True
    kw = dict(case["kw"])
    timeout = max(timeout, case.get("timeout", 0))
    try:
        res = guarded(S.solve_sat, [list(c) for c in case["clauses"]], assumptions=list(case["assumptions"]) or None, timeout=timeout, **kw)
    finally:
        trace = S._VERIF_TRACE or []
        S._VERIF_TRACE = None
        S._VERIF_DECISIONS = False
    out = {"outcome": res[0]}
    if res[0] == "ok":
        r = res[1]
        out["status"] = getattr(r.status, "name", str(r.status))
        out["solution"] = None if r.solution is None else {int(k): bool(v) for k, v in r.solution.items()}
        out["solutions"] = None if r.solutions is None else [{int(k): bool(v) for k, v in s.items()} for s in r.solutions]
        out["objective"] = r.objective
        out["iterations"] = r.iterations
        out["evaluations"] = r.evaluations
    elif res[0] == "exc":
        out["exc"] = [res[1], res[2]]
    ev = []
    for e in trace:
        if e[0] == "init":
            ev.append(["init", int(e[1]), [int(x) for x in e[2]], [int(x) for x in e[3]], [int(x) for x in e[4]]])
        elif e[0] == "learn":
            ev.append(["learn", [int(x) for x in e[1]], bool(e[2])])
        elif e[0] == "solution":
            ev.append(["solution", {int(k): bool(v) for k, v in e[1].items()}])
        elif e[0] == "decide":
            ev.append(["decide", int(e[1])])
        elif e[0] == "restart":
            ev.append(["restart"])
        else:
            ev.append(["verdict", str(e[1])])
    out["trace"] = ev
    return out


def c_devent(e):
    if e[0] == "decide":
        return f"DDecide {cnat(e[1])}"
    if e[0] == "restart":
        return "DRestart"
    return f"DEv ({SC.c_event(e)})"


def c_dres(out):
    sol = "None" if out["solution"] is None else f"(Some {SC.c_model(out['solution'])})"
    sols = "None" if out["solutions"] is None else f"(Some {clist(out['solutions'], SC.c_model)})"
    return f"(mkDres {out['status']} {sol} {cz(int(out['objective']))} {cz(int(out['iterations']))} {cz(int(out['evaluations']))} {sols})"


def c_params(case):
    kw = case["kw"]
    return f"({cz(kw['max_conflicts'])}, {cz(kw['max_restarts'])}, {cz(kw['solution_limit'])}, {cz(kw['luby_factor'])})"


def c_cls(case):
    return clist(case["clauses"], lambda c: clist(c, cz))


def c_case(case, out):
    return f"({c_cls(case)}, {clist(case['assumptions'], cz)}, {c_params(case)}, ({clist(out['trace'], c_devent)}, {c_dres(out)}))"


def expressible(case, out):
    ints = all(isinstance(out.get(k), int) and not isinstance(out.get(k), bool) for k in ("objective", "iterations", "evaluations"))
    kw = case["kw"]
    return (out["outcome"] == "ok" and out["status"] in ("OPTIMAL", "INFEASIBLE", "MAX_ITER") and ints
            and all(isinstance(kw[k], int) for k in ("max_conflicts", "max_restarts", "solution_limit", "luby_factor"))
            and all(e[0] != "verdict" or e[1] in ("OPTIMAL", "INFEASIBLE", "MAX_ITER") for e in out["trace"])
            and SC.n_vars_of(case["clauses"]) <= 400)


def model_term(case, out):
    """Coq term evaluating the model on the run's decisions (for diagnostics)."""
    kw = case["kw"]
    evs = clist(out["trace"], c_devent)
    return (f"solve_sat (deep_fuel {c_cls(case)} {evs}) {c_cls(case)} {clist(case['assumptions'], cz)} {cz(kw['max_conflicts'])} "
            f"{cz(kw['max_restarts'])} {cz(kw['solution_limit'])} {cz(kw['luby_factor'])} (decisions_of {evs})")


# x1 xor ... xor x12 = 1 through chain variables 13..22 (2048 models, many conflicts between them): with luby_factor=1 the
# database passes 2000 clauses while learned clauses with lbd > 3 exist, so the sort key, the half cut and the lbd <= 3
# rule of reduce_db() all decide what is dropped
PARITY12 = [[-1, -2, -13], [-15, 5, 16], [-17, 7, 18], [-14, 4, 15], [-1, 2, 13], [13, 3, -14], [20, 10, -21], [-18, -8, -19],
            [18, -8, 19], [19, 9, -20], [17, 7, -18], [-17, -7, -18], [15, 5, -16], [-21, -11, -22], [14, -4, 15], [-14, -4, -15],
            [21, 11, -22], [18, 8, -19], [21, -11, 22], [16, -6, 17], [1, 2, -13], [-20, -10, -21], [1, -2, 13], [19, -9, 20],
            [-22, -12], [-20, 10, 21], [14, 4, -15], [-18, 8, 19], [22, 12], [15, -5, 16], [-16, 6, 17], [-13, -3, -14],
            [-13, 3, 14], [16, 6, -17], [-19, 9, 20], [17, -7, 18], [-19, -9, -20], [20, -10, 21], [-16, -6, -17], [-21, 11, 22],
            [13, -3, 14], [-15, -5, -16]]
REDUCE_DB_CASES = [
    # >= 2000 learned + blocking clauses at a restart: reduce_db() actually reduces (thorough tier / C01_DEEP_HEAVY=1 only)
    SC.mk([list(range(1, 12))] + [[-1, -2, 3], [-4, 5, -6]], family="deep-reduce-db", solution_limit=1400, luby_factor=1, timeout=60),
    SC.mk(PARITY12, family="deep-reduce-db", solution_limit=1500, luby_factor=1, timeout=60),
]


def gen_cases(ctx: Ctx, big: bool):
    cases = [c for c in SC.load_corpus("C01") + SC.fixed_cases(ctx.rng, big) if SC.valid_input(c)]
    cases += [c for c, _ in SC.QUIRKS[:1]]  # solve_sat([[]]): n_vars == 0 exit, modelled
    n_rand = ctx.budget(450, 4000)
    cases += [c for c in (SC.gen_case(ctx.rng, big) for _ in range(n_rand)) if SC.valid_input(c)]
    return cases


def run_part(ctx: Ctx):
    big = ctx.tier == "thorough"
    if not hook_present():
        ctx.notes.append("C01_deep: solvor.sat has no _VERIF_DECISIONS hook (commit 'verif hook: sat decision events') - the exact "
                         "model correspondence was NOT run")
        ctx.count("deep_trace", "skipped-no-decision-hook")
        return
    max_events = MAX_EVENTS_THOROUGH if big else MAX_EVENTS_QUICK
    cases = gen_cases(ctx, big)
    outs = pmap(run_impl_deep, cases)
    if big or os.environ.get("C01_DEEP_HEAVY") == "1":  # ~50 s of coqc: thorough tier (or on request) only
        for c in REDUCE_DB_CASES:
            cases.append(c)
            outs.append(run_impl_deep(c))
    coq_cases, meta = [], []
    for case, out in zip(cases, outs):
        ctx.evaluations += 1
        if not expressible(case, out):
            ctx.count("deep_trace", "not-expressible(" + out["outcome"] + ")")
            continue
        heavy = case["family"] == "deep-reduce-db"
        if len(out["trace"]) > max_events and not heavy:
            ctx.count("deep_trace", "skipped-too-long")
            continue
        nd = sum(1 for e in out["trace"] if e[0] == "decide")
        nl = sum(1 for e in out["trace"] if e[0] == "learn" and not e[2])
        nr = sum(1 for e in out["trace"] if e[0] == "restart")
        nb = sum(1 for e in out["trace"] if e[0] == "learn" and e[2])
        ctx.count("deep_decisions", "0" if nd == 0 else "1-9" if nd < 10 else "10-99" if nd < 100 else ">=100")
        ctx.count("deep_learned", "0" if nl == 0 else "1-9" if nl < 10 else "10-99" if nl < 100 else ">=100")
        ctx.count("deep_restarts", "0" if nr == 0 else "1-9" if nr < 10 else ">=10")
        ctx.count("deep_blocking", "0" if nb == 0 else "1-9" if nb < 10 else ">=10")
        coq_cases.append(c_case(case, out))
        meta.append((case, out))
    normal = [i for i, (c, _) in enumerate(meta) if c["family"] != "deep-reduce-db"]
    heavy = [i for i, (c, _) in enumerate(meta) if c["family"] == "deep-reduce-db"]
    failing = ctx.coq_check("deep", IMPORTS, CASE_TYPE, CHK, [coq_cases[i] for i in normal], shard=30, timeout=900)
    failing = [normal[i] for i in failing]
    if heavy:
        f2 = ctx.coq_check("deepreduce", IMPORTS, CASE_TYPE, CHK, [coq_cases[i] for i in heavy], shard=1, timeout=1500)
        failing += [heavy[i] for i in f2]
    ok = len(coq_cases) - len(failing)
    ctx.traces_validated += ok
    ctx.count("deep_trace", "equal", ok)
    ctx.notes.append("C01_deep: pick_var()/VSIDS is an oracle (the recorded decision sequence); everything else of solve_sat is executed "
                     "by the model SV.C01.DeepCdcl inside coqc and compared for equality (events incl. decisions and restarts, Result "
                     "incl. iterations/evaluations)")
    if not failing:
        return
    ctx.count("deep_trace", "DIFFERENT", len(failing))
    # is any returned assignment actually wrong on the disagreeing inputs / nearby inputs? (C01's own oracle)
    found = False
    for i in failing[:20]:
        case, out = meta[i]
        bad = SC.judge_c01(case, out, SC.Truth(case["clauses"], case["assumptions"]))
        if bad:
            ctx.violation(f"solve_sat {bad}", {"clauses": case["clauses"], "assumptions": case["assumptions"], "kw": case["kw"],
                                               "observed": {k: out.get(k) for k in ("status", "solution", "solutions")}})
            found = True
            break
    if not found and not ctx.violations:
        import time

        t_end = time.time() + (60 if not big else 300)
        seeds = [meta[i][0] for i in failing[:5]]
        k = 0
        while time.time() < t_end and k < 4000:
            k += 1
            if k % 3 == 0:
                t = json.loads(json.dumps(ctx.rng.choice(seeds)))
                t["kw"]["solution_limit"] = ctx.rng.choice([1, 2, 3, 10, 1000])
                t["kw"]["luby_factor"] = ctx.rng.choice([1, 2, 100])
                if t["clauses"] and ctx.rng.random() < 0.7:
                    del t["clauses"][ctx.rng.randrange(len(t["clauses"]))]
            else:
                t = SC.gen_case(ctx.rng, big)
            if not SC.valid_input(t):
                continue
            o = SC.run_impl(t)
            bad = SC.judge_c01(t, o, SC.Truth(t["clauses"], t["assumptions"]))
            if bad:
                small = SC.shrink(t, lambda u: bool(SC.judge_c01(u, SC.run_impl(u, 2), SC.Truth(u["clauses"], u["assumptions"]))))
                o2 = SC.run_impl(small)
                ctx.violation(f"solve_sat {SC.judge_c01(small, o2, SC.Truth(small['clauses'], small['assumptions'])) or bad}",
                              {"clauses": small["clauses"], "assumptions": small["assumptions"], "kw": small["kw"],
                               "observed": {k: o2.get(k) for k in ("outcome", "status", "solution", "solutions", "exc")}})
                found = True
                break
    if not found:
        for i in failing[:2]:
            case, out = meta[i]
            txt = ctx.coq_eval(f"deepdiag_{i}", IMPORTS, model_term(case, out))
            ctx.violation("the faithful model SV.C01.DeepCdcl.solve_sat, run on the decisions of this call, does not reproduce the call's "
                          "event trace / Result (lemma Cases/C01/deep_*.v corr): the code no longer does what the model (and the theorems "
                          "of Props/C01_deep.v about it) describe",
                          {"clauses": case["clauses"], "assumptions": case["assumptions"], "kw": case["kw"],
                           "implementation": {k: out.get(k) for k in ("status", "solution", "solutions", "objective", "iterations", "evaluations")},
                           "implementation_trace": out["trace"][:60], "model_outcome": txt[-3000:]}, no_input=True)


def replay_deep(obj):
    """re-run one input with both hooks and print the trace (model side needs coqc: see Cases/C01/deepdiag_*.v)"""
    case = SC.mk(obj["clauses"], obj.get("assumptions", []), "replay", **obj.get("kw", {}))
    out = run_impl_deep(case)
    print("trace:", out["trace"][:80])
    print("result:", {k: out.get(k) for k in ("status", "solution", "solutions", "objective", "iterations", "evaluations")})
    return 0
