"""C11 part B - best-first shortest-path solvers: dijkstra, astar, astar_grid (+ reconstruct_path).

Called by harness/props/C11.py as `run_part(ctx)`.

Tie to /repo: random small digraphs / grids are run on solvor.dijkstra.dijkstra, solvor.a_star.astar,
solvor.a_star.astar_grid (working tree); the same inputs are evaluated inside coqc (vm_compute) by the Gallina
models SV.C11.BestFirst (one generic closed-set best-first loop, instantiated for dijkstra / astar over Z),
SV.C11.BestGridF (astar_grid over primitive binary64 floats: status, path, objective must be bit-identical) and
SV.C11.BestGrid (astar_grid over exact Z[sqrt 2]: status equal, objective within 1e-9).
Independently a naive Python reference (Bellman-Ford style relaxation to a fixed point + exhaustive simple-path
enumeration on graphs; relaxation to a fixed point on the grid graph) judges the implementation against the
property itself; and the Coq boolean spec checker `result_check` (proved sound in BestSpecProofs.v) judges the
implementation's outputs inside coqc.
"""
import json
import math
from itertools import product

from harness.core import VERIF, Ctx, cbool, clist, copt, cz, guarded

ANCHORS = ["solvor/dijkstra.py", "solvor/a_star.py", "solvor/utils/helpers.py"]
IMPORTS = "From SV Require Import C11.BestFirst C11.BestGrid C11.BestGridF C11.BestSpec C11.BestHyps C11.BestCases.\nFrom Coq Require Import Floats."
INF = float("inf")
BIG_H = 1000


# ------------------------------------------------------------------------------------------------ labels
def make_labels(rng, n):
    """n pairwise distinct (under ==) hashable labels of mixed types."""
    kind = rng.choice(["int", "int", "str", "tuple", "mixed", "neg"])
    if kind == "int":
        return list(range(n))
    if kind == "neg":
        xs = rng.sample(range(-50, 50), n)
        return xs
    if kind == "str":
        return rng.sample(["a", "b", "c", "d", "e", "f", "g", "h", "", "goal"], n)
    if kind == "tuple":
        return rng.sample([(i, j) for i in range(3) for j in range(3)], n)
    pool = [2, -7, "x", "", (0, 1), (), frozenset([1]), 3.5, None, "2", (2,), 100]
    return rng.sample(pool, n)


def lab_json(x):
    """JSON-able encoding of a label (round-trips through lab_unjson)."""
    if isinstance(x, tuple):
        return {"t": [lab_json(y) for y in x]}
    if isinstance(x, frozenset):
        return {"fs": sorted(lab_json(y) for y in x)}
    return x


def lab_unjson(x):
    if isinstance(x, dict):
        if "t" in x:
            return tuple(lab_unjson(y) for y in x["t"])
        return frozenset(lab_unjson(y) for y in x["fs"])
    return x


# ------------------------------------------------------------------------------------------------ graph cases
# A graph case (all node references are indices into `labels`; index len(labels) = a label that occurs nowhere):
#   {"kind": "graph", "algo": "dijkstra"|"astar", "labels": [...], "adj": [[(v, w), ...] per node], "start": i,
#    "goal_mode": "value"|"pred", "goals": [i...], "h": [...] (astar), "hkind": str, "weight": int,
#    "max_iter": int|None, "max_cost": int|None}
def true_dists(adj, src):
    """Naive reference: relax all edges until nothing changes (weights are non-negative integers)."""
    n = len(adj)
    d = [INF] * (n + 1)
    if src <= n:
        d[src] = 0
    changed = True
    rounds = 0
    while changed and rounds <= n + 1:
        changed = False
        rounds += 1
        for u in range(n):
            if d[u] == INF:
                continue
            for v, w in adj[u]:
                if d[u] + w < d[v]:
                    d[v] = d[u] + w
                    changed = True
    return d


def dists_to_goals(adj, goals):
    """dist(v, goal set) for every v (reverse relaxation)."""
    n = len(adj)
    d = [INF] * (n + 1)
    for t in goals:
        d[t] = 0
    changed = True
    while changed:
        changed = False
        for u in range(n):
            for v, w in adj[u]:
                if d[v] + w < d[u]:
                    d[u] = d[v] + w
                    changed = True
    return d


def enum_best(adj, src, goals):
    """Exhaustive simple-path enumeration (second, structurally different reference; <= 7 nodes)."""
    best = INF
    n = len(adj)
    gs = set(goals)

    def rec(u, cost, seen):
        nonlocal best
        if u in gs:
            best = min(best, cost)
            return  # weights are >= 0: extending cannot help
        if u >= n:
            return
        for v, w in adj[u]:
            if v not in seen:
                rec(v, cost + w, seen | {v})

    rec(src, 0, {src})
    return best


def gen_graph(rng, big=False):
    n = rng.choice([1, 2, 3, 3, 4, 4, 5, 5, 6, 6, 7] + ([8, 10, 12] if big else []))
    labels = make_labels(rng, min(n, 9)) if n <= 9 else list(range(n))
    n = len(labels)
    dens = rng.choice([0.15, 0.3, 0.3, 0.5, 0.8])
    wmax = rng.choice([1, 2, 3, 9, 9, 20])
    adj = [[] for _ in range(n)]
    for u in range(n):
        for v in range(n):
            if rng.random() < dens:
                if u == v and rng.random() < 0.5:
                    continue
                adj[u].append((v, rng.randint(0, wmax)))
                if rng.random() < 0.2:  # duplicate (parallel) edge, usually with another weight
                    adj[u].append((v, rng.randint(0, wmax)))
        if rng.random() < 0.15 and n > 0:
            adj[u].append((n, rng.randint(0, wmax)))  # edge to a sink that has no adjacency entry of its own
        rng.shuffle(adj[u])
    if rng.random() < 0.25:  # chain with shortcuts: order of settling matters
        for u in range(n - 1):
            adj[u].append((u + 1, rng.randint(0, 2)))
    start = rng.randrange(n)
    r = rng.random()
    if r < 0.6:
        goal_mode, goals = "value", [rng.randrange(n + 1)]
    elif r < 0.7:
        goal_mode, goals = "value", [start]
    else:
        goal_mode = "pred"
        goals = sorted(set(rng.randrange(n + 1) for _ in range(rng.randint(0, 3))))
    algo = rng.choice(["dijkstra", "astar"])
    case = {"kind": "graph", "algo": algo, "labels": labels, "adj": adj, "start": start, "goal_mode": goal_mode,
            "goals": goals, "weight": 1, "max_iter": None, "max_cost": None, "hkind": "-", "h": []}
    if algo == "astar":
        dg = dists_to_goals(adj, goals)
        hk = rng.choice(["zero", "exact", "half", "third", "exact", "random", "over"])
        if hk == "zero":
            h = [0] * (n + 1)
        elif hk in ("exact", "half", "third"):
            num, den = {"exact": (1, 1), "half": (1, 2), "third": (1, 3)}[hk]
            h = [BIG_H if d == INF else (d * num) // den for d in dg]
        elif hk == "random":
            h = [rng.randint(0, wmax + 2) for _ in range(n + 1)]
        else:  # overestimating (inadmissible)
            h = [BIG_H if d == INF else 2 * d + rng.randint(0, 3) for d in dg]
        case["h"], case["hkind"] = h, hk
        if rng.random() < 0.15:
            case["weight"] = rng.choice([2, 3])
    r = rng.random()
    if r < 0.12:
        case["max_iter"] = rng.randint(0, n + 1)
    elif r < 0.16:
        case["max_iter"] = n + 5
    if rng.random() < 0.2:
        case["max_cost"] = rng.randint(0, 2 * wmax + 1)
    return case


def h_consistent(case):
    adj, h, goals = case["adj"], case["h"], case["goals"]
    if any(h[t] != 0 for t in goals):
        return False
    for u, es in enumerate(adj):
        for v, w in es:
            if h[u] > w + h[v]:
                return False
    return True


def run_graph_impl(case):
    from solvor.a_star import astar
    from solvor.dijkstra import dijkstra

    labels = list(case["labels"]) + [("__nowhere__", 0)]
    adj = case["adj"]
    index = {lab: i for i, lab in enumerate(labels)}

    def neighbors(s):
        i = index[s]
        if i >= len(adj):
            return
        for v, w in adj[i]:
            yield labels[v], w

    if case["goal_mode"] == "value":
        goal = labels[case["goals"][0]]
    else:
        gset = {labels[t] for t in case["goals"]}
        goal = lambda s: s in gset  # noqa: E731
    kw = {}
    if case["max_iter"] is not None:
        kw["max_iter"] = case["max_iter"]
    if case["max_cost"] is not None:
        kw["max_cost"] = case["max_cost"]
    if case["algo"] == "dijkstra":
        r = dijkstra(labels[case["start"]], goal, neighbors, **kw)
    else:
        h = case["h"]
        r = astar(labels[case["start"]], goal, neighbors, lambda s: h[index[s]], weight=float(case["weight"]), **kw)
    sol = None if r.solution is None else [index.get(x, -1) if _hashable(x) else -1 for x in r.solution]
    return {"status": r.status.name, "path": sol, "obj": r.objective}


def _hashable(x):
    try:
        hash(x)
        return True
    except TypeError:
        return False


def path_sums(adj, path):
    """All possible weight sums along the vertex sequence (parallel edges); None if some step is no edge."""
    sums = {0}
    for u, v in zip(path, path[1:]):
        if u >= len(adj):
            return None
        ws = {w for (x, w) in adj[u] if x == v}
        if not ws:
            return None
        sums = {s + w for s in sums for w in ws}
    return sums


def judge_graph(case, out):
    """The property itself.  Returns None or a description of the violation."""
    if out[0] != "ok":
        return f"implementation {out[0]}: {out[1:]}"
    r = out[1]
    adj, goals, start = case["adj"], case["goals"], case["start"]
    n = len(adj)
    d = true_dists(adj, start)
    D = min([d[t] for t in goals], default=INF)
    if n <= 7:
        E = enum_best(adj, start, goals)
        if E != D:
            raise AssertionError(f"oracles disagree {E} {D} on {case}")
    nreach = sum(1 for x in d if x < INF)
    st, path, obj = r["status"], r["path"], r["obj"]
    if st in ("OPTIMAL", "FEASIBLE"):
        if not isinstance(path, list) or not path:
            return f"status {st} without a path"
        if path[0] != start:
            return f"path {path} does not start at the source {start}"
        if path[-1] not in goals:
            return f"path {path} does not end at a goal node {goals}"
        sums = path_sums(adj, path)
        if sums is None:
            return f"path {path} uses a non-existing edge"
        if obj not in sums:
            return f"objective {obj} is not a weight sum of the path {path} (possible: {sorted(sums)})"
    elif st in ("INFEASIBLE", "MAX_ITER"):
        if path is not None or obj != INF:
            return f"status {st} with solution {path} / objective {obj}"
    else:
        return f"unexpected status {st}"
    want_status = "OPTIMAL" if (case["algo"] == "dijkstra" or case["weight"] == 1) else "FEASIBLE"
    if st in ("OPTIMAL", "FEASIBLE") and st != want_status:
        return f"status {st}, expected {want_status}"
    if st == "MAX_ITER":
        mi = case["max_iter"]
        if mi is None or mi > nreach:
            return f"MAX_ITER although max_iter={mi} exceeds the {nreach} reachable nodes"
        return None
    exact = case["algo"] == "dijkstra" or (case["weight"] == 1 and h_consistent(case))
    mc = case["max_cost"]
    if st == "INFEASIBLE":
        # INFEASIBLE exactly when unreachable (with max_cost: when nothing is reachable within the budget)
        if D < INF and (mc is None or D <= mc):
            if exact or mc is None:
                return f"INFEASIBLE but a goal is reachable at distance {D}"
        return None
    # a path was returned
    if D == INF:
        return "a path was returned but no goal is reachable"  # unreachable -> cannot pass the validity checks
    if exact and (mc is None or D <= mc) and obj != D:
        return f"objective {obj} but the shortest distance is {D}"
    return None


def graph_to_coq(case, out):
    return f"({graph_case_coq(case)}, {obs_to_coq(out, lambda t: f'{t}%nat', _cz_obj)})"


def graph_case_coq(case):
    adj = clist(case["adj"], lambda es: clist(es, lambda e: f"({e[0]}%nat, {cz(e[1])})"))
    c = (f"GCase {cbool(case['algo'] == 'astar')} {adj} {case['start']}%nat {clist(case['goals'], lambda t: f'{t}%nat')} "
         f"{clist(case['h'], cz)} {cz(case['weight'])} {cz(1_000_000 if case['max_iter'] is None else case['max_iter'])} "
         f"{copt(case['max_cost'], cz)}")
    return c


def _cz_obj(x):
    if isinstance(x, (int, float)) and x == int(x) and abs(x) < 2 ** 53:
        return cz(int(x))
    return None


def obs_to_coq(out, fnode, fobj):
    """(status, option path, option objective); anything the model can never produce -> UNBOUNDED marker."""
    bad = "(UNBOUNDED, None, None)"
    if out[0] != "ok":
        return bad
    r = out[1]
    if r["status"] not in ("OPTIMAL", "FEASIBLE", "INFEASIBLE", "MAX_ITER"):
        return bad
    path = r["path"]
    if path is not None and (not isinstance(path, list) or any(p is None for p in path)):
        return bad
    try:
        p = copt(path, lambda p_: clist(p_, fnode))
    except Exception:  # noqa: BLE001
        return bad
    if r["obj"] == INF:
        o = "None"
    else:
        v = fobj(r["obj"])
        if v is None:
            return bad
        o = f"(Some {v})"
    return f"({r['status']}, {p}, {o})"


# ------------------------------------------------------------------------------------------------ grid cases
# {"kind": "grid", "grid": [[...]], "start": [r, c], "goal": [r, c], "directions": 4|8, "heuristic": str,
#  "blocked": int | [ints], "costs": {cellvalue: int} | None, "weight": int, "max_iter": int | None}
HN = {"auto": "Hauto", "manhattan": "Hmanhattan", "octile": "Hoctile", "euclidean": "Heuclidean", "chebyshev": "Hchebyshev"}
D8 = [(dx, dy) for dx, dy in product((-1, 0, 1), repeat=2) if (dx, dy) != (0, 0)]


def gen_grid(rng, big=False):
    rows = rng.randint(1, 7 if big else 5)
    cols = rng.randint(1, 7 if big else 5)
    dens = rng.choice([0.0, 0.1, 0.25, 0.25, 0.4, 0.55])
    terrain = rng.random() < 0.35
    grid = []
    for _ in range(rows):
        row = []
        for _ in range(cols):
            if rng.random() < dens:
                row.append(1)
            else:
                row.append(rng.choice([0, 2, 3]) if terrain else 0)
        grid.append(row)
    cells = [(r, c) for r in range(rows) for c in range(cols)]
    free = [x for x in cells if grid[x[0]][x[1]] != 1] or cells
    pick = lambda: rng.choice(free) if rng.random() < 0.9 else rng.choice(cells)  # noqa: E731
    start, goal = pick(), pick()
    if rng.random() < 0.5:  # far apart: opposite corners
        start, goal = (0, 0), (rows - 1, cols - 1)
    directions = rng.choice([4, 8])
    r = rng.random()
    if r < 0.6:
        heur = "auto"
    else:
        heur = rng.choice(["manhattan", "octile", "euclidean", "chebyshev"])
    blocked = 1
    if rng.random() < 0.2:
        blocked = rng.choice([[1], [1, 3], [], [3]])
    costs = None
    if terrain and rng.random() < 0.8:
        costs = {k: rng.randint(1, 4) for k in rng.sample([0, 2, 3], rng.randint(1, 3))}
        if rng.random() < 0.08:
            costs[rng.choice([0, 2])] = 0  # cheap terrain: heuristics no longer admissible
    weight = 1 if rng.random() < 0.9 else 2
    max_iter = None if rng.random() < 0.9 else rng.randint(0, rows * cols)
    return {"kind": "grid", "grid": grid, "start": list(start), "goal": list(goal), "directions": directions,
            "heuristic": heur, "blocked": blocked, "costs": costs, "weight": weight, "max_iter": max_iter}


def run_grid_impl(case):
    from solvor.a_star import astar_grid

    kw = {"directions": case["directions"], "heuristic": case["heuristic"], "weight": float(case["weight"])}
    b = case["blocked"]
    kw["blocked"] = b if isinstance(b, int) else set(b)
    if case["costs"] is not None:
        kw["costs"] = {int(k): v for k, v in case["costs"].items()}
    if case["max_iter"] is not None:
        kw["max_iter"] = case["max_iter"]
    r = astar_grid([list(row) for row in case["grid"]], tuple(case["start"]), tuple(case["goal"]), **kw)
    sol = None if r.solution is None else [tuple(x) for x in r.solution]
    return {"status": r.status.name, "path": sol, "obj": r.objective}


def grid_graph(case):
    """Independent construction of the grid graph: cell -> [(cell, float cost)]."""
    grid = case["grid"]
    rows, cols = len(grid), len(grid[0]) if grid else 0
    b = case["blocked"]
    blocked = {b} if isinstance(b, int) else set(b)
    costs = {int(k): v for k, v in (case["costs"] or {}).items()}
    diag = case["directions"] == 8
    g = {}

    def out_edges(r, c):
        es = []
        for dr in (-1, 0, 1):
            for dc in (-1, 0, 1):
                if (dr, dc) == (0, 0) or (not diag and dr != 0 and dc != 0):
                    continue
                nr, nc = r + dr, c + dc
                if 0 <= nr < rows and 0 <= nc < cols and grid[nr][nc] not in blocked:
                    w = costs.get(grid[nr][nc], 1)
                    es.append(((nr, nc), w * math.sqrt(2) if dr and dc else float(w)))
        return es

    for r in range(rows):
        for c in range(cols):
            g[(r, c)] = out_edges(r, c)
    s = tuple(case["start"])
    if s not in g:
        g[s] = out_edges(*s)
    return g


def grid_heuristic_ok(case):
    """Is the chosen heuristic consistent on this grid graph (then weight 1 must give the optimum)?"""
    costs = case["costs"] or {}
    if any(v < 1 for v in costs.values()):
        return False
    h = case["heuristic"]
    if h == "auto":
        return True
    if case["directions"] == 8 and h == "manhattan":
        return False
    return True


def judge_grid(case, out):
    if out[0] != "ok":
        return f"implementation {out[0]}: {out[1:]}"
    r = out[1]
    g = grid_graph(case)
    s, t = tuple(case["start"]), tuple(case["goal"])
    dist = {s: 0.0}
    changed = True
    while changed:
        changed = False
        for u, es in g.items():
            if u not in dist:
                continue
            for v, w in es:
                if dist[u] + w < dist.get(v, INF) - 1e-12:
                    dist[v] = dist[u] + w
                    changed = True
    D = dist.get(t, INF)
    st, path, obj = r["status"], r["path"], r["obj"]
    ncells = len(dist)
    if st in ("OPTIMAL", "FEASIBLE"):
        if not path or path[0] != s or path[-1] != t:
            return f"path {path} does not lead from {s} to {t}"
        tot = 0.0
        for u, v in zip(path, path[1:]):
            ws = [w for (x, w) in g.get(u, []) if x == v]
            if not ws:
                return f"path step {u}->{v} is not a move of the grid graph"
            tot += ws[0]
        if abs(tot - obj) > 1e-9:
            return f"objective {obj} but the path costs {tot}"
        if st != ("OPTIMAL" if case["weight"] == 1 else "FEASIBLE"):
            return f"status {st} with weight {case['weight']}"
        if case["weight"] == 1 and grid_heuristic_ok(case) and abs(obj - D) > 1e-9:
            return f"objective {obj} but the shortest distance is {D}"
        return None
    if st == "MAX_ITER":
        mi = case["max_iter"]
        if mi is None or mi > ncells:
            return f"MAX_ITER although max_iter={mi} exceeds the {ncells} reachable cells"
        return None if (path is None and obj == INF) else "MAX_ITER with a solution"
    if st == "INFEASIBLE":
        if path is not None or obj != INF:
            return "INFEASIBLE with a solution"
        if D < INF:
            return f"INFEASIBLE but the goal is reachable at distance {D}"
        return None
    return f"unexpected status {st}"


def cfloat(x):
    x = float(x)
    if x == INF or x != x:
        return None
    hx = x.hex()
    return f"({hx})%float" if x >= 0 else f"(PrimFloat.opp ({(-x).hex()})%float)"


def ccell(p):
    return f"({cz(p[0])}, {cz(p[1])})"


def grid_to_coq(case, out):
    return f"({grid_case_coq(case)}, {obs_to_coq(out, ccell, cfloat)})"


def grid_case_coq(case):
    b = case["blocked"]
    bl = [b] if isinstance(b, int) else list(b)
    cm = sorted((int(k), v) for k, v in (case["costs"] or {}).items())
    c = (f"GrCase {clist(case['grid'], lambda row: clist(row, cz))} {ccell(case['start'])} {ccell(case['goal'])} "
         f"{cz(case['directions'])} {HN[case['heuristic']]} {clist(bl, cz)} {clist(cm, lambda kv: f'({cz(kv[0])}, {cz(kv[1])})')} "
         f"{cz(case['weight'])} {cz(1_000_000 if case['max_iter'] is None else case['max_iter'])}")
    return c


# ------------------------------------------------------------------------------------------------ corpus
def corpus_cases():
    out = []
    d = VERIF / "corpus" / "C11"
    if d.exists():
        for f in sorted(d.glob("best_*.json")):
            o = json.loads(f.read_text())
            out.append(case_from_json(o))
    return out


def case_from_json(o):
    o = dict(o)
    if o["kind"] == "graph":
        o["labels"] = [lab_unjson(x) for x in o["labels"]]
        o["adj"] = [[tuple(e) for e in es] for es in o["adj"]]
    return o


def case_to_json(case):
    o = dict(case)
    if o["kind"] == "graph":
        o["labels"] = [lab_json(x) for x in o["labels"]]
    return o


def fixed_cases():
    """Edge cases named in the property's quantifier."""
    def G(algo, adj, start, goals, mode="value", h=None, weight=1, max_iter=None, max_cost=None, labels=None):
        n = len(adj)
        return {"kind": "graph", "algo": algo, "labels": labels or list(range(n)), "adj": adj, "start": start,
                "goal_mode": mode, "goals": goals, "h": h or [0] * (n + 1), "hkind": "fixed", "weight": weight,
                "max_iter": max_iter, "max_cost": max_cost}
    diamond = [[(1, 4), (2, 1)], [(3, 1)], [(1, 2), (3, 5)], []]
    out = []
    for algo in ("dijkstra", "astar"):
        out += [
            G(algo, [[]], 0, [0]),                                   # start is the goal
            G(algo, [[]], 0, [1]),                                   # goal not in the graph
            G(algo, [[(0, 0)]], 0, [1]),                             # zero-weight self loop only
            G(algo, diamond, 0, [3]),                                # stale heap entry for node 1 (4 then 3)
            G(algo, diamond, 0, [3], max_iter=3), G(algo, diamond, 0, [3], max_iter=4), G(algo, diamond, 0, [3], max_iter=0),
            G(algo, diamond, 0, [3], max_cost=3), G(algo, diamond, 0, [3], max_cost=4), G(algo, diamond, 0, [3], max_cost=0),
            G(algo, diamond, 0, [1, 3], mode="pred"), G(algo, diamond, 0, [], mode="pred"),
            G(algo, [[(1, 0), (1, 0)], [(0, 0), (2, 0)], []], 0, [2]),  # zero-weight cycle + duplicate edges
            G(algo, [[(1, 5)], [(2, 1)], []], 0, [2], max_cost=4),   # s-a 5, a-t 1: a closed unexpanded
            G(algo, [[(1, 5), (2, 10)], [(2, 1)], []], 0, [2], max_cost=4),  # returns 10 although dist is 6 (> max_cost: allowed)
            G(algo, diamond, 0, [3], labels=["s", (1, 2), None, frozenset([3])]),
        ]
    out.append(G("astar", diamond, 0, [3], h=[3, 1, 2, 0, 0]))           # exact heuristic
    out.append(G("astar", diamond, 0, [3], h=[0, 9, 0, 0, 0]))           # inadmissible: returns 6 via node 2
    out.append(G("astar", diamond, 0, [3], h=[3, 1, 2, 0, 0], weight=2))
    # tie on f, broken by larger g: two routes of equal cost
    out.append(G("astar", [[(1, 1), (2, 2)], [(3, 2)], [(3, 1)], []], 0, [3], h=[3, 2, 1, 0, 0]))

    def R(grid, s, t, d=4, h="auto", blocked=1, costs=None, weight=1, max_iter=None):
        return {"kind": "grid", "grid": grid, "start": list(s), "goal": list(t), "directions": d, "heuristic": h,
                "blocked": blocked, "costs": costs, "weight": weight, "max_iter": max_iter}
    ring = [[0, 0, 0], [0, 1, 0], [0, 0, 0]]
    wall = [[0, 1, 0], [0, 1, 0], [0, 1, 0]]
    open5 = [[0] * 5 for _ in range(5)]
    for d in (4, 8):
        out += [R(ring, (0, 0), (2, 2), d), R(wall, (0, 0), (2, 2), d), R([[0]], (0, 0), (0, 0), d), R(open5, (0, 0), (4, 4), d),
                R(open5, (0, 0), (4, 3), d, h="euclidean"), R(open5, (4, 0), (0, 3), d, h="chebyshev"), R(open5, (0, 0), (4, 4), d, max_iter=3),
                R([[0, 2, 0], [0, 2, 0], [0, 0, 0]], (0, 0), (0, 2), d, costs={2: 4}),
                R([[0, 1], [1, 0]], (0, 0), (1, 1), d),             # diagonal squeeze between two obstacles
                R(ring, (1, 1), (2, 2), d),                         # start on a blocked cell
                R(ring, (0, 0), (1, 1), d),                         # goal blocked
                R([[0, 3, 0]], (0, 0), (0, 2), d, blocked=[1, 3]), R([[0, 1, 0]], (0, 0), (0, 2), d, blocked=[])]
    return out


# ------------------------------------------------------------------------------------------------ run
def nontrivial(case, out):
    """Non-trivial: the search had a choice - a goal reached over >= 2 edges with at least one alternative
    route or stale entry, or an infeasible instance with >= 3 explored nodes."""
    if out[0] != "ok":
        return True
    p = out[1]["path"]
    if p is not None:
        return len(p) >= 3
    if case["kind"] == "graph":
        return sum(len(e) for e in case["adj"]) >= 3
    return len(case["grid"]) * len(case["grid"][0]) >= 6


def evaluate(ctx, cases, search=False):
    """Run implementation + oracle on the cases; returns (outs, verdicts)."""
    outs, verdicts = [], []
    for case in cases:
        if case["kind"] == "graph":
            out = guarded(run_graph_impl, case, timeout=5)
            bad = judge_graph(case, out)
        else:
            out = guarded(run_grid_impl, case, timeout=5)
            bad = judge_grid(case, out)
        outs.append(out)
        verdicts.append(bad)
        if not search:
            ctx.evaluations += 1
    return outs, verdicts


def shrink_graph(case):
    """Drop edges / limits while the oracle still objects."""
    best = case
    improved = True
    while improved:
        improved = False
        for u in range(len(best["adj"])):
            for k in range(len(best["adj"][u])):
                c2 = dict(best)
                c2["adj"] = [list(es) for es in best["adj"]]
                del c2["adj"][u][k]
                if judge_graph(c2, guarded(run_graph_impl, c2, timeout=5)):
                    best, improved = c2, True
                    break
            if improved:
                break
    return best


def report_violation(ctx, case, out, bad):
    if case["kind"] == "graph":
        try:
            small = shrink_graph(case)
            out2 = guarded(run_graph_impl, small, timeout=5)
            bad2 = judge_graph(small, out2)
            if bad2:
                case, out, bad = small, out2, bad2
        except Exception:  # noqa: BLE001
            pass
    fn = {"graph": case.get("algo"), "grid": "astar_grid"}[case["kind"]]
    ctx.violation(f"{fn}: {bad}", {"part": "bestfirst", "case": case_to_json(case), "impl": _jsonable(out)})


def _jsonable(out):
    if out[0] == "ok":
        r = dict(out[1])
        if r["obj"] == INF:
            r["obj"] = "inf"
        return r
    return list(out)


def run_part(ctx: Ctx):
    ctx.rule += (" | best-first part: random digraphs (1..7 nodes, mixed hashable labels, non-negative integer weights incl. 0, "
                 "parallel edges, self loops, cycles, sink nodes without adjacency, goal as value or predicate, max_iter / max_cost limits; "
                 "astar heuristics: 0, floor(c*dist) consistent, random, overestimating; weight 1..3) and random grids <= 5x5 "
                 "(4/8 directions, obstacles, terrain costs, all heuristic names, blocked as int/set); non-trivial = returned path has "
                 ">= 2 edges, or no path and the instance has >= 3 edges / >= 6 cells; distinct = canonical JSON of the case")
    big = ctx.tier == "thorough"
    n_graph = ctx.budget(500, 12000)
    n_grid = ctx.budget(250, 5000)
    cases = corpus_cases() + fixed_cases()
    cases += [gen_graph(ctx.rng, big) for _ in range(n_graph)]
    cases += [gen_grid(ctx.rng, big) for _ in range(n_grid)]

    outs, verdicts = evaluate(ctx, cases)
    gcoq, gmeta, rcoq, rmeta = [], [], [], []
    for case, out, bad in zip(cases, outs, verdicts):
        kind = case["kind"]
        st = out[1]["status"] if out[0] == "ok" else out[0]
        if kind == "graph":
            ctx.count("bf_algo", case["algo"])
            ctx.count(f"bf_status_{case['algo']}", st)
            ctx.count("bf_nodes", len(case["adj"]))
            ctx.count("bf_goal_mode", case["goal_mode"])
            ctx.count("bf_limits", ("max_iter " if case["max_iter"] is not None else "") + ("max_cost" if case["max_cost"] is not None else "") or "none")
            if case["algo"] == "astar":
                ctx.count("bf_heuristic", case["hkind"] + ("" if h_consistent(case) else "(inconsistent)"))
                ctx.count("bf_weight", case["weight"])
            gcoq.append(graph_to_coq(case, out))
            gmeta.append((case, out, bad))
        else:
            ctx.count("grid_status", st)
            ctx.count("grid_dirs", case["directions"])
            ctx.count("grid_heuristic", case["heuristic"])
            ctx.count("grid_size", f"{len(case['grid'])}x{len(case['grid'][0])}")
            rcoq.append(grid_to_coq(case, out))
            rmeta.append((case, out, bad))
        if bad:
            report_violation(ctx, case, out, bad)
        if nontrivial(case, out):
            ctx.nontriv(json.dumps(case_to_json(case), sort_keys=True, default=str))
        if kind == "graph":
            ctx.sample({"case": case_to_json(case), "impl": _jsonable(out)}, 2)
        else:
            ctx.sample({"case": case, "impl": _jsonable(out)}, 4)

    # ---- kernel-checked correspondence + Coq spec checker on the implementation's outputs
    disagree = []
    f1 = ctx.coq_check("best_graph", IMPORTS, "gcase * obs nat Z", "gcase_ok", gcoq)
    disagree += [("graph model SV.C11.BestFirst", gmeta[i]) for i in f1]
    f2 = ctx.coq_check("best_graph_spec", IMPORTS, "gcase * obs nat Z", "gcase_spec_ok", gcoq)
    f3 = ctx.coq_check("best_grid_f", IMPORTS, "grcase * obs cell float", "grcase_f_ok", rcoq)
    disagree += [("grid float model SV.C11.BestGridF", rmeta[i]) for i in f3]
    zr = [(c, m) for c, m in zip(rcoq, rmeta) if m[0]["heuristic"] != "euclidean"]
    f4 = ctx.coq_check("best_grid_zr", IMPORTS, "grcase * obs cell float", "grcase_zr_ok", [c for c, _ in zr])
    # a weighted / inadmissible search may legitimately end on another (non-optimal) path in exact arithmetic
    f4 = [i for i in f4]
    disagree += [("grid exact model SV.C11.BestGrid (Z[sqrt2])", zr[i][1]) for i in f4]
    f5 = ctx.coq_check("best_grid_spec", IMPORTS, "grcase * obs cell float", "grcase_spec_ok", rcoq)
    ctx.traces_validated += len(gcoq) + len(rcoq)
    # the boolean hypotheses of the optimality theorems (nonneg_adj, consistent_adj, costs_ge1, heur_ok), evaluated in
    # Coq on the real inputs, coincide with the harness's own notion of "the optimum is demanded here"
    hg = []
    for case, out, _bad in gmeta:
        demanded = True if case["algo"] == "dijkstra" else (case["weight"] == 1 and h_consistent(case))
        hg.append("(" + graph_case_coq(case) + ", " + cbool(demanded) + ")")
        ctx.count("bf_theorem_hypotheses_hold", demanded)
    f6 = ctx.coq_check("best_graph_hyp", IMPORTS, "gcase * bool", "gcase_hyp_ok", hg)
    hr = []
    for c, (case, out, _bad) in zr:
        demanded = case["weight"] == 1 and grid_heuristic_ok(case)
        hr.append("(" + grid_case_coq(case) + ", " + cbool(demanded) + ")")
        ctx.count("grid_theorem_hypotheses_hold", demanded)
    f7 = ctx.coq_check("best_grid_hyp", IMPORTS, "grcase * bool", "grcase_hyp_ok", hr)
    for i in f6[:1]:
        ctx.violation("Coq hypotheses nonneg_adj/consistent_adj disagree with the harness's consistency check",
                      {"part": "bestfirst", "case": case_to_json(gmeta[i][0]), "lemma": "Cases/C11/best_graph_hyp_*.v corr"}, no_input=True)
    for i in f7[:1]:
        ctx.violation("Coq hypotheses costs_ge1/heur_ok disagree with the harness's admissibility check",
                      {"part": "bestfirst", "case": zr[i][1][0], "lemma": "Cases/C11/best_grid_hyp_*.v corr"}, no_input=True)
    # how often does the exact model also return the very same path (ties can be broken differently by float rounding)
    if zr:
        txt = ctx.coq_eval("best_grid_zr_paths", IMPORTS,
                           "length (filter grcase_zr_path [" + ";\n".join(c for c, _ in zr[:300]) + "])")
        import re
        m = re.search(r"=\s*(\d+)", txt)
        if m:
            ctx.count("grid_exact_model_same_path", "same", int(m.group(1)))
            ctx.count("grid_exact_model_same_path", "different", min(300, len(zr)) - int(m.group(1)))
    for i in f2:
        case, out, bad = gmeta[i]
        if not bad:
            ctx.violation("Coq spec checker result_check rejects the implementation's output although the Python oracle accepts it",
                          {"part": "bestfirst", "case": case_to_json(case), "impl": _jsonable(out), "lemma": "Cases/C11/best_graph_spec_*.v corr"}, no_input=True)
    for i in f5:
        case, out, bad = rmeta[i]
        if not bad:
            ctx.violation("Coq spec checker (grid) rejects the implementation's output although the Python oracle accepts it",
                          {"part": "bestfirst", "case": case, "impl": _jsonable(out), "lemma": "Cases/C11/best_grid_spec_*.v corr"}, no_input=True)

    ctx.notes += [
        "C11 best-first: weights / heuristic values / limits fed to dijkstra and astar are integers (Python adds them as floats: exact below 2^53), the model computes in Z",
        "C11 best-first: astar_grid is tied bit-for-bit to a twin over Coq primitive binary64 floats (BestGridF.v: status, path, objective identical); "
        "the exact Z[sqrt 2] model (BestGrid.v, the one the theorems speak about) is tied on status and objective within 1e-9 - its path can differ where "
        "float rounding breaks an exact tie (histogram grid_exact_model_same_path)",
        "C11 best-first: euclidean heuristic is (..)**0.5 in the code and sqrt in the float twin (equal for all integers < 200, checked at start); it is outside Z[sqrt 2]",
        "C11 best-first: oracle demands optimality for dijkstra always, for astar only with weight 1 and a consistent heuristic (checked on the instance), "
        "with max_cost only when the true distance is <= max_cost; MAX_ITER accepted only if max_iter <= number of reachable nodes",
        "C11 best-first: theorems (Props/C11_bestfirst.v) hold for every fuel whenever the model returns Some result; that the graph models always return "
        "a result with their built-in fuel is proved (C11_best_total); for the grid model it is checked on every generated case by the correspondence lemmas",
        "C11 best-first: heapq modelled as sorted list (keys unique by counter), dicts as shadowing association lists, grids rectangular",
    ]
    assert all(float(x) ** 0.5 == math.sqrt(x) for x in range(200))

    # ---- model and implementation disagree but the oracle found nothing: search harder
    if (disagree or ctx.broken) and not any(not v["no_input"] for v in ctx.violations):
        found = False
        seeds = [m[0] for _, m in disagree]
        for k in range(30000):
            if seeds and k % 3 == 0:
                case = mutate(ctx.rng, ctx.rng.choice(seeds))
            else:
                case = gen_graph(ctx.rng, True) if ctx.rng.random() < 0.6 else gen_grid(ctx.rng, True)
            o, v = evaluate(ctx, [case], search=True)
            if v[0]:
                report_violation(ctx, case, o[0], v[0])
                found = True
                break
        if not found:
            for what, (case, out, _bad) in disagree[:2]:
                if case["kind"] == "graph":
                    term = "run_gcase (" + graph_case_coq(case) + ")"
                else:
                    term = ("run_grcase_f (" if "float" in what else "run_grcase_zr (") + grid_case_coq(case) + ")"
                model = ctx.coq_eval("best_show", IMPORTS, term)
                ctx.violation(f"correspondence lemma: {what} and the implementation differ on (status, path, objective)",
                              {"part": "bestfirst", "case": case_to_json(case), "impl": _jsonable(out), "model": model[-600:],
                               "lemma": "Cases/C11/best_*.v corr"}, no_input=True)


def mutate(rng, case):
    c = json.loads(json.dumps(case_to_json(case)))
    c = case_from_json(c)
    if c["kind"] == "graph":
        n = len(c["adj"])
        r = rng.random()
        if r < 0.4 and n:
            u = rng.randrange(n)
            c["adj"][u].append((rng.randrange(n + 1), rng.randint(0, 9)))
        elif r < 0.7:
            es = [(u, k) for u in range(n) for k in range(len(c["adj"][u]))]
            if es:
                u, k = rng.choice(es)
                c["adj"][u][k] = (c["adj"][u][k][0], rng.randint(0, 9))
        else:
            c["max_cost"] = rng.choice([None, rng.randint(0, 12)])
            c["max_iter"] = rng.choice([None, rng.randint(0, n + 1)])
        if c["algo"] == "astar" and rng.random() < 0.5:
            dg = dists_to_goals(c["adj"], c["goals"])
            c["h"] = [BIG_H if d == INF else d for d in dg]
    else:
        g = c["grid"]
        r0, c0 = rng.randrange(len(g)), rng.randrange(len(g[0]))
        g[r0][c0] = rng.choice([0, 1])
    return c


def replay(obj):
    case = obj.get("case")
    if not case:
        print("replay names an unchecked obligation:", obj.get("unchecked") or obj.get("what"))
        return 1
    case = case_from_json(case)
    if case["kind"] == "graph":
        out = guarded(run_graph_impl, case, timeout=5)
        bad = judge_graph(case, out)
    else:
        out = guarded(run_grid_impl, case, timeout=5)
        bad = judge_grid(case, out)
    print("implementation output:", _jsonable(out))
    print("reference verdict:", bad or "ok")
    if obj.get("model"):
        print("model said:", obj["model"])
        return 1
    return 1 if bad else 0
