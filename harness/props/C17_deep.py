"""C17 (deep part) - tie of the WHOLE-TREE model SV.C17.DeepBpTree (solve_bp_tree / solve_bp_tree_custom: root node,
best-first heap, pruning, incumbent updates, branching on the most fractional column, column generation at every node,
bounded master LP with column-bound rows) to /repo's solvor.bp.solve_bp.

Small instances (<= 4 piece types, demands <= 6, width <= 12 / <= 3 rows and <= 9 explicit columns; max_iter <= 30,
max_nodes <= 200 or default) are solved by the implementation; the model is evaluated on the same input inside coqc
(vm_compute, exact rationals, eps = 1e-9) and its FULL answer must equal the implementation's: status, plan (ordered),
objective, iterations (= nodes explored), evaluations (= column-generation iterations summed over all nodes)
(`tree_corr`).  `tree_stable`: eps = 0 / 1e-9 / 1e-7 take the same decisions (cases where they do not are near a
threshold: skipped in the correspondence and counted).  Two decisions of the tree search compare floats with each
other without a tolerance - the arg-max of `_most_fractional` and the heap order on node LP values; a run in which the
implementation saw two such candidates closer than 1e-7 but not equal (a tie in exact arithmetic, broken by float noise)
is skipped and counted as well (histogram 'deep_tie_skipped').  `tree_gate`: the proved gate on the implementation's plan.
Every answer is also judged by C17's exact oracle (independent of Coq).
Called from harness/props/C17.py:run (last line).
"""
from __future__ import annotations

import json

from harness.core import COQ, Ctx, cnat, cz, pmap

IMPORTS = ("From Coq Require Import QArith.\nFrom SV Require Import C17.Cg C17.CgSpec C17.Bp C17.Corr C17.DeepBpTree C17.DeepBpTreeCorr.\n"
           "Open Scope Q_scope.")
TIE_TOL = 1e-7
MAX_NODES_SEEN = 60      # cases whose implementation run explored more nodes / made more cg iterations are not replayed
MAX_EVALS_SEEN = 260     # in the model (evaluation time), counted in 'deep_too_big'


# ---------------------------------------------------------------------------------- generators (ctx.rng only)
def gen_tree_cs(rng):
    """Cutting-stock instances that tend to have a fractional root LP with a gap (large pieces, demands 1..6)."""
    n = rng.choice([2, 3, 3, 4, 4])
    width = rng.choice([5, 6, 7, 7, 8, 9, 9, 10, 11, 12, 12])
    style = rng.random()
    if style < 0.5:
        sizes = [rng.randint(max(1, width // 4), width) for _ in range(n)]
    elif style < 0.8:
        sizes = [rng.randint(1, width) for _ in range(n)]
    else:
        sizes = [rng.choice([max(1, width // 2), max(1, width // 3), max(1, width // 2 + 1), rng.randint(1, width)]) for _ in range(n)]
    hi = rng.choice([1, 2, 3, 4, 6, 6])
    demands = [rng.randint(0, hi) for _ in range(n)]
    if not any(demands):
        demands[rng.randrange(n)] = rng.randint(1, hi)
    return {"kind": "cs", "solver": "bp", "sizes": sizes, "width": width, "demands": demands,
            "max_iter": rng.choice([0, 1, 2, 3, 10, 30, 30]), "max_nodes": rng.choice([0, 1, 2, 3, 5, 8, 20, 60, 200, None])}


# inputs on which a path of the tree branches twice on the same column and the REPLACEMENT of the earlier bound by the later one
# (the dict comprehension over node.column_bounds) changes the run, compared with intersecting the two bounds
DEEP_EDGE_CASES = [
    {"kind": "custom", "solver": "bp", "columns": [[2, 0], [2, 2], [1, 2], [2, 1], [0, 2]], "init": [[2, 0], [2, 2], [1, 2], [2, 1]],
     "demands": [5, 0], "max_iter": 0, "max_nodes": None},
    {"kind": "cs", "solver": "bp", "sizes": [1, 3, 6], "width": 7, "demands": [3, 3, 0], "max_iter": 10, "max_nodes": 60},
    {"kind": "cs", "solver": "bp", "sizes": [7, 7, 1, 3], "width": 7, "demands": [2, 3, 3, 3], "max_iter": 2, "max_nodes": 60},
    {"kind": "cs", "solver": "bp", "sizes": [5, 4, 1], "width": 9, "demands": [0, 3, 4], "max_iter": 1, "max_nodes": 200},
    # the runs of Props/C17_deep2.v's non-vacuity examples
    {"kind": "cs", "solver": "bp", "sizes": [5, 4, 3], "width": 12, "demands": [3, 4, 5], "max_iter": 30, "max_nodes": 20},
    {"kind": "cs", "solver": "bp", "sizes": [6, 5, 4], "width": 11, "demands": [2, 3, 3], "max_iter": 30, "max_nodes": 20},
]


def _adapt(case, rng):
    """Bring a case of C17's own generators into the deep part's range (max_iter <= 30; the rest is already small)."""
    case = dict(case)
    case["solver"] = "bp"
    if case.get("max_iter") is None or case["max_iter"] > 30:
        case["max_iter"] = rng.choice([10, 30])
    case.setdefault("max_nodes", None)
    return case


# ---------------------------------------------------------------------------------- implementation run with tie detection
def run_impl_tree(case):
    import solvor.bp as bp
    from harness.props import C17

    risk = []
    omf, ohp = bp._most_fractional, bp.heappop

    def mf(x_vals, eps):
        fr = [abs(x - round(x)) for x in x_vals if x > eps]
        fr = [f for f in fr if f > eps]
        if fr:
            b = max(fr)
            if any(0 < b - f < TIE_TOL for f in fr):
                risk.append("most_fractional")
        return omf(x_vals, eps)

    def hp(h):
        b = min(e[0] for e in h)
        if any(0 < e[0] - b < TIE_TOL for e in h):
            risk.append("heap")
        return ohp(h)

    bp._most_fractional, bp.heappop = mf, hp
    try:
        out = C17.run_impl(case)
    finally:
        bp._most_fractional, bp.heappop = omf, ohp
    out["tie_risk"] = sorted(set(risk))
    return out


def _work(case):
    from harness.core import use_repo
    from harness.props import C17

    use_repo()
    case = C17.with_opt(dict(case))
    out = run_impl_tree(case)
    return case, out, C17.judge(case, out)


# ---------------------------------------------------------------------------------- Coq terms
def _big_nat(n):
    """nat term without a literal > 5000"""
    if n <= 5000:
        return cnat(n)
    q, r = divmod(n, 1000)
    return f"({cnat(q)} * {cnat(1000)} + {cnat(r)})%nat"


def coq_case(case, out):
    from harness.props import C17

    mn = 10000 if case.get("max_nodes") is None else case["max_nodes"]
    if "fail" in out:
        obs = "TObsInvalid"
    else:
        sol = "None" if out["plan"] is None else f"(Some {C17._plan(out['plan'])})"
        obj = "None" if out["objective"] == "inf" else f"(Some {cz(out['objective'])})"
        obs = f"(TObs {C17.STATUS[out['status']]} {sol} {obj} {cnat(out['iterations'])} {cnat(out['evaluations'])})"
    return f"({C17.coq_input(case)}, {_big_nat(mn)}, {obs})"


def _encodable(out):
    if "fail" in out:
        return out["fail"] == "exc" and out.get("exc") == "ValueError"
    if out["status"] not in ("OPTIMAL", "FEASIBLE", "INFEASIBLE"):
        return False
    if out["plan"] is not None:
        for p, c in out["plan"]:
            if not all(isinstance(a, int) for a in p) or not isinstance(c, int):
                return False
    return isinstance(out["objective"], int) or out["objective"] == "inf"


def _strip(case):
    return {k: v for k, v in case.items() if k not in ("opt", "init_opt")}


# ---------------------------------------------------------------------------------- the part
def run_part(ctx: Ctx):
    if not (COQ / "C17" / "DeepBpTreeCorr.v").exists():
        return
    from harness.props import C17

    rng = ctx.rng
    cases = [_adapt(c, rng) for c in C17._corpus() if c.get("solver") == "bp"]
    cases += [_adapt(c, rng) for c in C17.EDGE_CASES if c["solver"] == "bp"] + [dict(c) for c in DEEP_EDGE_CASES]
    cases += [gen_tree_cs(rng) for _ in range(ctx.budget(500, 5000))]
    cases += [_adapt(C17.gen_cs(rng, "bp"), rng) for _ in range(ctx.budget(150, 1500))]
    cases += [_adapt(C17.gen_custom(rng, "bp"), rng) for _ in range(ctx.budget(350, 3500))]
    results = pmap(_work, cases)

    metas, terms = [], []
    keep_flat = ctx.budget(120, 1200)     # answers given at the root are C17.py's business: a sample of them is enough here
    for case, out, bad in results:
        ctx.evaluations += 1
        if out.get("fail") == "hang":
            ctx.count("hang", "deep/" + case["kind"])
            continue
        if bad:
            small = C17.shrink(case)
            c2, o2, b2 = C17._work(small)
            if not b2:
                c2, o2, b2 = case, out, bad
            ctx.violation(f"solve_bp: {b2}", {"case": _strip(c2), "impl": o2, "exact_minimum": c2.get("opt")})
            continue
        if not _encodable(out):
            ctx.count("not_encodable", "deep/" + case["kind"])
            continue
        nodes = out.get("iterations", 0) if "fail" not in out else 0
        in_tree = nodes >= 1 or out.get("node_calls", 0) >= 2
        if not in_tree:
            if keep_flat <= 0:
                continue
            keep_flat -= 1
        if nodes > MAX_NODES_SEEN or out.get("evaluations", 0) > MAX_EVALS_SEEN:
            ctx.count("deep_too_big", case["kind"])
            continue
        if out.get("tie_risk"):
            ctx.count("deep_tie_skipped", ",".join(out["tie_risk"]))
            continue
        ctx.count("deep_nodes_explored", min(nodes, 50) // 5 * 5 if nodes > 4 else nodes)
        ctx.count("deep_status " + case["kind"], ("tree:" if in_tree else "root:") + out.get("status", "ValueError"))
        if in_tree:
            ctx.nontriv(json.dumps({"deep": _strip(case)}, sort_keys=True))
            ctx.sample({"deep_input": _strip(case), "impl": {k: out.get(k) for k in ("status", "objective", "plan", "iterations", "evaluations")}}, 6)
        metas.append((case, out))
        terms.append(coq_case(case, out))
    if not terms:
        return

    unstable = set(ctx.coq_check("tree_stable", IMPORTS, "tree_case", "stable_tree", terms, shard=40))
    ctx.count("near_threshold", "bp_tree", len(unstable))
    if unstable:
        ctx.notes.append(f"{len(unstable)} bp tree case(s) near a threshold (eps = 0 / 1e-9 / 1e-7 decide differently), e.g. {_strip(metas[min(unstable)][0])}")
    corr = [i for i in ctx.coq_check("tree_corr", IMPORTS, "tree_case", "corr_tree", terms, shard=40) if i not in unstable]
    gate = ctx.coq_check("tree_gate", IMPORTS, "tree_case", "gate_tree", terms, shard=300)
    ctx.traces_validated += len(terms) - len(corr) - len(unstable)
    ctx.count("deep_tree_model_cases", "compared", len(terms))

    ctx.notes[:] = [n for n in ctx.notes if not n.startswith("solve_bp: only the root node")]
    ctx.notes.append(
        "solve_bp: the whole of bp.py is modelled (SV.C17.DeepBpTree: root node, best-first heap on (lp_obj, counter), pruning, incumbent "
        "updates, most-fractional branching, per-node column generation, bounded master LP with column-bound rows, max_nodes, the status rule "
        "against ceil(root LP)); on the deep part's cases the model's full answer (status, ordered plan, objective, nodes explored, cg "
        "iterations) equals the implementation's; skipped and counted: runs where the implementation compared two node LP values / two "
        "fractional parts that differ by less than 1e-7 without being equal (exact-arithmetic ties broken by float noise: "
        "'deep_tie_skipped'), runs with more than "
        f"{MAX_NODES_SEEN} nodes or {MAX_EVALS_SEEN} cg iterations ('deep_too_big'); C17.py's own bp cases keep the root-level tie")
    if ctx.theorems.get("C17_bp_tree_optimal_sound") == "proved" and ctx.theorems.get("C17_bp_tree_gate") == "proved":
        ctx.notes.append(
            "proved of the whole-tree model for every input (Props/C17_deep2.v): every plan returned with OPTIMAL / FEASIBLE passes plan_ok "
            "(C17_bp_tree_gate, any eps in [0,1)); status OPTIMAL, claimed at the root or inside the tree, is the true minimum for eps = 0 and "
            "gap * max(|obj|, 1e-10) <= 1 (C17_bp_tree_optimal_sound, through the root dual vector: C17_master_lp_duals_ok + exact pricing + "
            "weak duality); the objective is never below the minimum (C17_bp_tree_never_below); what stays trusted is that DeepBpTree.v "
            "transcribes bp.py, tested by the per-run correspondence 'tree_corr'")

    if (corr or gate) and not ctx.violations:
        # the tie no longer checks and the oracle saw nothing wrong: look harder for a failing input, then report
        found = False
        extra = []
        for i in (corr + gate)[:10]:
            b = _strip(metas[i][0])
            for mn in (0, 1, 2, 3, 5, 8, 20, 60, None):
                for mi in (0, 1, 2, 3, 10, 30):
                    extra.append({**b, "max_nodes": mn, "max_iter": mi})
            for k in range(len(b["demands"])):
                for dv in (-1, 1):
                    d = list(b["demands"]); d[k] = max(0, min(6, d[k] + dv))
                    extra.append({**b, "demands": d})
        search = extra + [gen_tree_cs(rng) for _ in range(ctx.budget(6000, 30000))]
        for case, out, bad in pmap(_work, search):
            ctx.evaluations += 1
            if bad:
                small = C17.shrink(case)
                c2, o2, b2 = C17._work(small)
                if not b2:
                    c2, o2, b2 = case, out, bad
                ctx.violation(f"solve_bp: {b2}", {"case": _strip(c2), "impl": o2, "exact_minimum": c2.get("opt")})
                found = True
                break
        if not found:
            for i in corr[:1]:
                case, out = metas[i]
                mn = 10000 if case.get("max_nodes") is None else case["max_nodes"]
                model = ctx.coq_eval("tree_show", IMPORTS, f"run_tree eps_default ({C17.coq_input(case)}) {_big_nat(mn)}")
                ctx.violation("correspondence lemma tree_corr: the whole-tree model SV.C17.DeepBpTree and solve_bp differ "
                              "(status / plan / objective / nodes explored / cg iterations)",
                              {"case": _strip(case), "impl": {k: v for k, v in out.items() if k not in ("root_pool", "root_x")},
                               "model": model[-2500:], "lemma": "Cases/C17/tree_corr_*.v corr"}, no_input=True)
            for i in gate[:1]:
                case, out = metas[i]
                ctx.violation("gate lemma tree_gate: the proved boolean gate plan_ok rejects the implementation's plan",
                              {"case": _strip(case), "impl": {k: v for k, v in out.items() if k not in ("root_pool", "root_x")},
                               "lemma": "Cases/C17/tree_gate_*.v corr"}, no_input=True)
