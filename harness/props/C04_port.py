"""Exact (fractions.Fraction) replica of the Gallina model SV.C04.Milp / SV.C03.Simplex, used by C04.py ONLY to
(a) detect fragile cases: a run in which some comparison of the model is an exact tie or within MARGIN of its
    threshold, so that float round-off in the implementation may legitimately take the other branch
    (DESIGN 1.5: such cases are skipped and counted when - and only when - the two sides then disagree), and
(b) debug the model quickly.
It is NOT the oracle of the property (that is the brute-force enumeration in C04.py) and it does not import /repo.
"""
from __future__ import annotations

from fractions import Fraction as F
from math import ceil, floor

MARGIN = F(1, 10**7)
INF = None  # upper bound "float('inf')"


class Frag:
    """collects the reasons why a run is fragile"""

    def __init__(self, track_float=False):
        self.why = []
        self.events = {}            # rare internal events of the run (event-directed generation, evidence histogram)
        self.track_float = track_float
        self.last_float_obj = None

    def ev(self, name):
        self.events[name] = self.events.get(name, 0) + 1

    def near(self, x, thr, what):
        # MARGIN, plus the round-off of doubles at the magnitude of the compared values (2^-45 relative: nothing for small data,
        # ~0.15 at 5e12 where one ulp is already 1e-3 > eps)
        if abs(x - thr) < MARGIN + F(1, 2**45) * max(abs(x), abs(thr)):
            self.why.append(what)

    def tie(self, what):
        self.why.append(what)


# ----------------------------------------------------------------------------- simplex.py, exact
def _pivot(mat, m, r, c, eps):
    pv = mat[r][c]
    if abs(pv) < eps:
        return
    inv = 1 / pv
    mat[r] = [v * inv for v in mat[r]]
    for i in range(m + 1):
        if i != r:
            f = mat[i][c]
            if abs(f) > eps:
                mat[i] = [a - f * p for a, p in zip(mat[i], mat[r])]


def _phase2(mat, basis, m, eps, max_iter, note=None):
    ncols = len(mat[0])
    for it in range(max_iter):
        enter = -1
        bs = set(basis)
        for j in range(ncols - 1):
            if note is not None and j not in bs:
                note(mat[-1][j])
            if j not in bs and mat[-1][j] < -eps:
                enter = j
                break
        if enter == -1:
            return "OPTIMAL", it
        leave, minr = -1, None
        for i in range(m):
            if mat[i][enter] > eps:
                ratio = mat[i][-1] / mat[i][enter]
                if minr is None or ratio < minr - eps:
                    minr, leave = ratio, i
                elif abs(ratio - minr) <= eps:
                    if leave == -1 or basis[i] < basis[leave]:
                        leave = i
        if leave == -1:
            return "UNBOUNDED", it
        _pivot(mat, m, leave, enter, eps)
        basis[leave] = enter
    return "MAX_ITER", max_iter


def solve_lp(c, A, b, minimize, eps, max_iter, num=F, fr=None):
    """-> (status, solution, objective, iterations).  num=F: exact; num=float: the same operations in doubles (used only to
    see where round-off noise appears)"""
    m, n = len(b), len(c)
    w = list(c) if minimize else [-v for v in c]
    mat = []
    for i in range(m):
        # commit 96ecc58: row equilibration (every constraint row and its rhs divided by the row's largest |coefficient|)
        scale = max((abs(num(v)) for v in A[i]), default=num(0)) or num(1)
        mat.append([num(v) / scale for v in A[i]] + [num(1 if k == i else 0) for k in range(m)] + [num(b[i]) / scale])
    wscale = max((abs(num(v)) for v in w), default=num(0)) or num(1)      # commit 39737f0: the objective row is scaled too
    mat.append([num(v) / wscale for v in w] + [num(0)] * (m + 1))
    basis = list(range(n, n + m))
    iters = 0
    if any(mat[i][-1] < -eps for i in range(m)):
        orig = list(mat[-1])
        arts = []
        for i in range(m):
            if mat[i][-1] < -eps:
                mat[i] = [-v for v in mat[i]]
                art = n + m + len(arts)
                for k in range(len(mat)):
                    mat[k].insert(len(mat[k]) - 1, num(0))
                mat[i][-2] = num(1)
                basis[i] = art
                arts.append(art)
        ncols = len(mat[0])
        mat[-1] = [num(0)] * ncols
        for col in arts:
            mat[-1][col] = num(1)
        for i in range(m):
            if basis[i] in arts:
                mat[-1] = [a - p for a, p in zip(mat[-1], mat[i])]
        tolerance = eps * max(1, -mat[-1][-1])          # commit b6b6dd1: relative to the initial total infeasibility
        st, iters = _phase2(mat, basis, m, eps, max_iter)
        if mat[-1][-1] < -tolerance:
            return ("MAX_ITER" if st == "MAX_ITER" else "INFEASIBLE"), [num(0)] * n, None, iters
        for i in range(m):
            if basis[i] in arts:
                for j in range(ncols - 1 - len(arts)):
                    if j not in basis and abs(mat[i][j]) > eps:
                        _pivot(mat, m, i, j, eps)
                        basis[i] = j
                        break
        k = len(arts)
        for r in range(len(mat)):
            mat[r] = mat[r][:len(mat[r]) - 1 - k] + [mat[r][-1]]
        mat[-1] = orig[:]
        ncols = len(mat[0])
        for i in range(m):
            var = basis[i]
            if var < ncols - 1:
                cost = mat[-1][var]
                if abs(cost) > eps:
                    mat[-1] = [a - cost * p for a, p in zip(mat[-1], mat[i])]
        max_iter -= iters
    note = None
    if fr is not None:
        # a reduced cost that is 0 (or within round-off of -eps) in exact arithmetic is noise of size ~ulp(max|c|) in doubles: at
        # large cost magnitudes that noise exceeds eps and the float simplex may pivot on to another optimal vertex
        margin = F(1, 2**40)            # the objective row is scaled to max |w| = 1 (39737f0)

        def note(rc):
            if abs(rc + eps) < margin:
                fr.tie("simplex: reduced cost within double round-off of the entering threshold (cost magnitude)")
    st, it2 = _phase2(mat, basis, m, eps, max(max_iter, 0), note)
    sol = [num(0)] * n
    for i in range(m):
        if basis[i] < n:
            sol[basis[i]] = mat[i][-1]
    obj = sum((num(cj) * xj for cj, xj in zip(c, sol)), num(0))      # commit 0767acf: the objective of the returned point
    return st, sol, obj, iters + it2


# ----------------------------------------------------------------------------- milp.py, exact
def pyround(x):
    return round(x)  # Fraction.__round__ is round-half-even, like float


def frac_dist(x):
    return abs(x - pyround(x))


def dot(a, v):
    return sum((p * q for p, q in zip(a, v)), F(0))


def solve_node(c, A, b, lower, upper, minimize, eps, max_iter, fr):
    n = len(c)
    fixed = {}
    free = []
    for j in range(n):
        lo, hi = lower[j], upper[j]
        if hi is not INF:
            fr.near(hi, lo - eps, "node: hi < lo-eps")
            if hi < lo - eps:
                fr.ev("node_box_empty")
                return "INFEASIBLE", None, None
            fr.near(hi - lo, eps, "node: hi-lo < eps")
        if hi is not INF and hi - lo < eps:
            fixed[j] = lo
        else:
            free.append(j)
    fr.last_float_obj = None
    if not free:
        fr.ev("node_all_fixed")
        sol = [fixed.get(j, F(0)) for j in range(n)]
        obj = sum((c[j] * fixed[j] for j in fixed), F(0))
        for i, row in enumerate(A):
            lhs = dot(row, sol)
            fr.near(lhs, b[i] + eps, "node(all fixed): lhs > b+eps")
            if lhs > b[i] + eps:
                return "INFEASIBLE", None, None
        return "OPTIMAL", sol, obj
    nf = len(free)
    A_red, b_red = [], []
    for i, row in enumerate(A):
        A_red.append([row[j] for j in free])
        b_red.append(b[i] - sum((row[j] * fixed[j] for j in fixed), F(0)))
    for jn, jo in enumerate(free):
        lo, hi = lower[jo], upper[jo]
        fr.near(lo, eps, "node: lo > eps")
        if lo > eps:
            r = [F(0)] * nf
            r[jn] = F(-1)
            A_red.append(r)
            b_red.append(-lo)
        if hi is not INF:
            r = [F(0)] * nf
            r[jn] = F(1)
            A_red.append(r)
            b_red.append(hi)
    c_red = [c[j] for j in free]
    fobj = sum((c[j] * fixed[j] for j in fixed), F(0))
    lp_eps = min(eps, F(1, 10**10))                     # commit cccee4d: solve_lp(..., eps=min(eps, 1e-10))
    st, x, z, _ = solve_lp(c_red, A_red, b_red, minimize, lp_eps, max_iter, fr=fr)
    fr.last_float_obj = None
    if fr.track_float and st == "OPTIMAL":
        stf, _, zf, _ = solve_lp(c_red, A_red, b_red, minimize, float(lp_eps), max_iter, num=float)
        if stf == "OPTIMAL":
            fr.last_float_obj = zf + float(fobj)
    if st == "INFEASIBLE":
        fr.ev("node_lp_infeasible")
    if st == "MAX_ITER":
        fr.ev("node_lp_max_iter")
    if any(lower[j] > eps for j in free):
        fr.ev("lower_bound_row")
    if st != "OPTIMAL":
        return st, None, None
    full = [F(0)] * n
    for j in fixed:
        full[j] = fixed[j]
    for jn, jo in enumerate(free):
        full[jo] = x[jn]
    return "OPTIMAL", full, z + fobj


def most_fractional(sol, ints, eps, fr):
    bv, bf = None, F(0)
    for j in ints:
        f = frac_dist(sol[j])
        fr.near(f, eps, "most_fractional: frac > eps")
        if f > eps:
            if bv is not None and f == bf:
                fr.tie("most_fractional: equal fractional parts")
            elif bv is not None and abs(f - bf) < MARGIN:
                fr.tie("most_fractional: nearly equal fractional parts")
            if f > bf:
                bv, bf = j, f
    return bv


def is_feasible(x, A, b, ints, eps, fr):
    for v in x:
        fr.near(v, -eps, "is_feasible: x < -eps")
    if any(v < -eps for v in x):
        return False
    for j in ints:
        fr.near(frac_dist(x[j]), eps, "is_feasible: integrality")
        if frac_dist(x[j]) > eps:
            return False
    for i, row in enumerate(A):
        lhs = dot(row, x)
        fr.near(lhs, b[i] + eps, "is_feasible: row")
        if lhs > b[i] + eps:
            return False
    return True


def detect_binary(A, b, ints, n, eps, fr):
    bounded = []
    for i, row in enumerate(A):
        fr.near(abs(b[i] - 1), eps, "detect_binary: b")
        if abs(b[i] - 1) > eps:
            continue
        for v in row:
            fr.near(abs(v), eps, "detect_binary: nz")
        nz = [(j, row[j]) for j in range(n) if abs(row[j]) > eps]
        if len(nz) == 1:
            j, coef = nz[0]
            fr.near(abs(coef - 1), eps, "detect_binary: coef")
            if j in ints and abs(coef - 1) < eps and j not in bounded:
                bounded.append(j)
    return len(bounded) == len(ints) and len(ints) > 0


def rows_ok(sol, A, b, eps, fr):
    for i, row in enumerate(A):
        lhs = dot(row, sol)
        fr.near(lhs, b[i] + eps, "round_binary: row")
        if lhs > b[i] + eps:
            return False
    return True


HALF = F(1, 2)


def round_binary(lpsol, ints, c, A, b, minimize, eps, fr):
    """-> ('ok', sol | None) ; ('fuel',) never happens (see the model)"""
    sol = list(lpsol)
    sign = 1 if minimize else -1
    cands = [(sign * c[j], lpsol[j], j) for j in ints if frac_dist(lpsol[j]) > eps]
    for j in ints:
        fr.near(frac_dist(lpsol[j]), eps, "round_binary: candidate")
    for a in cands:
        for bb in cands:
            if a[2] < bb[2] and a[0] == bb[0] and abs(a[1] - bb[1]) < MARGIN:
                fr.tie("round_binary: candidates with equal cost and value")
    cands.sort()
    for _, val, j in cands:
        if frac_dist(val) > HALF - MARGIN:
            fr.tie("round_binary: round() of a half")
        r = pyround(val)
        sol[j] = F(r)
        if not rows_ok(sol, A, b, eps, fr):
            sol[j] = 1 - F(r)
            if not rows_ok(sol, A, b, eps, fr):
                return None
    if not is_feasible(sol, A, b, ints, eps, fr):
        return None
    improved = True
    while improved:
        improved = False
        for j in ints:
            fr.near(sol[j], HALF, "round_binary: flip candidate")
        fc = sorted((sign * c[j], j) for j in ints if (minimize and sol[j] > HALF) or (not minimize and sol[j] < HALF))
        for _, j in fc:
            old = sol[j]
            sol[j] = 1 - old
            if is_feasible(sol, A, b, ints, eps, fr):
                improved = True
            else:
                sol[j] = old
    improved = True
    while improved:
        improved = False
        zeros = [j for j in ints if sol[j] < HALF]
        ones = [j for j in ints if sol[j] > HALF]
        best_gain, best_swap = F(0), None
        for j_on in zeros:
            gain_on = -sign * c[j_on]
            for j_off in ones:
                net = gain_on + sign * c[j_off]
                if net > best_gain:
                    old_on, old_off = sol[j_on], sol[j_off]
                    sol[j_on], sol[j_off] = F(1), F(0)
                    if is_feasible(sol, A, b, ints, eps, fr):
                        best_gain, best_swap = net, (j_on, j_off)
                    sol[j_on], sol[j_off] = old_on, old_off
        if best_swap:
            sol[best_swap[0]], sol[best_swap[1]] = F(1), F(0)
            improved = True
    return sol


def solve_milp(c, A, b, ints, minimize=True, eps=F(1, 10**6), max_iter=10000, max_nodes=100000, gap_tol=F(1, 10**6),
               warm_start=None, solution_limit=1, heuristics=True, lns_iterations=0, lns_answer=None, track_float=False):
    """-> (result dict, Frag).  `ints` sorted, duplicate-free.  `lns_answer`: what _lns_improve returned (or None)."""
    fr = Frag(track_float)
    eps = F(eps)
    c = [F(v) for v in c]
    A = [[F(v) for v in r] for r in A]
    b = [F(v) for v in b]
    n = len(c)
    sign = 1 if minimize else -1

    def res(status, sol, obj, nodes, sols=None):
        return {"status": status, "solution": sol, "objective": obj, "nodes": nodes, "solutions": sols}

    worst = "inf" if minimize else "-inf"
    st, rsol, robj = solve_node(c, A, b, [F(0)] * n, [INF] * n, minimize, eps, max_iter, fr)
    if st == "INFEASIBLE":
        return res("INFEASIBLE", None, worst, 0), fr
    if st == "UNBOUNDED":
        return res("UNBOUNDED", None, "-inf" if minimize else "inf", 0), fr
    if st == "MAX_ITER":
        return res("MAX_ITER", None, worst, 0), fr
    best = None  # (sol, obj)
    allsol = []
    if warm_start is not None:
        ws = [F(v) for v in warm_start]
        if len(ws) == n and is_feasible(ws, A, b, ints, eps, fr):
            best = (ws, dot(c, ws))
            allsol.append(ws)
            fr.ev("warm_accepted")
        else:
            fr.ev("warm_rejected")
    fv = most_fractional(rsol, ints, eps, fr)
    if fv is None:
        fr.ev("root_integral")
        return res("OPTIMAL", rsol, robj, 1), fr
    for j in ints:
        fr.near(rsol[j], -eps, "looks_binary lo")
        fr.near(rsol[j], 1 + eps, "looks_binary hi")
    looks = all(-eps <= rsol[j] <= 1 + eps for j in ints)
    lower, upper = [F(0)] * n, [INF] * n
    if looks:
        fr.ev("looks_binary")
    if looks and detect_binary(A, b, ints, n, eps, fr):
        fr.ev("tighten_binary")
        for j in ints:
            upper[j] = F(1)
    if heuristics and looks and best is None:
        rd = round_binary(rsol, ints, c, A, b, minimize, eps, fr)
        fr.ev("rounded_accepted" if rd is not None else "rounded_none")
        if rd is not None:
            best = (rd, dot(c, rd))
            allsol.append(rd)
    if heuristics and looks and lns_iterations > 0 and best is not None:
        imp = lns_answer
        if imp is not None:
            imp = [F(v) for v in imp]
            io = dot(c, imp)
            if io == best[1] and imp != best[0]:
                fr.tie("lns: equal objective, different point")
            elif io != best[1]:
                fr.near(io, best[1], "lns: objective comparison")
            if (minimize and io < best[1]) or (not minimize and io > best[1]):
                fr.ev("lns_improved")
                best = (imp, io)
                for s in allsol:
                    if s != imp and all(abs(p - q) < MARGIN for p, q in zip(s, imp)):
                        fr.tie("lns: nearly equal solutions")
                if imp not in allsol:
                    allsol.append(imp)
    rb = sign * robj
    tree = [(rb, 0, (lower, upper, 0, -1))]
    counter = 1
    nodes = 0
    hit = False
    nid = 0
    pending_tags = []
    noisy_nodes = []

    def fin(result):
        # the final objective equals the (integer) LP value of a branched node whose double-precision value carries noise
        for tag, v in noisy_nodes:
            if result["objective"] == v:
                fr.ev(tag + "_attained")
        return result, fr

    while tree and nodes < max_nodes:
        nb, _, (lo, up, depth, parent) = tree.pop(0)
        if best is not None:
            fr.near(nb, sign * best[1] - eps, "prune 1")
            if nb >= sign * best[1] - eps:
                fr.ev("prune1_bound_equals_incumbent" if nb == sign * best[1] else "prune1")
                continue
        st, sol, obj = solve_node(c, A, b, lo, up, minimize, eps, max_iter, fr)
        nodes += 1
        nid += 1
        if st != "OPTIMAL":
            hit = hit or st == "MAX_ITER"
            continue
        fobj_float = fr.last_float_obj
        if fobj_float is not None and obj.denominator == 1 and fobj_float != float(obj):
            # the exact LP value is an integer, the same pivots in doubles give a neighbour of it
            noise_up = sign * fobj_float > sign * float(obj)
            fr.ev("int_lp_value_float_noise_" + ("up" if noise_up else "down") + ("_max" if not minimize else "_min"))
        if best is not None:
            fr.near(sign * obj, sign * best[1] - eps, "prune 2")
            if sign * obj >= sign * best[1] - eps:
                fr.ev("prune2_bound_equals_incumbent" if obj == best[1] else "prune2")
                continue
        fv = most_fractional(sol, ints, eps, fr)
        if fv is None:
            if solution_limit > 1:
                for s in allsol:
                    if all(abs(p - q) < MARGIN for p, q in zip(s, sol)):
                        fr.tie("solutions: (nearly) equal entries" if s != sol else "solutions: equal entries")
            if solution_limit > 1 and sol not in allsol:
                allsol.append(sol)
                if len(allsol) >= solution_limit:
                    fr.ev("solution_limit_exit")
                    bs, bo = (best if (best is not None and len(best[0]) > 0) else (sol, obj))
                    return res("FEASIBLE", bs, bo, nodes, list(allsol)), fr
            if best is None or sign * obj < sign * best[1]:
                fr.ev("incumbent_from_tree" if best is None else "incumbent_improved")
                for tag in pending_tags:
                    fr.ev(tag + "_then_improved")            # an incumbent found in that special situation was not the final one
                pending_tags = []
                best = (sol, obj)
                bound = sign * nb
                if obj != 0 and obj == -bound:
                    fr.ev("incumbent_equals_minus_bound" + ("_max" if not minimize else "_min"))
                    pending_tags.append("incumbent_equals_minus_bound" + ("_max" if not minimize else "_min"))
                if obj == bound and tree:
                    fr.ev("incumbent_equals_bound_open_nodes")
                    pending_tags.append("incumbent_equals_bound_open_nodes")
                if obj * bound < 0:
                    fr.ev("incumbent_and_bound_opposite_signs" + ("_max" if not minimize else "_min"))
                if obj == 0 or bound == 0:
                    fr.ev("incumbent_or_bound_zero")
                if abs(obj) < F(1, 10**10):
                    gap = abs(obj - bound)
                else:
                    gap = abs(obj - bound) / abs(obj)
                fr.near(abs(obj), F(1, 10**10), "gap: |best| < 1e-10")
                fr.near(gap, gap_tol, "gap < gap_tol")
                if gap < gap_tol and solution_limit == 1 and not hit:
                    fr.ev("gap_exit_open_nodes" if tree else "gap_exit_tree_empty")
                    return fin(res("OPTIMAL", sol, obj, nodes))
            continue
        val = sol[fv]
        cb = sign * obj
        fr.ev("branch")
        if fobj_float is not None and obj.denominator == 1 and fobj_float != float(obj):
            tag = "frac_node_int_value_noise_" + ("up" if sign * fobj_float > sign * float(obj) else "down") + ("_max" if not minimize else "_min")
            fr.ev(tag)
            noisy_nodes.append((tag, obj))
        if obj.denominator == 1:
            fr.ev("int_lp_value_fractional_point" + ("" if all(v.denominator & (v.denominator - 1) == 0 for v in sol) else "_nondyadic"))
        if val > 1:
            fr.ev("branch_value_above_1")
        for (kb, kc, kn) in tree:
            if kn[3] != nid and abs(kb - cb) < MARGIN:
                fr.tie("heap: equal bounds from different parents")
        for child in (0, 1):
            l2, u2 = list(lo), list(up)
            if child == 0:
                u2[fv] = F(floor(val))
            else:
                l2[fv] = F(ceil(val))
            k = 0
            while k < len(tree) and tree[k][0] <= cb:
                k += 1
            tree.insert(k, (cb, counter, (l2, u2, depth + 1, nid)))
            counter += 1
    if tree:
        fr.ev("node_limit_open_nodes")
    if hit:
        fr.ev("lp_limit_hit")
    if best is None:
        return res("MAX_ITER" if (hit or tree) else "INFEASIBLE", None, worst, nodes), fr
    status = "OPTIMAL" if not tree and not hit else "FEASIBLE"
    sols = list(allsol) if solution_limit > 1 and allsol else None
    return fin(res(status, best[0], best[1], nodes, sols))
