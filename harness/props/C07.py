"""C07 - exact cover (solvor/dlx.py: solve_exact_cover).

Tie to /repo: random 0/1 matrices with all option combinations are run on solvor.dlx.solve_exact_cover
(working tree); the same inputs are evaluated by the Gallina model SV.C07.Dlx.solve inside coqc
(vm_compute) and the FULL result is compared: shape of `solution`, ordered list of selections, objective,
`iterations`, `evaluations` (= covers) and status (or the IndexError raised by _build_links).
Independently (a) a Python subset enumeration judges the implementation's outputs against the property
itself and (b) the Coq boolean `spec_check` (proved sound for the Spec in DlxSpec.v) is evaluated on the
implementation's outputs.

Round-2 families (harness/props/C07_hard.py, see /verif/HARDENING.md): label pools for column names (a case stores JSON
label DESCRIPTORS; `materialize` builds fresh Python objects, containers and aliasing per call as `case["dress"]`
says; the model sees nat ids assigned by Python's own ==/hash), container types, magnitudes, option sweeps, call
sequences on shared objects, by-construction large instances (never sent to vm_compute) and event-directed cases.  Round 3: W work-volume instances per internal loop (counts by construction, maxima in
coverage.work_max_per_loop), A2 in-place edits between calls, X finite float entries / names / limits (the model gets the integer
that decides the same comparisons, see eff_limit; fractional limits are judged on the limit-independent clauses).  Non-finite /
overflowing floats and duplicate column names are OBSERVATION-ONLY (observation_only(), /root/seed3/POLICY_X.md).
"""
import copy
import itertools
import json
import math

from harness.core import COQ, VERIF, Ctx, cbool, clist, cnat, copt, cz, guarded

ID = "C07"
ANCHORS = ["solvor/dlx.py"]
DEFAULT_MAX_ITER = 10_000_000


# ---------------------------------------------------------------- generators
def _names(rng, nc):
    r = rng.random()
    if r < 0.55:
        return None
    if r < 0.6:
        return []  # falsy -> default names
    pool = ["a", "b", "c", "d", "e", "f", "g", "h", "i", "j"]
    rng.shuffle(pool)
    names = pool[:nc]
    if nc >= 2 and rng.random() < 0.08:  # duplicate names: both columns primary or both secondary
        names[rng.randrange(nc)] = names[rng.randrange(nc)]
    return names


def _secondary(rng, names, nc):
    eff = list(names) if names else list(range(nc))
    r = rng.random()
    if r < 0.35:
        return None
    if r < 0.42:
        return []
    if r < 0.55 and eff:
        sec = list(eff)  # all secondary
    else:
        sec = [n for n in eff if rng.random() < rng.choice([0.2, 0.4, 0.7])]
    if rng.random() < 0.1:
        sec.append("zz" if names else nc + 3)  # a name that is no column: ignored by the code
    rng.shuffle(sec)
    return sec


def gen_matrix(rng, big=False):
    nr = rng.choice([0, 1, 2, 3, 3, 4, 4, 5, 5, 6, 6, 7] + ([8, 9, 10] if big else []))
    nc = rng.choice([0, 1, 2, 3, 3, 4, 4, 4, 5, 5, 5, 6, 6] + ([7, 8] if big else []))
    kind = rng.random()
    m = []
    if kind < 0.55 and nr and nc:
        # planted covers: a few partitions of the columns into blocks, plus noise rows
        while len(m) < nr:
            cols = list(range(nc))
            rng.shuffle(cols)
            k = rng.randint(1, max(1, min(nc, 3)))
            cuts = sorted(rng.sample(range(1, nc), min(k - 1, nc - 1))) if nc > 1 else []
            blocks = [cols[a:b] for a, b in zip([0] + cuts, cuts + [nc])]
            for b in blocks:
                if len(m) < nr:
                    if rng.random() < 0.15 and len(b) > 1:
                        b = b[:-1]
                    m.append([1 if c in b else 0 for c in range(nc)])
            if rng.random() < 0.5 and len(m) < nr:
                d = rng.choice([0.2, 0.4])
                m.append([1 if rng.random() < d else 0 for _ in range(nc)])
        rng.shuffle(m)
    else:
        d = rng.choice([0.15, 0.3, 0.45, 0.6, 0.85])
        m = [[1 if rng.random() < d else 0 for _ in range(nc)] for _ in range(nr)]
    # named edge cases
    if m and rng.random() < 0.25:
        m[rng.randrange(len(m))] = [0] * nc  # empty row
    if len(m) >= 2 and rng.random() < 0.3:
        m[rng.randrange(len(m))] = list(m[rng.randrange(len(m))])  # duplicate row
    if m and nc and rng.random() < 0.15:
        c = rng.randrange(nc)
        for row in m:
            row[c] = 0  # empty column
    if m and nc and rng.random() < 0.1:  # other truthy / falsy values
        for row in m:
            for c in range(nc):
                if rng.random() < 0.3:
                    row[c] = rng.choice([2, -1, True]) if row[c] else rng.choice([False, 0])
    return m, nc


def gen_case(rng, big=False):
    m, nc = gen_matrix(rng, big)
    names = _names(rng, nc)
    sec = _secondary(rng, names, nc)
    r = rng.random()
    if m and nc and r < 0.03:  # ragged: short rows are read as zeros
        i = rng.randrange(1, len(m)) if len(m) > 1 else 0
        if i:
            m[i] = m[i][: rng.randrange(nc)]
    elif m and nc and r < 0.05:  # malformed: a row longer than row 0 -> IndexError if the extra entry is truthy
        m[rng.randrange(len(m))].append(rng.choice([0, 1, 1]))
    elif m and nc and names and r < 0.08:  # malformed: wrong number of names
        names = names[:-1] if rng.random() < 0.5 else names + ["q"]
    return {
        "matrix": m,
        "columns": names,
        "secondary": sec,
        "find_all": rng.random() < 0.7,
        "max_solutions": rng.choice([None, None, None, None, None, 1, 2, 2, 5, 0, -1]),
        "max_iter": rng.choice([None, None, None, None, None, None, None, 0, 1, 3, 10, 10, 25, -2]),
    }


EDGE_CASES = [
    {"matrix": [], "columns": None, "secondary": None, "find_all": False, "max_solutions": None, "max_iter": None},
    {"matrix": [[0]], "columns": None, "secondary": None, "find_all": True, "max_solutions": None, "max_iter": None},
    {"matrix": [[1]], "columns": None, "secondary": [0], "find_all": True, "max_solutions": None, "max_iter": None},
    {"matrix": [[1]], "columns": None, "secondary": [0], "find_all": False, "max_solutions": None, "max_iter": None},
    {"matrix": [[1, 0], [0, 1], [1, 1]], "columns": None, "secondary": None, "find_all": True, "max_solutions": None, "max_iter": None},
    {"matrix": [[1, 0], [0, 1], [1, 1]], "columns": None, "secondary": None, "find_all": True, "max_solutions": 1, "max_iter": None},
    {"matrix": [[1, 0], [0, 1], [1, 1]], "columns": None, "secondary": None, "find_all": True, "max_solutions": None, "max_iter": 3},
    {"matrix": [[1, 0], [0, 1], [1, 1]], "columns": None, "secondary": None, "find_all": True, "max_solutions": None, "max_iter": 2},
    {"matrix": [[1, 0], [0, 1], [1, 1]], "columns": None, "secondary": None, "find_all": False, "max_solutions": None, "max_iter": 0},
    {"matrix": [[1, 0], [1, 0], [0, 1], [0, 1]], "columns": ["x", "y"], "secondary": None, "find_all": True, "max_solutions": None, "max_iter": None},
    {"matrix": [[1, 0, 1], [0, 1, 1], [0, 1, 0], [0, 0, 1]], "columns": ["x", "y", "z"], "secondary": ["z"], "find_all": True, "max_solutions": None, "max_iter": None},
    # the docstring example: 2x3 board, 3 dominoes
    {"matrix": [[1, 1, 0, 0, 0, 0], [0, 1, 1, 0, 0, 0], [0, 0, 0, 1, 1, 0], [0, 0, 0, 0, 1, 1], [1, 0, 0, 1, 0, 0], [0, 1, 0, 0, 1, 0], [0, 0, 1, 0, 0, 1]],
     "columns": None, "secondary": None, "find_all": True, "max_solutions": None, "max_iter": None},
    # Knuth's example
    {"matrix": [[0, 0, 1, 0, 1, 1, 0], [1, 0, 0, 1, 0, 0, 1], [0, 1, 1, 0, 0, 1, 0], [1, 0, 0, 1, 0, 0, 0], [0, 1, 0, 0, 0, 0, 1], [0, 0, 0, 1, 1, 0, 1]],
     "columns": None, "secondary": None, "find_all": True, "max_solutions": None, "max_iter": None},
]


# ---------------------------------------------------------------- implementation run
def mk_label(d):
    """Label descriptor (JSON-able) -> a FRESH Python object at call time: ints and strings are rebuilt so that equal
    labels in `columns` and `secondary` are not identical objects; lists become tuples, {"fs": [...]} frozensets."""
    if d is None or isinstance(d, bool):
        return d
    if isinstance(d, int):
        return int(str(d))
    if isinstance(d, float):
        return float(repr(d))
    if isinstance(d, str):
        return "".join(list(d))
    if isinstance(d, (list, tuple)):
        return tuple(mk_label(x) for x in d)
    if isinstance(d, dict) and "fs" in d:
        return frozenset(mk_label(x) for x in d["fs"])
    raise ValueError(f"bad label descriptor {d!r}")


def labels(case):
    """(column names or None, secondary names or None) as Python objects."""
    cols = None if case["columns"] is None else [mk_label(d) for d in case["columns"]]
    sec = None if case["secondary"] is None else [mk_label(d) for d in case["secondary"]]
    return cols, sec


def materialize(case):
    """The actual positional/keyword objects of the call: (matrix, columns, secondary), dressed as case['dress'] says
    (container types, aliasing).  A dress that does not fit the data falls back to plain lists."""
    dress = case.get("dress") or {}
    rows = [list(r) for r in case["matrix"]]
    byteable = all(isinstance(v, int) and not isinstance(v, bool) and 0 <= v <= 255 for r in rows for v in r)
    mk = dress.get("matrix", "list")
    if mk == "tuple":
        M = tuple(tuple(r) for r in rows)
    elif mk == "tuple_rows":
        M = [tuple(r) for r in rows]
    elif mk == "bytes_rows" and byteable:
        M = [bytes(r) for r in rows]
    elif mk == "bytearray_rows" and byteable:
        M = tuple(bytearray(r) for r in rows)
    elif mk == "range_rows" and all(r == list(range(len(r))) for r in rows):
        M = [range(len(r)) for r in rows]
    elif mk == "alias_rows":  # equal rows are ONE shared list object
        seen = {}
        M = [seen.setdefault(repr(r), r) for r in rows]
    else:
        M = rows
    cols, sec = labels(case)

    def consecutive(xs):
        return bool(xs) and all(isinstance(x, int) and not isinstance(x, bool) for x in xs) and list(xs) == list(range(xs[0], xs[0] + len(xs)))

    ck, sk = dress.get("columns", "list"), dress.get("secondary", "list")
    if cols is not None:
        if ck == "tuple":
            cols = tuple(cols)
        elif ck == "range" and (consecutive(cols) or not cols):
            cols = range(cols[0], cols[0] + len(cols)) if cols else range(0)
    if sec is not None:
        if sk == "same_as_columns" and cols is not None and list(sec) == list(cols):
            sec = cols  # the very same object
        elif sk == "tuple":
            sec = tuple(sec)
        elif sk == "range" and consecutive(sec):
            sec = range(sec[0], sec[0] + len(sec))
        elif sk == "str" and sec and all(isinstance(x, str) and len(x) == 1 for x in sec):
            sec = "".join(sec)
    return M, cols, sec


def _extreme(v):
    return isinstance(v, float) and (v != v or v in (math.inf, -math.inf) or abs(v) >= 1e300)


def observation_only(case):
    """Inputs outside the property (/root/seed3/POLICY_X.md): non-finite or overflowing float data / names / limits, and two
    columns carrying the same (equal) name.  Such calls are run and counted, never judged, never sent to the model."""
    def walk(d):
        if isinstance(d, (list, tuple)):
            return any(walk(x) for x in d)
        if isinstance(d, dict):
            return any(walk(x) for x in d.values())
        return _extreme(d)

    if any(_extreme(v) for r in case["matrix"] for v in r):
        return "non-finite or overflowing float entry"
    if _extreme(case["max_solutions"]) or _extreme(case["max_iter"]):
        return "non-finite or overflowing float limit"
    if walk(case["columns"] or []) or walk(case["secondary"] or []):
        return "non-finite or overflowing float name"
    if case["columns"]:
        cols, _ = labels(case)
        if len(set(cols)) != len(cols):
            return "two columns with the same name"
    return None


def options(case):
    kw = {"find_all": case["find_all"], "max_solutions": case["max_solutions"]}
    if case["max_iter"] is not None:
        kw["max_iter"] = case["max_iter"]
    return kw


def call_args(args, kw):
    from solvor.dlx import solve_exact_cover

    return solve_exact_cover(args[0], columns=args[1], secondary=args[2], **kw)


def call_impl(case):
    return call_args(materialize(case), options(case))


def same_args(a, b):
    return a == b and repr(a[0]) == repr(b[0]) and type(a[1]) is type(b[1]) and type(a[2]) is type(b[2])


def canon_result(res):
    """guarded() outcome -> canonical observable (JSON-able)."""
    if res[0] == "hang":
        return {"kind": "hang"}
    if res[0] == "exc":
        return {"kind": "IndexError"} if res[1] == "IndexError" else {"kind": "exc", "type": res[1], "msg": res[2]}
    r = res[1]
    sol = r.solution
    if sol is None:
        shape, sels = "none", []
    elif isinstance(sol, list):
        shape, sels = "many", [list(s) for s in sol]
    elif isinstance(sol, tuple):
        shape, sels = "one", [list(sol)]
    else:
        return {"kind": "exc", "type": "bad-solution-type", "msg": repr(sol)[:80]}
    ok_ints = all(isinstance(x, int) and not isinstance(x, bool) and x >= 0 for s in sels for x in s)
    if not ok_ints or not isinstance(r.objective, int) or not isinstance(r.iterations, int) or not isinstance(r.evaluations, int):
        return {"kind": "exc", "type": "bad-field-type", "msg": repr((sol, r.objective, r.iterations, r.evaluations))[:120]}
    return {"kind": "done", "shape": shape, "sels": sels, "objective": r.objective, "iterations": r.iterations,
            "evaluations": r.evaluations, "status": r.status.name}


def run_impl(case, timeout=5):
    """Run twice on freshly built argument objects; report mutation of the caller's objects and non-determinism."""
    args = materialize(case)
    snap = copy.deepcopy(args)
    out1 = canon_result(guarded(call_args, args, options(case), timeout=timeout))
    mutated = not same_args(args, snap)
    out2 = canon_result(guarded(call_args, materialize(case), options(case), timeout=timeout))
    return out1, mutated, out1 != out2


# ---------------------------------------------------------------- independent oracle (the property itself)
def reading(case):
    """The property's reading of an input: (cell, n_rows, primary column indices, secondary column indices),
    or None when the call is malformed (wrong number of names / a truthy entry beyond the named columns)."""
    m = case["matrix"]
    nc = len(m[0]) if m else 0
    cols, sec_l = labels(case)
    names = list(cols) if cols else list(range(nc))
    if len(names) != nc:
        return None
    for row in m:
        if any(v for v in row[nc:]):
            return None
    secset = set(sec_l or [])
    prim = [i for i in range(nc) if names[i] not in secset]
    sec = [i for i in range(nc) if names[i] in secset]

    def cell(r, c):
        return r < len(m) and c < len(m[r]) and bool(m[r][c])

    return cell, len(m), prim, sec


def is_exact_cover(rd, sel):
    cell, nr, prim, sec = rd
    if len(set(sel)) != len(sel):
        return "a row is selected twice"
    for r in sel:
        if not (0 <= r < nr):
            return f"row {r} does not exist"
        if not any(cell(r, c) for c in prim):
            return f"selected row {r} covers no primary column"
    for c in prim:
        k = sum(1 for r in sel if cell(r, c))
        if k != 1:
            return f"primary column {c} covered {k} times"
    for c in sec:
        k = sum(1 for r in sel if cell(r, c))
        if k > 1:
            return f"secondary column {c} covered {k} times"
    return None


def all_covers(rd):
    cell, nr, prim, sec = rd
    useful = [r for r in range(nr) if any(cell(r, c) for c in prim)]
    out = set()
    for k in range(len(useful) + 1):
        for sub in itertools.combinations(useful, k):
            if is_exact_cover(rd, sub) is None:
                out.add(frozenset(sub))
    return out


BIGZ = 2**200


def eff_limit(x, kind):
    """A numeric limit as the integer that decides the same comparisons with a non-negative int counter
    (`iterations > max_iter`, `max_solutions and len(solutions) >= max_solutions`), and whether that reading is the plain one
    (ints, integral floats, +-inf) or an interpretation of a NaN / fractional value (then the oracle does not rely on it)."""
    if x is None or (isinstance(x, int) and not isinstance(x, bool)):
        return x, True
    if isinstance(x, bool):
        return int(x), True
    if x != x:  # NaN: every comparison is False -> never cut / never hit (and NaN is truthy)
        return BIGZ, False
    if x in (math.inf, -math.inf):
        return (BIGZ if x > 0 else -BIGZ), True
    if x == int(x):
        return int(x), True
    if kind == "mi":
        return math.floor(x), False
    return (math.ceil(x) if x > 0 else math.floor(x)), False


class _Cap(Exception):
    pass


def ref_covers(rd, cap=150000):
    """Naive reference for instances too tall for subset enumeration: branch on the rows of one uncovered primary
    column (sets of columns, no links, no sizes).  Returns the set of covers, or None beyond `cap` nodes / depth."""
    cell, nr, prim, sec = rd
    allc = prim + sec
    primset = frozenset(prim)
    rows = {}
    for r in range(nr):
        cs = frozenset(c for c in allc if cell(r, c))
        if cs & primset:
            rows[r] = cs
    by_col = {c: [r for r, cs in rows.items() if c in cs] for c in prim}
    out = set()
    nodes = [0]

    def rec(need, used, chosen):
        nodes[0] += 1
        if nodes[0] > cap or len(chosen) > 400:
            raise _Cap()
        if not need:
            out.add(frozenset(chosen))
            return
        best = None
        for c in need:
            cands = [r for r in by_col[c] if rows[r].isdisjoint(used)]
            if best is None or len(cands) < len(best):
                best = cands
                if not cands:
                    return
        for r in best:
            rec(need - rows[r], used | rows[r], chosen + [r])

    try:
        rec(primset, frozenset(), [])
    except _Cap:
        return None
    return out


def oracle(case, out, mutated, nondet):
    """None if the output obeys the property, else (kind, description)."""
    if mutated:
        return ("mutated", "the input objects were modified by the call")
    if nondet:
        return ("nondeterministic", "the same input gave two different results")
    rd = reading(case)
    if rd is None:
        # malformed call: only the documented behaviour "IndexError or some result" is accepted; no property claim
        return None if out["kind"] in ("done", "IndexError") else ("crash", f"malformed call: {out}")
    if out["kind"] != "done":
        return ("crash", f"implementation did not return: {out}")
    # all exact covers: subset enumeration up to 12 rows, beyond that an independent set-based branching reference
    # (None when even that is too large: then only the per-selection clauses are judged)
    covers = all_covers(rd) if rd[1] <= 12 else ref_covers(rd)
    fa = case["find_all"]
    ms, ms_plain = eff_limit(case["max_solutions"], "ms")
    mi, mi_plain = eff_limit(case["max_iter"], "mi")
    plain = ms_plain and mi_plain
    mi_eff = DEFAULT_MAX_ITER if mi is None else mi
    st, sels, shape = out["status"], out["sels"], out["shape"]
    # 1. every selection is an exact cover
    for s in sels:
        bad = is_exact_cover(rd, s)
        if bad:
            return ("unsound", f"selection {s}: {bad}")
    fs = [frozenset(s) for s in sels]
    if len(set(fs)) != len(fs):
        return ("duplicate", f"a cover is listed twice: {sels}")
    # 2. shape of `solution`
    if shape == "none" and st not in ("INFEASIBLE", "MAX_ITER"):
        return ("status", f"solution None with status {st}")
    if shape != "none" and st == "INFEASIBLE":
        return ("status", "INFEASIBLE with a solution")
    if fa and shape == "one":
        return ("find_all_shape", f"find_all=True returned the single selection {tuple(sels[0])} instead of a list of selections")
    if not fa and shape == "many":
        return ("find_all_shape", "find_all=False returned a list of selections")
    if st not in ("OPTIMAL", "FEASIBLE", "INFEASIBLE", "MAX_ITER"):
        return ("status", f"unexpected status {st}")
    if not plain:
        # NaN / fractional limits: the call returned, so the answer must obey the limit-independent clauses
        if covers is not None:
            if st == "INFEASIBLE" and covers:
                return ("infeasible_iff", f"status INFEASIBLE but {len(covers)} exact cover(s) exist")
            if st == "OPTIMAL" and fa and set(fs) != covers:
                return ("incomplete", f"find_all reported OPTIMAL with {len(fs)} of {len(covers)} covers")
        if st in ("OPTIMAL", "FEASIBLE") and not sels:
            return ("status", f"{st} without a selection")
        if out["objective"] != (len(sels) if fa else (len(sels[0]) if sels else 0)):
            return ("objective", f"objective {out['objective']} does not match the solution")
        return None
    # 3. the iteration limit is reported as such, and only then
    #    (iterations == 0: the early return for an empty matrix, no search ran, no limit to report)
    if (st == "MAX_ITER") != (out["iterations"] > mi_eff and out["iterations"] >= 1):
        return ("status", f"status {st} with iterations={out['iterations']} max_iter={mi_eff}")
    if st == "MAX_ITER":
        return None  # cut by max_iter: nothing more is promised (selections were checked above)
    if covers is None:
        return None
    # 4. INFEASIBLE exactly when no cover exists
    if (st == "INFEASIBLE") != (not covers):
        return ("infeasible_iff", f"status {st} but {len(covers)} exact cover(s) exist")
    if st == "INFEASIBLE":
        return None
    # 5. completeness
    if fa:
        cut = bool(ms) and len(covers) >= ms
        if not cut:
            if set(fs) != covers:
                return ("incomplete", f"find_all returned {len(fs)} of {len(covers)} covers; missing {sorted(map(sorted, covers - set(fs)))[:3]}")
            if st != "OPTIMAL":
                return ("status", f"complete enumeration reported as {st}")
        else:
            want = 1 if ms < 0 else ms
            if len(fs) != want:
                return ("max_solutions", f"max_solutions={ms}: {len(fs)} selections returned, {len(covers)} exist")
            if st != "FEASIBLE" and not (st == "OPTIMAL" and set(fs) == covers):
                return ("status", f"enumeration cut by max_solutions (covers are missing) reported as {st}")
        if out["objective"] != len(sels):
            return ("objective", f"objective {out['objective']} != number of selections {len(sels)}")
    else:
        if len(sels) != 1 or st != "OPTIMAL":
            return ("status", f"find_all=False: {len(sels)} selection(s), status {st}")
        if out["objective"] != len(sels[0]):
            return ("objective", f"objective {out['objective']} != size of the selection {len(sels[0])}")
    return None


def shrink(case, kind):
    """Greedy: drop rows / columns / options while the oracle still fails in the same way."""
    def fails(c):
        out, mut, nd = run_impl(c)
        bad = oracle(c, out, mut, nd)
        return bad is not None and bad[0] == kind

    cur = copy.deepcopy(case)
    changed = True
    while changed:
        changed = False
        for i in range(len(cur["matrix"])):
            c = copy.deepcopy(cur)
            del c["matrix"][i]
            if fails(c):
                cur, changed = c, True
                break
        if changed:
            continue
        nc = len(cur["matrix"][0]) if cur["matrix"] else 0
        for j in range(nc):
            c = copy.deepcopy(cur)
            if any(len(r) != nc for r in c["matrix"]):
                break
            for r in c["matrix"]:
                del r[j]
            if c["columns"]:
                if len(c["columns"]) != nc:
                    break
                del c["columns"][j]
            elif c["secondary"]:
                c["secondary"] = [s - 1 if isinstance(s, int) and s > j else s for s in c["secondary"] if s != j]
            if fails(c):
                cur, changed = c, True
                break
        if changed:
            continue
        for i in range(len(cur["secondary"] or [])):
            c = copy.deepcopy(cur)
            del c["secondary"][i]
            if fails(c):
                cur, changed = c, True
                break
        if changed:
            continue
        for key, val in (("dress", None), ("max_iter", None), ("max_solutions", None), ("secondary", None), ("columns", None)):
            if cur.get(key) is not None and not (key == "columns" and cur["secondary"]):
                c = copy.deepcopy(cur)
                c[key] = val
                if fails(c):
                    cur, changed = c, True
                    break
    return cur


# ---------------------------------------------------------------- Coq terms
def number_names(case):
    """name object -> nat id for the model (identity for the default names; Python's ==/hash decides equality, as in
    the set the code builds from `secondary`)."""
    m = case["matrix"]
    nc = len(m[0]) if m else 0
    cols, sec = labels(case)
    table = {}
    if cols:
        for n in cols:
            table.setdefault(n, len(table))
    else:
        for i in range(nc):
            table[i] = i
    for x in sec or []:
        table.setdefault(x, len(table))
    return table, cols, sec


def coq_input(case):
    t, cols_l, sec_l = number_names(case)
    mat = clist(case["matrix"], lambda row: clist(row, lambda v: cbool(bool(v))))
    cols = "None" if cols_l is None else "(Some " + clist([t[n] for n in cols_l], cnat) + ")"
    sec = clist([t[x] for x in (sec_l or [])], cnat)
    mi = DEFAULT_MAX_ITER if case["max_iter"] is None else eff_limit(case["max_iter"], "mi")[0]
    return ("{| matrix := %s; columns := %s; secondary := %s; find_all := %s; max_solutions := %s; max_iter := %s |}"
            % (mat, cols, sec, cbool(case["find_all"]), copt(eff_limit(case["max_solutions"], "ms")[0], cz), cz(mi)))


def coq_outcome(out):
    if out["kind"] == "IndexError":
        return "IndexError"
    if out["kind"] != "done" or out["status"] not in ("OPTIMAL", "FEASIBLE", "INFEASIBLE", "MAX_ITER"):
        return "OutOfFuel"  # never equal to a model outcome, never accepted by spec_check: flags the case
    if out["shape"] == "none":
        sol = "SNone"
    elif out["shape"] == "one":
        sol = "(SOne " + clist(out["sels"][0], cnat) + ")"
    else:
        sol = "(SMany " + clist(out["sels"], lambda s: clist(s, cnat)) + ")"
    return ("(Done {| r_sol := %s; r_obj := %s; r_iters := %s; r_evals := %s; r_status := %s |})"
            % (sol, cnat(out["objective"]), cnat(out["iterations"]), cnat(out["evaluations"]), out["status"]))


IMPORTS = "From SV Require Import C07.Dlx C07.DlxSpec."


# ---------------------------------------------------------------- the check
def _corpus():
    out = []
    d = VERIF / "corpus" / "C07"
    if d.exists():
        for f in sorted(d.glob("*.json")):
            o = json.loads(f.read_text())
            if "matrix" in o:
                out.append({k: o.get(k) for k in ("matrix", "columns", "secondary", "find_all", "max_solutions", "max_iter", "dress")})
    return out


def judge(ctx, case, out, mutated, nondet, record=True):
    """Apply the oracle; returns True if a violation was found (and recorded when `record`)."""
    bad = oracle(case, out, mutated, nondet)
    if bad is None:
        return False
    kind, what = bad
    if record:
        small = shrink(case, kind)
        o2, m2, n2 = run_impl(small)
        ctx.violation(f"solve_exact_cover violates the exact-cover property ({kind}): {oracle(small, o2, m2, n2)[1]}",
                      {"kind": "case", "case": small, "impl_out": o2, "original_case": case})
    return True


def _planted(rng):
    """A small instance with several covers (for the option sweeps)."""
    while True:
        m, nc = gen_matrix(rng, False)
        if 3 <= len(m) <= 7 and 2 <= nc <= 6 and all(len(r) == nc for r in m):
            c = {"matrix": [[1 if v else 0 for v in r] for r in m], "columns": None,
                 "secondary": [nc - 1] if rng.random() < 0.4 else None, "find_all": True, "max_solutions": None, "max_iter": None}
            out, _, _ = run_impl(c)
            if out["kind"] == "done" and len(out["sels"]) >= 3 and out["iterations"] <= 40:
                return c


def run_size_instance(inst, timeout=30):
    name, build, check = inst[:3]
    M, kw = build()
    snap = (len(M), repr(M[0]), repr(M[len(M) // 2]), repr(M[-1]))
    args = (M, None, kw.pop("secondary", None))
    out = canon_result(guarded(call_args, args, kw, timeout=timeout))
    if (len(M), repr(M[0]), repr(M[len(M) // 2]), repr(M[-1])) != snap:
        return out, "the matrix was modified by the call"
    return out, check(out)


def run(ctx: Ctx):
    from harness.props import C07_hard as H

    ctx.rule = ("random 0/1 matrices, 0..7 rows x 0..6 columns (thorough: ..10 x ..8), planted covers + noise / uniform density, "
                "empty rows, duplicate rows, empty columns, secondary subsets incl. all-secondary, names given or not, "
                "find_all on/off, max_solutions in {None,0,-1,1,2,5}, max_iter in {default,-2,0,1,3,10,25}, a few ragged / "
                "malformed calls; round-2 families: L label pools (None, falsy, fresh equal objects, int names that are not "
                "positions, huge ints, mixed), I container types (tuple/bytes/bytearray/range/str), M magnitudes of entries "
                "and limits, O sweeps of max_iter 0..N+2 and max_solutions -2..k+2, A shared argument objects over call "
                "sequences / aliased rows / secondary-is-columns, S by-construction instances up to 2^20+1 rows (2^21+1 "
                "thorough) and cover depth 2049, H event-directed cases from an instrumented reference port; "
                "non-trivial = well-formed call, >= 2 rows, >= 1 primary column and the search made >= 3 "
                "iterations; distinct = canonical JSON of the whole call")
    ctx.proof_step(["C07"])
    if (COQ / "Props" / "C07_deep.v").exists(): ctx.proof_step(["C07"], props_file="Props/C07_deep.v")  # noqa: E701
    big = ctx.tier == "thorough"
    n = ctx.budget(600, 12000)
    rng = ctx.rng

    cases = _corpus() + [copy.deepcopy(c) for c in EDGE_CASES] + [gen_case(rng, big) for _ in range(n)]
    cases += [H.gen_labels(rng, gen_matrix) for _ in range(ctx.budget(100, 1500))]
    cases += [H.gen_containers(rng, gen_matrix) for _ in range(ctx.budget(70, 1000))]
    cases += [H.gen_magnitudes(rng, gen_matrix) for _ in range(ctx.budget(50, 500))]
    cases += [H.gen_medium(rng) for _ in range(ctx.budget(50, 600))]
    cases += [H.gen_floats(rng, gen_matrix) for _ in range(ctx.budget(60, 600))]
    uncut = {}
    for _ in range(ctx.budget(3, 15)):
        base = _planted(rng)
        key = json.dumps(base["matrix"]) + json.dumps(base["secondary"])
        its = {}
        for fa in (True, False):
            b2 = dict(base, find_all=fa)
            uncut[(key, fa)] = run_impl(b2)[0]
            its[fa] = uncut[(key, fa)]["iterations"]
        cases += H.sweep_cases(base, its, len(uncut[(key, True)]["sels"]))

    coq_cases, metas = [], []
    ev_hist = {}

    def process(case):
        obs = observation_only(case)
        if obs:  # outside the property: run, count, do not judge, do not send to the model
            o = canon_result(guarded(call_impl, case, timeout=5))
            ctx.evaluations += 1
            ctx.count("observation_only", f"{obs} -> {o.get('status', o.get('type', o['kind']))}")
            return
        out, mutated, nondet = run_impl(case)
        ctx.evaluations += 1
        fam = case.get("family", "base")
        nr = len(case["matrix"])
        nc = len(case["matrix"][0]) if case["matrix"] else 0
        ctx.count("family", fam.split(":")[0])
        if fam != "base":
            ctx.count("family_detail", fam)
        ctx.count("rows", nr)
        ctx.count("cols", nc)
        ctx.count("outcome", out.get("status", out["kind"]))
        ctx.count("find_all", case["find_all"])
        ctx.count("max_solutions", case["max_solutions"] if case["max_solutions"] is None or abs(case["max_solutions"]) < 100 else ("huge" if case["max_solutions"] == case["max_solutions"] else "nan"))
        ctx.count("max_iter", case["max_iter"] if case["max_iter"] is None or abs(case["max_iter"]) < 100 else ("huge" if case["max_iter"] == case["max_iter"] else "nan"))
        rd = reading(case)
        ctx.count("call", "well-formed" if rd else "malformed")
        if rd:
            ctx.count("n_secondary", len(rd[3]))
            if out["kind"] == "done":
                ctx.count("n_selections", min(len(out["sels"]), 6))
                if nr >= 2 and rd[2] and out["iterations"] >= 3:
                    ctx.nontriv(json.dumps(case, sort_keys=True, default=str))
            if nr <= 16:
                for e in H.events_of(case, reading):
                    ev_hist[e] = ev_hist.get(e, 0) + 1
        found = judge(ctx, case, out, mutated, nondet)
        if not found and rd and (fam[0] in "LI" or fam == "X:float_names") and out["kind"] == "done":
            # metamorphic: plain string names / plain lists must give the identical result
            plain = H.relabel_plain(case, number_names)
            o2 = run_impl(plain)[0]
            if o2 != out:
                ctx.violation("solve_exact_cover: the result depends on the TYPE of the column names / containers "
                              f"(family {fam}): {out} but with plain string names and lists {o2}",
                              {"kind": "case", "case": case, "impl_out": out, "plain_case": plain, "plain_out": o2})
        if not found and fam.startswith("O:"):
            key = json.dumps(case["matrix"]) + json.dumps(case["secondary"])
            bad = H.sweep_oracle(case, out, uncut[(key, case["find_all"])]) if (key, case["find_all"]) in uncut else None
            if bad:
                ctx.violation("solve_exact_cover: " + bad, {"kind": "case", "case": case, "impl_out": out})
        ctx.sample({"case": case, "impl_out": out}, 3)
        coq_cases.append(f"({coq_input(case)}, {coq_outcome(out)})")
        metas.append((case, out))

    for case in cases:
        process(case)

    # ---- H: rare internal events (instrumented reference port); search for the ones this run has not produced
    for e in H.EVENTS:
        want = 4 if not big else 12
        tries = 0
        while ev_hist.get(e, 0) < want and tries < want:
            tries += 1
            c = H.directed(rng, e, reading, gen_case, mutate)
            if c is None:
                break
            process(c)
    for e in H.EVENTS:
        ctx.count("events", e, ev_hist.get(e, 0))
    missing = [e for e in H.EVENTS if not ev_hist.get(e)]
    if missing:
        ctx.notes.append(f"internal events not reached in this run: {missing}")

    # ---- A: one set of argument objects over a sequence of calls with different options, both orders
    seq_pool = [c for c, o in metas if reading(c) and o["kind"] == "done" and len(c["matrix"]) >= 2]
    for c in rng.sample(seq_pool, min(len(seq_pool), ctx.budget(40, 400))):
        ctx.evaluations += 1
        bad = H.sequence_check(c, rng, materialize, call_args, canon_result, options)
        ctx.count("family", "A")
        if bad:
            ctx.violation("solve_exact_cover: " + bad, {"kind": "case", "case": c, "sequence": True})

    # ---- A2: edit the caller's objects in place between calls (cells, rows, names incl. duplicates, secondary)
    a2_pool = [c for c in seq_pool if len(c["matrix"][0]) >= 1 and not (c["columns"] and len(c["columns"]) != len(c["matrix"][0])) and all(len(r) == len(c["matrix"][0]) for r in c["matrix"])]
    for c in rng.sample(a2_pool, min(len(a2_pool), ctx.budget(40, 400))):
        ctx.evaluations += 7
        ctx.count("family", "A2")
        bad = H.inplace_check(c, rng, mk_label, call_args, canon_result, options, run_impl, oracle)
        if bad:
            ctx.violation("solve_exact_cover: " + bad[0], {"kind": "case", "case": bad[1], "inplace_from": c})

    # ---- S / W: large structured instances, answer known by construction (not sent to vm_compute)
    work = {}
    for inst in H.size_instances(ctx.tier):
        out, bad = run_size_instance(inst)
        if not bad:
            w = dict(inst[3]) if len(inst) > 3 else {}
            w.update(search_calls=out["iterations"], cover_calls=out["evaluations"], solutions_recorded=len(out["sels"]))
            for k2, v2 in w.items():
                work[k2] = max(work.get(k2, 0), v2)
        ctx.extra["work_max_per_loop"] = work
        ctx.evaluations += 1
        ctx.count("family", "W" if inst[0].startswith("W ") else "S")
        ctx.count("size_instances", inst[0] + (" -> ok" if not bad else " -> FAIL"))
        if bad:
            ctx.violation(f"solve_exact_cover on a large structured instance ({inst[0]}): {bad}",
                          {"kind": "size", "name": inst[0], "impl_out": {k: (v if k != "sels" else v[:5]) for k, v in out.items()}})
    failing = ctx.coq_check("corr", IMPORTS, "input * outcome",
                            "fun c => outcome_eqb (solve (fst c)) (snd c)", coq_cases)
    ctx.traces_validated += len(coq_cases) - len(failing)
    failing_spec = ctx.coq_check("spec", IMPORTS, "input * outcome",
                                 "fun c => implb (valid_input (fst c)) (spec_check_outcome (fst c) (snd c))", coq_cases)
    for i in failing_spec:
        case, out = metas[i]
        if not judge(ctx, case, out, False, False):
            ctx.violation("Coq spec_check (DlxSpec.spec_check, proved sound) rejects the implementation's output",
                          {"kind": "case", "case": case, "impl_out": out, "lemma": "Cases/C07/spec_*.v corr"})

    # completeness clause on the implementation's outputs, judged inside coqc by DlxCheck.complete_check (proved sound
    # for the Spec: accepts only lists that contain every exact cover)
    failing_full = ctx.coq_check("full", IMPORTS + "\nFrom SV Require Import C07.DlxCheck.", "input * outcome",
                                 "fun c => complete_check_outcome (fst c) (snd c)", coq_cases)
    for i in failing_full:
        case, out = metas[i]
        if not judge(ctx, case, out, False, False):
            ctx.violation("Coq complete_check (DlxCheck.complete_check, proved sound) rejects the implementation's find_all output: "
                          "an exact cover is missing or a selection is not a cover",
                          {"kind": "case", "case": case, "impl_out": out, "lemma": "Cases/C07/full_*.v corr"})

    ctx.notes.append("the functional model's claim that _cover/_uncover compute 'remove the rows sharing a column' is not proved; "
                     "it is tested by the per-run correspondence on the ordered solution list and both counters")
    ctx.notes.append("'input not modified' and 'same input twice gives the same answer' are checked by deep-copy comparison in "
                     "the harness only (not expressible in the model; determinism of the model is definitional)")
    ctx.notes.append("malformed calls (wrong number of column names, truthy entry beyond the named columns) are only "
                     "compared with the model (IndexError / phantom column); the property makes no claim about them")
    ctx.notes.append("observation-only (outside the property, POLICY_X): NaN / +-inf / |v| >= 1e300 float entries, names or limits, and "
                     "two columns with the same (equal) name: the calls are run and counted in histogram observation_only, "
                     "never judged and never compared with the model")
    ctx.notes.append("column names of any type are mapped to nat ids for the model by Python's own ==/hash (harness), so the model "
                     "never sees the label objects; label-type independence is checked by the relabelling oracle; instances of "
                     "more than 12 rows are judged by a set-based branching reference, the large structured ones (S) by "
                     "construction, neither goes through vm_compute")

    # ---- model and implementation disagree (or a proof broke) but the oracle found nothing: search harder
    if (failing or ctx.broken) and not ctx.violations:
        found = False
        pool = [metas[i][0] for i in failing]
        for k in range(60000):
            if pool and k % 3 == 0:
                case = mutate(ctx.rng, ctx.rng.choice(pool))
            else:
                case = gen_case(ctx.rng, True)
            out, mutated, nondet = run_impl(case)
            if judge(ctx, case, out, mutated, nondet):
                found = True
                break
        if not found:
            for i in failing[:1]:
                case, out = metas[i]
                model = ctx.coq_eval("corr_show", IMPORTS, f"solve {coq_input(case)}")
                ctx.violation("correspondence lemma corr: model SV.C07.Dlx.solve and solve_exact_cover differ "
                              "(observable: solution shape, ordered selections, objective, iterations, evaluations, status)",
                              {"kind": "case", "case": case, "impl_out": out, "model_out": model[-1500:],
                               "lemma": "Cases/C07/corr_*.v corr"}, no_input=True)
    if (VERIF / "harness" / "props" / "C07_deep.py").exists(): ctx.c07_cases = (metas, coq_cases); __import__("harness.props.C07_deep", fromlist=["run_part"]).run_part(ctx)  # noqa: E701,E702


def mutate(rng, case):
    c = copy.deepcopy(case)
    r = rng.random()
    m = c["matrix"]
    if m and m[0] and r < 0.5:
        i = rng.randrange(len(m))
        if m[i]:
            j = rng.randrange(len(m[i]))
            m[i][j] = 0 if m[i][j] else 1
    elif m and r < 0.65:
        m.append(list(rng.choice(m)))
    elif len(m) > 1 and r < 0.8:
        del m[rng.randrange(len(m))]
    else:
        c["find_all"] = not c["find_all"]
        c["max_solutions"] = rng.choice([None, 1, 2])
        c["max_iter"] = rng.choice([None, 3, 10])
    return c


def replay(obj):
    if obj.get("kind") == "size":
        from harness.props import C07_hard as H

        for inst in H.size_instances("thorough"):
            if inst[0] == obj.get("name"):
                out, bad = run_size_instance(inst)
                print("instance:", inst[0])
                print("implementation output:", {k: (v if k != "sels" else v[:5]) for k, v in out.items()})
                print("by-construction verdict:", bad or "ok")
                return 1 if bad else 0
        print("unknown size instance", obj.get("name"))
        return 1
    case = obj.get("case")
    if obj.get("sequence") and case is not None:
        import random
        from harness.props import C07_hard as H

        bad = None
        for k in range(20):
            bad = bad or H.sequence_check(case, random.Random(k), materialize, call_args, canon_result, options)
        print("call-sequence verdict:", bad or "ok")
        return 1 if bad else 0
    if obj.get("kind") != "case" or case is None:
        print("replay names an unchecked obligation:", obj.get("unchecked") or obj.get("what"))
        return 1
    out, mutated, nondet = run_impl(case)
    bad = oracle(case, out, mutated, nondet)
    print("call: solve_exact_cover(%r, columns=%r, secondary=%r, find_all=%r, max_solutions=%r%s)" % (
        case["matrix"], case["columns"], case["secondary"], case["find_all"], case["max_solutions"],
        "" if case["max_iter"] is None else ", max_iter=%r" % case["max_iter"]))
    print("implementation output:", out)
    if obj.get("model_out"):
        print("model output recorded in the replay:", obj["model_out"])
    print("oracle verdict:", bad or "ok")
    return 1 if bad else 0
