"""C09 - min-cost flow solvers return feasible flows of minimum cost and agree.

Tie to /repo: random small networks are run on solvor.flow.min_cost_flow / solve_assignment and
solvor.network_simplex.network_simplex (working tree); the same inputs are evaluated by the Gallina models
SV.C09.Mcf (min_cost_flow, solve_assignment) and SV.C09.NetSimplex (network_simplex) inside coqc (vm_compute)
and must give the same status / flow dictionary / objective / iteration count.
Independently of the models:
 (a) a Python oracle (max-flow feasibility + negative-cycle cancelling, cross-checked by brute-force
     enumeration of all integral arc flows on tiny instances) judges every implementation output against the
     property itself: integral flow within (pooled) capacities, conservation, demand / supplies met exactly,
     reported cost = sum cost*flow = minimum, INFEASIBLE iff no feasible flow, both solvers agree, every call
     returns;
 (b) the Coq boolean checkers McfSpec.optimal_check (feasibility + pooled dictionary + reported cost +
     non-negative reduced costs for node potentials; proved sound: the answer is a minimum-cost flow) and
     McfSpec.cut_check (a cut whose capacity is below what must cross it; proved sound: no feasible flow) are
     evaluated inside coqc on the IMPLEMENTATION's outputs; the per-arc split of pooled flows, the potentials and
     the cut are untrusted witnesses computed here.
Round-2 hardening (HARDENING.md): every case also carries class L (label objects: None, falsy, ints >= 257, fresh tuples / strings /
frozensets, mixed; every occurrence of a label is a fresh object), class I (tuples / lists / OrderedDict / defaultdict containers,
integer-valued float costs and supplies) and class A (inputs compared before / after, every call repeated on the same objects; shared
objects through call sequences with different options in both orders).  Extra families: M magnitudes (costs / capacities / supplies
up to 10^18 obtained from small instances by potential shifts, scalings and capacity scalings whose optimum follows from the small
instance's brute-force optimum), S structured large instances with answers known by construction (chains of 17..1025 nodes listed in
orders adverse to Bellman-Ford, 257 / 2049 parallel arcs, planted 17x17 / 20x20 assignments, random 9..100-node networks judged by
max-flow + negative-cycle test), O max_iter sweeps 0..pivots+2 and default-1 / default / default+1, H event-directed search over an
instrumented reference port (harness/props/mincost_events.py) plus minimised witnesses per event in corpus/C09/h_*.json.
"""
import copy
import itertools
import json
from collections import OrderedDict, defaultdict, deque

from harness.core import COQ, Ctx, VERIF, cbool, clist, cnat, copt, cz, guarded
from harness.props import mincost_events as EV

ID = "C09"
ANCHORS = ["solvor/flow.py", "solvor/network_simplex.py"]
IMPORTS = "From SV Require Import C09.Mcf C09.McfSpec C09.AssignSpec C09.NetSimplex."
BRUTE_LIMIT = 4000
DEFAULT_MAX_ITER = 1_000_000

SHAPES = ["random", "random", "dense", "parallel", "antipar", "layered", "path", "zero", "saturated", "sinkless", "detour"]
COSTMODES = ["nonneg", "nonneg", "zero", "unit", "potential", "potential", "potential", "wide"]


# ====================================================================================== generators
def _cost_fn(rng, n, mode):
    pot = [rng.randint(-3, 3) for _ in range(n)]

    def cost(u, v):
        if mode == "zero":
            return 0
        if mode == "unit":
            return 1
        if mode == "nonneg":
            return rng.randint(0, 4)
        if mode == "wide":
            return rng.randint(0, 20)
        # negative arcs, never a negative cycle: potential difference + non-negative part
        return pot[v] - pot[u] + rng.choice([0, 0, 0, 1, 2, 3])

    return cost


def _cap(rng, shape):
    if shape == "zero":
        return rng.choice([0, 0, 0, 1, 2])
    return rng.choice([0, 1, 1, 1, 2, 2, 3, 4])


def _raw_arcs(rng, n, shape, cost, max_arcs, s, t):
    arcs = []

    def add(u, v, cap=None):
        if len(arcs) < max_arcs:
            arcs.append((u, v, _cap(rng, shape) if cap is None else cap, cost(u, v)))

    def pair():
        u = rng.randrange(n)
        v = rng.randrange(n)
        while v == u and rng.random() < 0.95:
            v = rng.randrange(n)
        return u, v

    if shape in ("random", "zero", "saturated", "sinkless"):
        for _ in range(rng.randint(0, max_arcs)):
            add(*pair())
    elif shape == "dense":
        for _ in range(max_arcs):
            add(*pair())
    elif shape == "parallel":
        for _ in range(rng.randint(1, max_arcs // 2)):
            add(*pair())
        while len(arcs) < max_arcs and rng.random() < 0.8:
            u, v, _, _ = rng.choice(arcs)
            add(u, v)
    elif shape == "antipar":
        for _ in range(rng.randint(1, max_arcs // 2)):
            u, v = pair()
            add(u, v)
            if rng.random() < 0.8:
                add(v, u)
    elif shape == "layered":
        mid = [x for x in range(n) if x not in (s, t)]
        rng.shuffle(mid)
        k = len(mid) // 2
        l1, l2 = mid[:k] or [s], mid[k:] or [t]
        for a in l1:
            if a != s:
                add(s, a)
        for a in l1:
            for b in l2:
                if a != b and rng.random() < 0.7:
                    add(a, b)
        for b in l2:
            if b != t:
                add(b, t)
        if rng.random() < 0.5:
            add(*pair())
    elif shape == "path":
        order = [s] + rng.sample([x for x in range(n) if x not in (s, t)], max(0, n - 2)) + [t]
        for a, b in zip(order, order[1:]):
            add(a, b)
        for _ in range(rng.randint(0, 3)):
            add(*pair())
    else:  # detour: a cheap path that must be partly undone (flow on a reverse residual edge)
        mid = [x for x in range(n) if x not in (s, t)]
        if len(mid) >= 2:
            a, b = mid[0], mid[1]
            arcs += [(s, a, 1, cost(s, a)), (a, b, 1, cost(a, b)), (b, t, 1, cost(b, t)),
                     (s, b, 1, cost(s, b) + 2), (a, t, 1, cost(a, t) + 2)]
        for _ in range(rng.randint(0, 3)):
            add(*pair())
    if shape == "sinkless":
        arcs = [a for a in arcs if t not in (a[0], a[1])]
    # a self-loop of negative cost would be a negative cycle
    arcs = [a for a in arcs if a[0] != a[1] or a[3] >= 0]
    return arcs


def _maxflow_value(n, arcs, s, t):
    return _feasibility(n, arcs, [(_d(i, s, t, 10 ** 6)) for i in range(n)])[1]


def _d(i, s, t, d):
    return (d if i == s else 0) - (d if i == t else 0)


LABELSETS = [None, None, "abcdefghij", ["s", "t", "x", "y", "z", "w", "q", "r", "p"], [10, 7, 3, 99, 0, 5, 42, 8, 1]]


# ---------------------------------------------------------------- class L: label objects, class I: container shapes
def mk_label(spec):
    """A FRESH Python object for a label spec: equal to, but (where the type allows) not identical with, the object made
    for the same spec at another place of the same call (graph key, arc head, source, sink).  Raw labels pass through."""
    if not isinstance(spec, list):
        return spec
    k = spec[0]
    if k == "none":
        return None
    if k == "bool":
        return bool(spec[1])
    if k == "int":
        return int(str(spec[1]))  # ints >= 257 are not cached: a new object each time
    if k == "float":
        return float(repr(float(spec[1])))
    if k == "str":
        return "".join(list(spec[1]))
    if k == "bytes":
        return bytes(list(spec[1].encode()))
    if k == "tuple":
        return tuple(mk_label(x) for x in spec[1])
    if k == "fset":
        return frozenset(mk_label(x) for x in spec[1])
    if k == "eq":  # the same label in different but EQUAL (== and hash) guises: 1, 1.0, Fraction(1), Decimal(1), True
        from decimal import Decimal
        from fractions import Fraction

        _EQ_COUNTER[0] += 1
        forms = [int, float, Fraction, Decimal] + ([bool] if spec[1] in (0, 1) else [])
        return forms[_EQ_COUNTER[0] % len(forms)](spec[1])
    raise ValueError(spec)


_EQ_COUNTER = [0]


FALSY = [["none"], ["bool", False], ["str", ""], ["tuple", []], ["bytes", ""], ["fset", []], ["float", 0.0], ["int", 0]]
LABEL_FAMILIES = ["none", "none", "falsy", "falsy", "bigint", "tuple", "str", "fset", "float", "mixed", "mixed", "numstr", "eqtypes", "eqtypes"]


def gen_label_specs(rng, n, family=None):
    """n label specs, pairwise different under == (so e.g. never both 0 and False), from the pool of HARDENING.md class L."""
    family = family or rng.choice(LABEL_FAMILIES)

    def one(fam, k):
        if fam == "bigint":
            return ["int", rng.choice([257, 1000, 2 ** 31, 2 ** 63, 10 ** 18]) + k]
        if fam == "tuple":
            return ["tuple", rng.choice([[["str", "n"], ["int", k]], [["int", k]], [["int", 300 + k], ["tuple", [["int", k], ["none"]]]]])]
        if fam == "str":
            return ["str", rng.choice(["node-%d", "%d", "L%d", "a long label with spaces %d"]) % k]
        if fam == "fset":
            return ["fset", [["int", k], ["str", "x"]]]
        if fam == "float":
            return ["float", k + 0.5]
        if fam == "eqtypes":
            return ["eq", k]
        if fam == "numstr":  # "1" next to 1: different labels
            return ["str", str(k)] if k % 2 else ["int", k]
        return ["int", k + 1]

    for _ in range(50):
        if family == "none":
            specs = [one(rng.choice(["int", "int", "str", "tuple"]), k) for k in range(n)]
            specs[rng.randrange(n)] = ["none"]
        elif family == "falsy":
            pool = rng.sample(FALSY, len(FALSY))
            specs = []
            for k in range(n):
                specs.append(pool[k] if k < len(pool) and rng.random() < 0.8 else ["int", k + 1])
            rng.shuffle(specs)
        elif family == "mixed":
            fams = ["bigint", "tuple", "str", "fset", "float", "int", "numstr"]
            specs = [one(rng.choice(fams), k) for k in range(n)]
            if rng.random() < 0.5:
                specs[rng.randrange(n)] = rng.choice(FALSY)
        else:
            specs = [one(family, k) for k in range(n)]
        try:
            if len({mk_label(x) for x in specs}) == n:
                return family, specs
        except TypeError:
            pass
    return "int", [["int", k + 300] for k in range(n)]


MCF_SHAPES = [None, None, None, {"adj": "tuple"}, {"arc": "list"}, {"map": "defaultdict"}, {"map": "ordered", "adj": "tuple", "arc": "list"},
              {"cost_float": True}, {"cost_float": True, "adj": "tuple"}]


def special_value(sp, cap, c):
    """Class X.  The stored (integer) instance is what oracle and model see; the call gets the float extreme that must behave the same:
    cap_inf (stored: a capacity no flow can exhaust), cost_inf / cost_nan with the real capacity sp[1] (stored: capacity 0 - an arc that
    can never be relaxed), cost_negzero / cap_negzero (stored 0)."""
    if sp[0] == "cap_inf":
        return float("inf"), c
    if sp[0] == "cost_inf":
        return sp[1], float("inf")
    if sp[0] == "cost_nan":
        return sp[1], float("nan")
    if sp[0] == "cost_negzero":
        return cap, -0.0
    if sp[0] == "cap_negzero":
        return -0.0, c
    raise ValueError(sp)


def xify_arcs(rng, arcs, total, allow_cost_special=True, nonfinite=False):
    """Pick float extremes for some arcs of an index-form arc list; returns (stored arcs, {ordinal: special})."""
    arcs = [list(a) for a in arcs]
    special = {}
    big = total + sum(a[2] for a in arcs) + 1
    for k, a in enumerate(arcs):
        r = rng.random()
        if r < 0.15 and nonfinite:
            special[str(k)] = ["cap_inf"]
            a[2] = big
        elif r < 0.3 and nonfinite and allow_cost_special and a[3] >= 0:
            special[str(k)] = [rng.choice(["cost_inf", "cost_nan"]), a[2]]
            a[2], a[3] = 0, 0
        elif r < 0.4 and a[3] == 0:
            special[str(k)] = ["cost_negzero"]
        elif r < 0.45 and a[2] == 0:
            special[str(k)] = ["cap_negzero"]
    return [tuple(a) for a in arcs], special


def materialise(inst):
    """The Python objects handed to min_cost_flow: (graph, source, sink, {label object: raw id}).  Every occurrence of a
    label is a freshly built object; containers / number formats follow inst["shape"]."""
    labs = inst.get("labels")
    lab = (lambda x: mk_label(labs[x])) if labs is not None else (lambda x: x)
    sh = inst.get("shape") or {}
    arc_t = list if sh.get("arc") == "list" else tuple
    adj_t = tuple if sh.get("adj") == "tuple" else list
    num = float if sh.get("cost_float") else (lambda c: c)
    capf = float if sh.get("cap_float") else (lambda c: c)
    special = sh.get("special") or {}
    ordinal = [0]

    def arc(v, cap, c):
        sp = special.get(str(ordinal[0]))
        ordinal[0] += 1
        cap, c = capf(cap), num(c)
        if sp:
            cap, c = special_value(sp, cap, c)
        return arc_t((lab(v), cap, c))

    items = [(lab(k), adj_t(arc(v, cap, c) for v, cap, c in out)) for k, out in inst["graph"]]
    if sh.get("map") == "defaultdict":
        g = defaultdict(list)
        g.update(items)
    elif sh.get("map") == "ordered":
        g = OrderedDict(items)
    else:
        g = dict(items)
    back = {lab(inst["source"]): inst["source"], lab(inst["sink"]): inst["sink"]}
    for k, out in inst["graph"]:
        back[lab(k)] = k
        for v, _, _ in out:
            back[lab(v)] = v
    return g, lab(inst["source"]), lab(inst["sink"]), back


def mcf_demand(inst):
    return float(inst["demand"]) if (inst.get("shape") or {}).get("demand_float") else inst["demand"]


def gen_mcf_core(rng, big=False, n=None, max_arcs=None):
    """Index form of a min_cost_flow instance: {"n", "arcs" [(u, v, cap, c)], "s", "t", "demand", "tag"}."""
    n = n or rng.choice([2, 3, 3, 4, 4, 5, 5, 6, 6] + ([7, 8] if big else []))
    max_arcs = max_arcs or (14 if big else 9)
    shape = rng.choice(SHAPES)
    mode = rng.choice(COSTMODES)
    s, t = (0, n - 1) if rng.random() < 0.6 else rng.sample(range(n), 2)
    for _ in range(4):
        arcs = _raw_arcs(rng, n, shape, _cost_fn(rng, n, mode), max_arcs, s, t)
        mf = _maxflow_value(n, arcs, s, t)
        if mf > 0 or shape == "sinkless" or rng.random() < 0.3:  # not too many networks without any s-t path
            break
    demand = rng.choice([0, 1, 1, 2, 2, 3, 4])
    r = rng.random()
    if shape == "saturated" or r < 0.3:
        demand = mf + (1 if rng.random() < 0.2 else 0)  # saturated cut / just infeasible
    elif r < 0.8 and mf > 0:
        demand = rng.randint(1, mf)
    return {"n": n, "arcs": arcs, "s": s, "t": t, "demand": demand, "tag": f"{shape}/{mode}"}


def assemble_mcf(rng, core, labels="legacy", shape=None, shuffle=None, isolated=0.5, extra=None):
    """Adjacency-dict form (as ordered list of [key, [[head, cap, cost], ...]]) of a core instance.  labels: "legacy" = one of
    LABELSETS (raw ints / strings), a list of label specs, or a family name for gen_label_specs."""
    n, arcs = core["n"], core["arcs"]
    keys = []
    for a in arcs:
        if a[0] not in keys:
            keys.append(a[0])
    for x in range(n):  # nodes without outgoing arcs: sometimes a key with an empty list, sometimes absent
        if x not in keys and rng.random() < isolated:
            keys.append(x)
    if shuffle if shuffle is not None else rng.random() < 0.5:
        rng.shuffle(keys)
    inst = {"demand": core["demand"], "tag": core["tag"]}
    if labels in ("legacy", "legacy0"):
        ls = rng.choice(LABELSETS) if n <= 9 and labels == "legacy" else None
        lab = (lambda x: x) if ls is None else (lambda x: ls[x])
    else:
        fam, specs = (None, labels) if isinstance(labels, list) else gen_label_specs(rng, n, labels)
        inst["labels"] = specs
        if fam:
            inst["tag"] += "/L:" + fam
        lab = lambda x: x  # noqa: E731  (graph holds indices into inst["labels"])
    inst["graph"] = [[lab(k), [[lab(v), cap, c] for (u, v, cap, c) in arcs if u == k]] for k in keys]
    inst["source"], inst["sink"] = lab(core["s"]), lab(core["t"])
    if shape:
        inst["shape"] = shape
    if extra:
        inst.update(extra)
    return inst


def gen_mcf(rng, big=False):
    """One min_cost_flow instance: {"graph": [[key, [[v, cap, c], ...]], ...] (dict order), source, sink, demand, tag
    [, labels (specs, class L), shape (containers / float costs, class I)]}."""
    core = gen_mcf_core(rng, big)
    labels = "legacy" if rng.random() < 0.6 else None  # None: a random family of gen_label_specs
    return assemble_mcf(rng, core, labels=labels if labels else rng.choice(LABEL_FAMILIES), shape=rng.choice(MCF_SHAPES))


def gen_ns(rng, big=False):
    """One network_simplex instance {"n", "arcs": [[u, v, cap, cost]], "supplies", "max_iter" (None = default), tag}."""
    n = rng.choice([1, 2, 3, 3, 4, 4, 5, 5, 6, 6] + ([7, 8] if big else []))
    max_arcs = 15 if big else 10
    shape = rng.choice(["random", "random", "dense", "parallel", "antipar", "zero", "path"])
    mode = rng.choice(COSTMODES)
    arcs = _raw_arcs(rng, n, shape, _cost_fn(rng, n, mode), max_arcs, 0, n - 1) if n >= 2 else \
        [(0, 0, rng.randint(0, 3), rng.randint(0, 3)) for _ in range(rng.randint(0, 2))]
    sup = [0] * n
    smode = rng.choice(["induced", "induced", "induced", "saturating", "pairs", "pairs", "zero", "unbalanced"])
    if smode == "induced":
        for u, v, c, _ in arcs:
            x = rng.randint(0, c)
            sup[u] += x
            sup[v] -= x
    elif smode == "saturating":  # every arc at its capacity is the only... a feasible, fully saturated routing
        for u, v, c, _ in arcs:
            sup[u] += c
            sup[v] -= c
    elif smode in ("pairs", "unbalanced"):
        for _ in range(rng.randint(1, 5)):
            a, b = rng.randrange(n), rng.randrange(n)
            sup[a] += 1
            sup[b] -= 1
        if smode == "unbalanced":
            sup[rng.randrange(n)] += rng.choice([-2, -1, 1, 2])
    max_iter = rng.choice([0, 1, 2, 3, 5]) if rng.random() < 0.12 else None
    inst = {"n": n, "arcs": [list(a) for a in arcs], "supplies": sup, "max_iter": max_iter, "tag": f"{shape}/{mode}/{smode}"}
    sh = rng.choice(NS_SHAPES)
    if sh:
        inst["shape"] = sh
    return inst


def gen_assign(rng, big=False):
    n = rng.choice([0, 1, 1, 2, 2, 3, 3, 4, 4] + ([5] if big else []))
    m = n if rng.random() < 0.45 else rng.choice([0, 1, 2, 3, 4] + ([5] if big else []))
    if n == 0:
        return {"matrix": []}
    lo, hi = rng.choice([(0, 9), (0, 9), (0, 2), (-4, 9), (5, 5), (0, 30)])
    inst = {"matrix": [[rng.randint(lo, hi) for _ in range(m)] for _ in range(n)]}
    sh = rng.choice(ASSIGN_SHAPES)
    if sh:
        inst["shape"] = sh
    return inst


# ---------------------------------------------------------------- class M: magnitudes (answers known by construction)
MCF_K = [10 ** 9, 2 ** 31, 2 ** 44 + 1, 2 ** 53 - 1, 2 ** 53 + 1, 2 ** 60, 10 ** 18]
NS_K = [10 ** 8, 10 ** 9, 2 ** 31, 2 ** 36 + 1, 10 ** 12]  # float potentials of network_simplex stay exact: big-M * 4 < 2^53


def _small_core(rng):
    """A core instance small enough for the brute-force oracle (its optimum anchors the by-construction answers)."""
    big = rng.random() < 0.5  # half of them beyond brute force: optimum from the negative-cycle-cancelling oracle alone
    while True:
        core = gen_mcf_core(rng, True, n=rng.choice([5, 6, 7, 8]), max_arcs=14) if big else gen_mcf_core(rng, False, n=rng.choice([3, 4, 4, 5]), max_arcs=7)
        size = 1
        for a in core["arcs"]:
            size *= a[2] + 1
        if (big or size <= BRUTE_LIMIT) and core["arcs"]:
            return core


def magnify(rng, n, arcs, supplies, K, mode):
    """Transform a small instance into one with huge numbers whose optimum follows from the small one's (opt):
      shift   : cost += K * (p[head] - p[tail])   (large costs of mixed sign that nearly cancel around every cycle; no negative
                cycle is created)                  -> opt - K * sum_w p[w] * supply[w], same optimal flows
      scale   : cost *= K                          -> K * opt
      mixed   : cost = K * cost + tiny             (huge + tiny)  -> exact oracle only
      caps    : cap *= K, supplies *= K            -> K * opt (a K-fold optimal flow is optimal: same potentials certify it)
    Returns (arcs', supplies', fn(opt) or None)."""
    p = [rng.randint(-3, 3) for _ in range(n)]
    if mode == "shift":
        return ([(u, v, c, w + K * (p[v] - p[u])) for u, v, c, w in arcs], list(supplies),
                lambda opt: None if opt is None else opt - K * sum(p[i] * supplies[i] for i in range(n)))
    if mode == "scale":
        return [(u, v, c, w * K) for u, v, c, w in arcs], list(supplies), lambda opt: None if opt is None else opt * K
    if mode == "mixed":
        return [(u, v, c, w * K + rng.randint(0, 3)) for u, v, c, w in arcs], list(supplies), None
    return [(u, v, c * K, w) for u, v, c, w in arcs], [b * K for b in supplies], lambda opt: None if opt is None else opt * K


def gen_mcf_magnitude(rng):
    core = _small_core(rng)
    n, s, t, d = core["n"], core["s"], core["t"], core["demand"]
    sup = [_d(i, s, t, d) for i in range(n)]
    opt, _ = optimum_of(n, core["arcs"], sup)
    K = rng.choice(MCF_K)
    mode = rng.choice(["shift", "shift", "shift", "scale", "mixed", "caps"])
    arcs2, sup2, fn = magnify(rng, n, core["arcs"], sup, K, mode)
    core2 = {"n": n, "arcs": arcs2, "s": s, "t": t, "demand": sup2[s], "tag": f"magnitude/{mode}/{K}"}
    extra = {}
    if fn is not None:
        extra = {"oracle": "expect", "expect_opt": fn(opt), "exact_ok": mode != "caps"}
    if mode == "caps":
        extra["no_model"] = True  # the model's fuel is `demand` in unary
    return assemble_mcf(rng, core2, labels="legacy" if rng.random() < 0.7 else rng.choice(LABEL_FAMILIES), extra=extra)


def _ns_base(rng):
    """A network_simplex instance with small numbers, 3..10 nodes and up to 25 arcs (too large for brute force; its optimum comes from
    the exact negative-cycle-cancelling oracle), mostly feasible, needing several pivots."""
    n = rng.choice([3, 4, 5, 6, 7, 8, 9, 10])
    cost = _cost_fn(rng, n, rng.choice(["nonneg", "potential", "potential", "wide"]))
    arcs = []
    for _ in range(rng.randint(n, min(25, 3 * n))):
        u, v = rng.sample(range(n), 2)
        arcs.append((u, v, rng.randint(0, 5), cost(u, v)))
    sup = [0] * n
    if rng.random() < 0.85:
        for u, v, c, _ in arcs:
            x = rng.randint(0, c) if rng.random() < 0.6 else 0
            sup[u] += x
            sup[v] -= x
    else:
        for _ in range(rng.randint(1, 6)):
            a, b = rng.sample(range(n), 2)
            sup[a] += 1
            sup[b] -= 1
    return n, arcs, sup


def gen_ns_magnitude(rng):
    if rng.random() < 0.3:
        while True:
            inst = gen_ns(rng)
            if inst["n"] >= 2 and inst["arcs"] and inst["max_iter"] is None:
                break
        n, arcs, sup = inst["n"], [tuple(a) for a in inst["arcs"]], inst["supplies"]
    else:
        n, arcs, sup = _ns_base(rng)
    opt, _ = optimum_of(n, arcs, sup)
    mode = rng.choice(["shift", "shift", "shift", "scale", "mixed", "caps"])
    K = rng.choice(NS_K if mode != "caps" else MCF_K)
    arcs2, sup2, fn = magnify(rng, n, arcs, sup, K, mode)
    out = {"n": n, "arcs": [list(a) for a in arcs2], "supplies": sup2, "max_iter": None, "tag": f"magnitude/{mode}/{K}"}
    if fn is not None:
        out.update({"oracle": "expect", "expect_opt": fn(opt) if sum(sup) == 0 else None, "exact_ok": mode != "caps" and len(arcs) <= 12})
    elif len(arcs) > 12:
        out["oracle"] = "cert"
    return out


def gen_assign_magnitude(rng):
    n = rng.choice([1, 2, 3, 3, 4])
    m = n if rng.random() < 0.6 else rng.choice([1, 2, 3, 4])
    K = rng.choice(MCF_K)
    a = [rng.randint(-3, 3) * K for _ in range(n)]
    b = [rng.randint(-3, 3) * K for _ in range(m)]
    return {"matrix": [[a[i] + b[j] + rng.randint(0, 5) for j in range(m)] for i in range(n)], "tag": f"magnitude/{K}"}


# ---------------------------------------------------------------- class S: structured large instances, answers by construction
def _chain_order(N, order, rng):
    idx = list(range(N - 1))
    if order == "reverse":
        idx.reverse()
    elif order == "zigzag":  # positions alternate: e1 late, e2 early, e3 late, ...
        idx = idx[1::2] + idx[0::2][::-1] if rng.random() < 0.5 else idx[0::2][::-1] + idx[1::2]
    elif order == "shuffle":
        rng.shuffle(idx)
    return idx


def large_mcf(rng, N, kind, order="reverse"):
    """chain : s = 0 -> 1 -> ... -> N-1 = t, the only route (all capacities >= demand); arcs listed in the given order, one
               adjacency key per arc tail in that order; answer demand * sum(costs).  `order` decides how many Bellman-Ford
               sweeps the shortest path needs (reverse: one node per sweep).
       chain2: the chain plus a direct arc s->t that is 1 more expensive than the whole chain, chain capacity 1, demand 2.
       parallel: N parallel arcs s->t (capacity 1, distinct costs, shuffled); answer = sum of the `demand` smallest costs."""
    if kind == "parallel":
        costs = rng.sample(range(1, 5 * N), N)
        d = rng.choice([1, 3, 5])
        core = {"n": 2, "arcs": [(0, 1, 1, c) for c in costs], "s": 0, "t": 1, "demand": d, "tag": f"large/parallel/{N}"}
        return assemble_mcf(rng, core, labels="legacy", shuffle=False,
                            extra={"oracle": "expect", "expect_opt": sum(sorted(costs)[:d]), "no_model": N > 300})
    costs = [rng.randint(-2, 9) for _ in range(N - 1)]
    d = rng.choice([1, 2])
    chain = [(i, i + 1, (1 if kind == "chain2" else d + rng.randint(0, 2)), costs[i]) for i in range(N - 1)]
    arcs = [chain[i] for i in _chain_order(N, order, rng)]
    expect = d * sum(costs)
    if kind == "chain2":
        d = 2
        arcs.insert(rng.randrange(len(arcs) + 1), (0, N - 1, 1, sum(costs) + 1))
        expect = 2 * sum(costs) + 1
    core = {"n": N, "arcs": arcs, "s": 0, "t": N - 1, "demand": d, "tag": f"large/{kind}/{order}/{N}"}
    return assemble_mcf(rng, core, labels="legacy" if N > 60 or rng.random() < 0.5 else rng.choice(["bigint", "tuple", "str"]),
                        shuffle=False, isolated=0.0, extra={"oracle": "expect", "expect_opt": expect, "no_model": N > 70})


def large_ns(rng, N, kind):
    """chain: as above with supplies d at node 0, -d at node N-1.  random: N nodes, ~4N arcs, potential-difference costs, supplies
    induced by a random flow; judged by max-flow feasibility + absence of a negative residual cycle."""
    if kind == "chain":
        costs = [rng.randint(-2, 9) for _ in range(N - 1)]
        d = rng.choice([1, 3])
        arcs = [(i, i + 1, d + rng.randint(0, 2), costs[i]) for i in range(N - 1)]
        rng.shuffle(arcs)
        sup = [0] * N
        sup[0], sup[N - 1] = d, -d
        return {"n": N, "arcs": [list(a) for a in arcs], "supplies": sup, "max_iter": None, "tag": f"large/chain/{N}",
                "oracle": "expect", "expect_opt": d * sum(costs), "no_model": N > 40}
    cost = _cost_fn(rng, N, "potential")
    arcs = []
    for _ in range(4 * N):
        u, v = rng.randrange(N), rng.randrange(N)
        if u != v:
            arcs.append((u, v, rng.randint(0, 5), cost(u, v)))
    sup = [0] * N
    for u, v, c, _ in arcs:
        x = rng.randint(0, c) if rng.random() < 0.5 else 0
        sup[u] += x
        sup[v] -= x
    if rng.random() < 0.2:  # probably infeasible
        a, b = rng.sample(range(N), 2)
        sup[a] += 7
        sup[b] -= 7
    return {"n": N, "arcs": [list(a) for a in arcs], "supplies": sup, "max_iter": None, "tag": f"large/random/{N}", "oracle": "cert",
            "no_model": N > 12}


def large_assign(rng, n, m):
    """Planted optimum: cost[i][j] = a[i] + b[j] + (0 on a hidden permutation, >= 1 elsewhere); square, so every perfect matching
    pays sum(a) + sum(b) and the hidden permutation is the unique optimum."""
    perm = rng.sample(range(n), n)
    a = [rng.randint(-5, 5) for _ in range(n)]
    b = [rng.randint(-5, 5) for _ in range(n)]
    mat = [[a[i] + b[j] + (0 if perm[i] == j else rng.randint(1, 6)) for j in range(n)] for i in range(n)]
    return {"matrix": mat, "tag": f"large/{n}", "expect_assignment": perm, "expect_opt": sum(a) + sum(b), "no_model": n > 6}


# ---------------------------------------------------------------- class H: rare histories (events: harness/props/mincost_events.py)
def gen_mcf_zigzag(rng):
    """7-10 nodes, a Hamiltonian s-t path whose arcs are listed in an order adverse to Bellman-Ford (reverse / zig-zag / shuffled),
    decoy arcs that are too expensive to shortcut it and a few cheap ones that may.  Core (index) form."""
    n = rng.choice([6, 7, 7, 8, 8, 9, 10])
    order = [0] + rng.sample(range(1, n - 1), n - 2) + [n - 1]
    costs = [rng.randint(0, 2) for _ in range(n - 1)]
    path = [(order[i], order[i + 1], rng.choice([1, 1, 2]), costs[i]) for i in range(n - 1)]
    arcs = [path[i] for i in _chain_order(n, rng.choice(["reverse", "zigzag", "zigzag", "shuffle"]), rng)]
    pos = {x: i for i, x in enumerate(order)}
    for _ in range(rng.randint(0, 5)):
        a, b = rng.sample(range(n), 2)
        if pos[a] < pos[b]:  # forward shortcut: dearer than the stretch of path it skips (sometimes exactly as dear)
            w = sum(costs[pos[a]:pos[b]]) + rng.choice([0, 1, 1, 3])
        else:
            w = rng.randint(0, 3)  # backward arc of non-negative cost: no negative cycle
        arcs.insert(rng.randrange(len(arcs) + 1), (a, b, rng.choice([0, 1, 2]), w))
    return {"n": n, "arcs": arcs, "s": 0, "t": n - 1, "demand": rng.choice([1, 1, 2, 3]), "tag": "zigzag"}


def core_of_tuple(x, tag):
    return {"n": x[0], "arcs": list(x[1]), "s": x[2], "t": x[3], "demand": x[4], "tag": tag}


def event_cases(rng, budget, want):
    """Event-directed search (mincost_events.search) seeded with zig-zag gadgets; returns (mcf instances, ns instances), each
    tagged "event/<name>"."""
    def new_m(r):
        c = gen_mcf_zigzag(r) if r.random() < 0.3 else gen_mcf_core(r, True, n=r.choice([4, 5, 6, 7, 8, 9]), max_arcs=r.choice([8, 12, 16]))
        return (c["n"], c["arcs"], c["s"], c["t"], c["demand"])

    def new_n(r):
        i = gen_ns(r, True)
        return (i["n"], [tuple(a) for a in i["arcs"]], i["supplies"], DEFAULT_MAX_ITER if i["max_iter"] is None else i["max_iter"])

    gm, gn = EV.search(rng, budget, new_m, new_n, want=want)
    mcf, ns, seen = [], [], set()
    for e, lst in gm.items():
        for x in lst:
            if id(x) not in seen:
                seen.add(id(x))
                mcf.append(assemble_mcf(rng, core_of_tuple(x, "event/" + e), labels="legacy0", shuffle=False, isolated=0.0))
    for e, lst in gn.items():
        for x in lst:
            if id(x) not in seen:
                seen.add(id(x))
                ns.append({"n": x[0], "arcs": [list(a) for a in x[1]], "supplies": list(x[2]),
                           "max_iter": None if x[3] == DEFAULT_MAX_ITER else x[3], "tag": "event/" + e})
    return mcf, ns


# ---------------------------------------------------------------- class A: shared inputs, call sequences
def alias_sequences(ctx, mcf_insts, ns_insts, count):
    """One input object handed to consecutive calls with different options, in both orders, with a call on another instance (and a
    max_flow call on the same graph) in between: every answer must equal the answer of a fresh, isolated call."""
    from solvor.flow import max_flow, min_cost_flow
    from solvor.network_simplex import network_simplex

    def norm(res, back):  # labels of equal-but-distinct guise (1, 1.0, Decimal(1)) compare by their raw id
        out = _pack(res)
        if isinstance(out["flows"], list):
            out["flows"] = [[back[u], back[v], f] for u, v, f in out["flows"]]
        return repr(out)

    def fresh_mcf(inst, d):
        g, s, t, back = materialise(inst)
        return norm(min_cost_flow(g, s, t, d), back)

    def mcf_seq(inst, other):
        d1 = inst["demand"]
        d2 = max(0, d1 + ctx.rng.choice([-1, 1, 2]))
        want = {d: fresh_mcf(inst, d) for d in (d1, d2)}
        for order in ((d1, d2, d1), (d2, d1, d2)):
            g, s, t, back = materialise(inst)
            before = _snap_graph(g)
            for k, d in enumerate(order):
                got = norm(min_cost_flow(g, s, t, d), back)
                if got != want[d]:
                    return f"call {k + 1} of the sequence demands {order} on one shared graph returned {got}, a fresh call returns {want[d]}"
                if k == 0:
                    og, os_, ot, _ = materialise(other)
                    min_cost_flow(og, os_, ot, other["demand"])
                    max_flow(g, s, t)
            if _snap_graph(g) != before:
                return "the shared graph was modified"
        return None

    def ns_seq(inst, other):
        arcs, sup = ns_args(inst)
        its = network_simplex(inst["n"], arcs, sup).iterations
        opts = [None, max(0, its - 1), 1]
        want = {}
        for o in opts:
            a, b = ns_args(inst)
            want[o] = repr(_pack(network_simplex(inst["n"], a, b, **({} if o is None else {"max_iter": o}))))
        for order in (opts, opts[::-1]):
            before = copy.deepcopy((arcs, sup))
            for k, o in enumerate(order):
                got = repr(_pack(network_simplex(inst["n"], arcs, sup, **({} if o is None else {"max_iter": o}))))
                if got != want[o]:
                    return f"call {k + 1} of the sequence max_iter={order} on shared arcs/supplies returned {got}, a fresh call returns {want[o]}"
                if k == 0:
                    oa, ob = ns_args(other)
                    network_simplex(other["n"], oa, ob)
            if (arcs, sup) != before:
                return "the shared arcs / supplies were modified"
        return None

    small_m = [i for i in mcf_insts if len(i["graph"]) <= 12 and i["demand"] < 10 ** 6 and not i.get("observe")][:4 * count]
    small_n = [i for i in ns_insts if i["n"] <= 12 and i.get("max_iter") is None and not i.get("observe")][:4 * count]
    for pool, fn, kind in ((small_m, mcf_seq, "mcf"), (small_n, ns_seq, "ns")):
        if len(pool) < 2:
            continue
        for _ in range(count):
            inst, other = ctx.rng.sample(pool, 2)
            r = guarded(fn, inst, other, timeout=10)
            ctx.evaluations += 1
            ctx.count("call_sequences", kind)
            bad = r[1] if r[0] == "ok" else f"call sequence did not complete: {r}"
            if bad:
                ctx.violation(f"{'min_cost_flow' if kind == 'mcf' else 'network_simplex'} (call sequence): {bad}", {"kind": kind, **inst, "sequence": True})
                break


# ---------------------------------------------------------------- class X: float extremes the API does not reject
def gen_mcf_x(rng):
    """Integral floats in every numeric argument, negative zero, infinite capacities ("unlimited"), infinite / NaN costs ("forbidden
    arc").  Stored instance = the integer instance that must behave identically (see special_value)."""
    core = gen_mcf_core(rng, False)
    core = dict(core, tag="floatx/" + core["tag"])
    inst = assemble_mcf(rng, core, labels="legacy" if rng.random() < 0.7 else rng.choice(LABEL_FAMILIES))
    flat = [(k, v, cap, c) for k, out in inst["graph"] for v, cap, c in out]  # the order in which materialise() numbers the arcs
    observe = rng.random() < 0.25  # non-finite data (inf capacity, inf / NaN cost): outside the property, observation only
    arcs, special = xify_arcs(rng, flat, core["demand"], nonfinite=observe)
    observe = any(v[0] in ("cap_inf", "cost_inf", "cost_nan") for v in special.values())
    if observe:
        inst.update({"observe": True, "no_model": True})
    it = iter(arcs)
    inst["graph"] = [[k, [list(next(it)[1:]) for _ in out]] for k, out in inst["graph"]]
    shape = {"special": special}
    for k in ("cap_float", "cost_float", "demand_float"):
        if rng.random() < 0.4:
            shape[k] = True
    if rng.random() < 0.3:
        shape["adj"] = "tuple"
    inst["shape"] = shape
    return inst


def gen_ns_x(rng):
    while True:
        inst = gen_ns(rng)
        if inst["arcs"]:
            break
    arcs, special = xify_arcs(rng, [tuple(a) for a in inst["arcs"]], sum(x for x in inst["supplies"] if x > 0), allow_cost_special=False,
                              nonfinite=rng.random() < 0.25)
    shape = {"special": special}
    if any(v[0] == "cap_inf" for v in special.values()):
        inst = dict(inst, observe=True, no_model=True)
    for k in ("cap_float", "cost_float", "sup_float", "sup_negzero", "max_iter_float"):
        if rng.random() < 0.4:
            shape[k] = True
    return dict(inst, arcs=[list(a) for a in arcs], shape=shape, tag="floatx/" + inst["tag"])


def gen_assign_x(rng):
    n = rng.choice([1, 2, 3, 3, 4])
    m = rng.choice([n, n, n + 1, max(1, n - 1)])
    mat = [[rng.randint(0, 9) for _ in range(m)] for _ in range(n)]
    k = min(n, m)
    rows, cols = rng.sample(range(n), k), rng.sample(range(m), k)
    keep = set(zip(rows, cols))  # a matching of min(n, m) finite entries always exists
    special = {}
    nonfinite = rng.random() < 0.25
    for i in range(n):
        for j in range(m):
            r = rng.random()
            if nonfinite and (i, j) not in keep and r < 0.25:
                special[f"{i},{j}"] = rng.choice(["inf", "nan"])
                mat[i][j] = 10 ** 6  # stored: dearer than any matching of finite entries
            elif mat[i][j] == 0 and r < 0.5:
                special[f"{i},{j}"] = "negzero"
    shape = {"special": special, "float": rng.random() < 0.5}
    if rng.random() < 0.3:
        shape["rows"] = "tuple"
    obs = any(v != "negzero" for v in special.values())
    return {"matrix": mat, "shape": shape, "tag": "floatx", **({"no_model": True, "observe": True} if obs else {})}


def gen_ns_beyond(rng):
    """network_simplex on integer costs beyond its float-exact zone (potentials are floats by design): observation only."""
    while True:
        n, arcs, sup = _ns_base(rng)
        arcs2, sup2, _ = magnify(rng, n, arcs, sup, rng.choice([2 ** 50, 2 ** 53 + 1, 2 ** 60, 10 ** 18]), "shift")
        if not ns_exact_zone(n, arcs2):
            return {"n": n, "arcs": [list(a) for a in arcs2], "supplies": sup2, "max_iter": None, "tag": "beyond-float-zone", "observe": True,
                    "no_model": True, "oracle": "cert"}


# ---------------------------------------------------------------- class W: work volume (answers by construction)
def build_heavy(recipe):
    """Instances that MAXIMISE the iteration count of one internal loop at moderate input size, rebuilt from a small recipe
    {"family", "size", "seed"} (so replay files stay small).  Returns (kind, instance).
      mcf_rev_chain : chain 0 -> 1 -> ... -> N listed against the path direction (one Bellman-Ford sweep per hop: N sweeps, and a path of N
                      edges) plus a direct arc that is ten times dearer; all capacities 2, demand 2 -> 2 * sum(chain costs).
      mcf_parallel  : K parallel unit arcs between two nodes (one sweep per run, one augmentation per unit): demand close to K ->
                      sum of the `demand` smallest costs after `demand` augmentations.
      mcf_fwd_chain : chain listed along the path (two sweeps), N path edges reconstructed / augmented.
      ns_two_chains : a long chain A (supply 1 at its head, demand 1 at its end), a short chain B, and one arc from the head of B to the
                      end of A that no feasible flow can use: about N pivots, tree walks of N steps and, when that arc enters
                      (degenerate), a re-hang of the whole subtree A.  The feasible flow is unique -> sum of all chain costs.
      ns_chain / ns_parallel : N-1 resp. K/2 pivots."""
    import random as _random

    rng = _random.Random(recipe["seed"])
    fam, N = recipe["family"], recipe["size"]
    common = {"oracle": "expect", "no_model": True, "once": True, "timeout": recipe.get("timeout", 150), "recipe": recipe, "tag": f"work/{fam}/{N}"}
    if fam in ("mcf_rev_chain", "mcf_fwd_chain"):
        costs = [rng.randint(1, 3) for _ in range(N)]
        keys = list(range(N))
        if fam == "mcf_rev_chain":
            keys.reverse()
        graph = [[i, [[i + 1, 2, costs[i]]]] for i in keys]
        direct = [N, 2, 10 * sum(costs)]
        for entry in graph:
            if entry[0] == 0:
                entry[1].insert(rng.randrange(2), direct)
        return "mcf", {"graph": graph, "source": 0, "sink": N, "demand": 2, "expect_opt": 2 * sum(costs), **common}
    if fam == "mcf_parallel":
        costs = [rng.randint(1, 50) for _ in range(N)]
        d = N - rng.randint(0, 60)
        return "mcf", {"graph": [["s", [["t", 1, c] for c in costs]], ["t", []]], "source": "s", "sink": "t", "demand": d,
                       "expect_opt": sum(sorted(costs)[:d]), **common}
    if fam == "ns_two_chains":
        h, n = N, N + 5
        costs = [rng.randint(1, 3) for _ in range(n)]
        arcs = [[i, i + 1, 3, costs[i]] for i in range(h - 1)] + [[i, i + 1, 3, costs[i]] for i in range(h, n - 1)]
        arcs.insert(rng.choice([0, len(arcs)]), [h, h - 1, 3, 1])
        sup = [0] * n
        sup[0], sup[h - 1], sup[h], sup[n - 1] = 1, -1, 1, -1
        return "ns", {"n": n, "arcs": arcs, "supplies": sup, "max_iter": None,
                      "expect_opt": sum(costs[:h - 1]) + sum(costs[h:n - 1]), **common}
    if fam == "ns_chain":
        costs = [rng.randint(1, 3) for _ in range(N - 1)]
        arcs = [[i, i + 1, 3, costs[i]] for i in range(N - 1)]
        rng.shuffle(arcs)
        sup = [0] * N
        sup[0], sup[N - 1] = 2, -2
        return "ns", {"n": N, "arcs": arcs, "supplies": sup, "max_iter": None, "expect_opt": 2 * sum(costs), **common}
    if fam == "ns_parallel":
        costs = [rng.randint(1, 50) for _ in range(N)]
        d = N // 2
        return "ns", {"n": 2, "arcs": [[0, 1, 1, c] for c in costs], "supplies": [d, -d], "max_iter": None,
                      "expect_opt": sum(sorted(costs)[:d]), **common}
    raise ValueError(recipe)


def heavy_worker(recipe):
    """Runs in a forked worker: implementation + by-construction judgement + (where affordable) the instrumented port's loop counts."""
    kind, inst = build_heavy(recipe)
    c = mcf_case(inst) if kind == "mcf" else ns_case(inst)
    out = c["out"]
    work = {}
    if out is not None and recipe.get("port", True):
        if kind == "mcf":
            work = EV.mcf_ref(c["n"], c["arcs"], c["s"], c["t"], c["d"], limit=10 ** 9)["work"]
        else:
            work = EV.ns_ref(c["n"], c["arcs"], c["supplies"], DEFAULT_MAX_ITER, limit=10 ** 9)["work"]
    elif out is not None:
        work = {"mcf_augmentations" if kind == "mcf" else "ns_pivots": out["iterations"]}
        if not c["bad"]:  # counts that follow from the construction once the answer is right (the port is too slow at this size)
            fam, size = recipe["family"], recipe["size"]
            if fam == "mcf_rev_chain":
                work.update({"mcf_bf_sweeps": size, "mcf_path_edges": size})
            elif fam == "mcf_fwd_chain":
                work.update({"mcf_path_edges": size})
            elif fam == "ns_two_chains":
                work.update({"ns_tree_walk_steps": size, "ns_rehang_nodes": size})
    return {"kind": kind, "recipe": recipe, "bad": c["bad"], "status": out["status"] if out else "no-result",
            "impl": None if out is None else {k: (out[k] if k != "flows" else _short(out[k] or [], 6)) for k in ("status", "flows", "objective", "iterations")},
            "optimum": inst["expect_opt"], "work": work}


def heavy_recipes(rng, big):
    rs = [{"family": "mcf_rev_chain", "size": rng.randint(4100, 4300)}, {"family": "mcf_parallel", "size": rng.randint(4160, 4400), "port": False},
          {"family": "mcf_fwd_chain", "size": 100_003}, {"family": "ns_two_chains", "size": rng.randint(4100, 4300)},
          {"family": "mcf_rev_chain", "size": 130}, {"family": "mcf_parallel", "size": 1030}, {"family": "ns_two_chains", "size": 1030},
          {"family": "ns_parallel", "size": 2060}]
    if big:
        rs += [{"family": "mcf_rev_chain", "size": 10_050, "port": False, "timeout": 600}, {"family": "mcf_parallel", "size": 10_100, "port": False, "timeout": 600},
               {"family": "mcf_fwd_chain", "size": 2 ** 20 + 2, "port": False, "timeout": 600}, {"family": "ns_chain", "size": 10_010, "port": False, "timeout": 900},
               {"family": "ns_parallel", "size": 8400, "port": False, "timeout": 600}, {"family": "ns_two_chains", "size": 2 ** 13 + 10, "port": False, "timeout": 900}]
    for r in rs:
        r["seed"] = rng.randrange(10 ** 9)
    return rs


# ---------------------------------------------------------------- class A2: in-place edits between calls
def edit_sequences(ctx, mcf_insts, ns_insts, as_insts, count):
    """f(x); MUTATE x in place (replace an arc / matrix entry / supply keeping ids and lengths, append or delete an arc, add a key);
    f(x) again, and the other public functions of the module on the same object; every answer must equal the answer of a fresh call on a
    deep copy of the edited input, and the edited-input answer is judged by the oracle like any other case."""
    from solvor.flow import max_flow, min_cost_flow, solve_assignment
    from solvor.network_simplex import network_simplex

    rng = ctx.rng

    def mcf_edit(inst):
        inst = dict(inst, shape={"adj": "list", "arc": rng.choice(["tuple", "list"])})
        g, s, t, back = materialise(inst)
        d = inst["demand"]
        first = repr(_pack(min_cost_flow(g, s, t, d)))
        max_flow(g, s, t)
        keys = [k for k in g if g[k]]
        nodes = list(back)
        kind = rng.choice(["replace_cost", "replace_cap", "append", "delete", "newkey", "replace_cost"])
        if kind in ("replace_cost", "replace_cap", "delete") and not keys:
            kind = "append"
        if kind == "replace_cost":
            k = rng.choice(keys); i = rng.randrange(len(g[k])); a = g[k][i]
            g[k][i] = type(a)((a[0], a[1], a[2] + rng.choice([1, 2, 5])))      # dearer: no negative cycle appears
        elif kind == "replace_cap":
            k = rng.choice(keys); i = rng.randrange(len(g[k])); a = g[k][i]
            g[k][i] = type(a)((a[0], max(0, a[1] + rng.choice([-1, 1, 2])), a[2]))
        elif kind == "append":
            k = rng.choice(list(g)) if g else s
            g.setdefault(k, []).append((rng.choice(nodes), rng.choice([1, 2]), rng.choice([20, 30])))  # dear arc: cycles stay non-negative
        elif kind == "delete":
            k = rng.choice(keys); g[k].pop(rng.randrange(len(g[k])))
        else:
            fresh_label = ("new", len(g))
            g[fresh_label] = [(t, 1, 25)]
            g.setdefault(s, []).append((fresh_label, 1, 25))
        again = repr(_pack(min_cost_flow(g, s, t, d)))
        mf_again = max_flow(g, s, t)
        g2 = copy.deepcopy(g)
        fresh = repr(_pack(min_cost_flow(g2, s, t, d)))
        mf_fresh = max_flow(copy.deepcopy(g), s, t)
        if again != fresh:
            return f"after the in-place edit `{kind}` (first answer {first}) min_cost_flow on the SAME graph object returned {again}; on a deep copy of the edited graph it returns {fresh}"
        if (mf_again.objective, mf_again.solution) != (mf_fresh.objective, mf_fresh.solution):
            return f"after the in-place edit `{kind}` max_flow on the same object returned {mf_again.objective}, on a deep copy {mf_fresh.objective}"
        return None

    def ns_edit(inst):
        arcs, sup = ns_args(dict(inst, shape={"arc": rng.choice(["tuple", "list"])}))
        n = inst["n"]
        first = repr(_pack(network_simplex(n, arcs, sup)))
        kind = rng.choice(["replace_cost", "replace_cap", "supply", "append", "delete"])
        if kind == "replace_cost":
            i = rng.randrange(len(arcs)); a = arcs[i]
            arcs[i] = type(a)((a[0], a[1], a[2], a[3] + rng.choice([1, 2, 5])))
        elif kind == "replace_cap":
            i = rng.randrange(len(arcs)); a = arcs[i]
            arcs[i] = type(a)((a[0], a[1], max(0, a[2] + rng.choice([-1, 1, 2])), a[3]))
        elif kind == "supply" and n >= 2:
            a, b = rng.sample(range(n), 2)
            sup[a] += 1
            sup[b] -= 1
        elif kind == "append" and n >= 2:
            a, b = rng.sample(range(n), 2)
            arcs.append((a, b, 2, 30))
        elif len(arcs) > 1:
            arcs.pop(rng.randrange(len(arcs)))
        again = repr(_pack(network_simplex(n, arcs, sup)))
        fresh = repr(_pack(network_simplex(n, *copy.deepcopy((arcs, sup)))))
        if again != fresh:
            return f"after the in-place edit `{kind}` (first answer {first}) network_simplex on the SAME arcs / supplies objects returned {again}; on a deep copy it returns {fresh}"
        edited = {"n": n, "arcs": [list(a) for a in arcs], "supplies": list(sup), "max_iter": None}
        c = ns_case(edited)
        return None if not c["bad"] else f"edited instance {edited}: {c['bad']}"

    def as_edit(inst):
        mat = [list(r) for r in inst["matrix"]]
        first = repr(solve_assignment(mat))
        i = rng.randrange(len(mat)); j = rng.randrange(len(mat[0]))
        mat[i][j] += rng.choice([-3, 3, 7])
        again = solve_assignment(mat)
        fresh = solve_assignment(copy.deepcopy(mat))
        if (again.solution, again.objective, again.status) != (fresh.solution, fresh.objective, fresh.status):
            return f"after mat[{i}][{j}] was changed in place (first answer {first}) solve_assignment returned {again.solution} cost {again.objective}; on a deep copy {fresh.solution} cost {fresh.objective}"
        return judge_assign(mat, {"status": again.status.name, "assignment": list(again.solution), "objective": again.objective})

    pools = ((
        [i for i in mcf_insts if len(i["graph"]) <= 12 and i["demand"] < 10 ** 6 and not (i.get("shape") or {}).get("special") and not i.get("observe")][:300], mcf_edit, "mcf", "min_cost_flow"),
        ([i for i in ns_insts if i["n"] <= 12 and i["arcs"] and not i.get("shape") and i.get("max_iter") is None and i.get("oracle") is None][:300], ns_edit, "ns", "network_simplex"),
        ([i for i in as_insts if i["matrix"] and i["matrix"][0] and len(i["matrix"]) <= 5 and not i.get("shape") and "expect_opt" not in i and "magnitude" not in i.get("tag", "")][:200], as_edit, "assign", "solve_assignment"))
    for pool, fn, kind, name in pools:
        if not pool:
            continue
        for _ in range(count):
            inst = rng.choice(pool)
            r = guarded(fn, inst, timeout=10)
            ctx.evaluations += 1
            ctx.count("edit_sequences", kind)
            bad = r[1] if r[0] == "ok" else f"edit sequence did not complete: {r}"
            if bad:
                ctx.violation(f"{name} (in-place edit between calls): {bad}", {"kind": kind, **inst, "sequence": "edit"})
                break


# ---------------------------------------------------------------- class O: max_iter sweeps
def ns_sweep(rng, count):
    """Instances needing several pivots, each run with max_iter = 0 .. pivots + 2 and around the default."""
    out = []
    tries = 0
    while len(out) < count and tries < 400:
        tries += 1
        inst = gen_ns(rng)
        if inst["n"] < 3 or len(inst["arcs"]) < 4:
            continue
        inst["max_iter"] = None
        inst.pop("shape", None)
        r = guarded(run_ns_impl, inst, timeout=5)
        if r[0] != "ok" or not (5 <= r[1]["iterations"] <= 40):
            continue
        k = r[1]["iterations"]
        for mi in list(range(0, k + 3)) + [DEFAULT_MAX_ITER - 1, DEFAULT_MAX_ITER, DEFAULT_MAX_ITER + 1]:
            out.append(dict(inst, max_iter=mi, tag="sweep/" + inst["tag"]))
    return out


# ====================================================================================== implementation runs
def relabel(inst):
    """First-occurrence numbering of the node labels (source, sink, then the graph in iteration order) and the arc
    list in the order `for u in graph: for (v, cap, c) in graph[u]`.  n = len(nodes) of the implementation."""
    num = {}

    def idx(x):
        if x not in num:
            num[x] = len(num)
        return num[x]

    idx(inst["source"])
    idx(inst["sink"])
    arcs = []
    for k, out in inst["graph"]:
        idx(k)
        for v, cap, c in out:
            arcs.append((idx(k), idx(v), cap, c))
    return len(num), arcs, num


def _int(x):
    if isinstance(x, bool):
        return None
    if isinstance(x, int):
        return x
    if isinstance(x, float) and x == x and abs(x) != float("inf") and x == int(x):
        return int(x)
    return None


def _pack(res):
    return {"status": res.status.name, "flows": [[k[0], k[1], f] for k, f in res.solution.items()] if isinstance(res.solution, dict) else res.solution,
            "objective": res.objective, "iterations": res.iterations}


def _snap_graph(g):
    return repr((type(g).__name__, [(k, type(v).__name__, [(type(a).__name__, tuple(a)) for a in v]) for k, v in g.items()]))


def run_mcf_impl(inst):
    """min_cost_flow on freshly materialised objects.  Class A: the caller's graph must be left as it was, and a second call
    on the very same objects must give the same answer ("side" names what went wrong)."""
    from solvor.flow import min_cost_flow

    g, s, t, back = materialise(inst)
    before = _snap_graph(g)
    out = _pack(min_cost_flow(g, s, t, mcf_demand(inst)))
    side = None
    if _snap_graph(g) != before:
        side = "the caller's graph was modified"
    elif not inst.get("once"):
        out2 = _pack(min_cost_flow(g, s, t, mcf_demand(inst)))
        if repr(out2) != repr(out):
            side = f"a second call on the same objects returned {out2}"
    if isinstance(out["flows"], list):
        out["flows"] = [[back[u], back[v], f] for u, v, f in out["flows"]]  # KeyError = flow on an unknown label
    out["side"] = side
    return out


NS_SHAPES = [None, None, None, {"arcs": "tuple"}, {"arc": "list"}, {"sup": "tuple"}, {"cost_float": True}, {"sup_float": True},
             {"arcs": "tuple", "arc": "list", "sup": "tuple", "cost_float": True, "sup_float": True}]


def ns_args(inst):
    sh = inst.get("shape") or {}
    arc_t = list if sh.get("arc") == "list" else tuple
    cf = float if sh.get("cost_float") else (lambda c: c)
    capf = float if sh.get("cap_float") else (lambda c: c)
    special = sh.get("special") or {}
    arcs = []
    for k, a in enumerate(inst["arcs"]):
        cap, c = capf(a[2]), cf(a[3])
        if str(k) in special:
            cap, c = special_value(special[str(k)], cap, c)
        arcs.append(arc_t((a[0], a[1], cap, c)))
    if sh.get("arcs") == "tuple":
        arcs = tuple(arcs)
    sup = [float(x) for x in inst["supplies"]] if sh.get("sup_float") else list(inst["supplies"])
    if sh.get("sup_negzero"):
        sup = [-0.0 if x == 0 else x for x in sup]
    if sh.get("sup") == "tuple":
        sup = tuple(sup)
    return arcs, sup


def run_ns_impl(inst):
    from solvor.network_simplex import network_simplex

    kw = {} if inst.get("max_iter") is None else {"max_iter": inst["max_iter"]}
    if kw and (inst.get("shape") or {}).get("max_iter_float"):
        kw = {"max_iter": float(inst["max_iter"])}
    arcs, sup = ns_args(inst)
    before = copy.deepcopy((arcs, sup))
    out = _pack(network_simplex(inst["n"], arcs, sup, **kw))
    side = None
    if (arcs, sup) != before or repr((arcs, sup)) != repr(before):
        side = "the caller's arcs / supplies were modified"
    elif not inst.get("once"):
        out2 = _pack(network_simplex(inst["n"], arcs, sup, **kw))
        if repr(out2) != repr(out):
            side = f"a second call on the same objects returned {out2}"
    out["side"] = side
    return out


ASSIGN_SHAPES = [None, None, {"rows": "tuple"}, {"rows": "tuple", "mat": "tuple"}, {"float": True}, {"float": True, "rows": "tuple"}]


def run_assign_impl(inst):
    from solvor.flow import solve_assignment

    sh = inst.get("shape") or {}
    num = float if sh.get("float") else (lambda c: c)
    row_t = tuple if sh.get("rows") == "tuple" else list
    sp = sh.get("special") or {}
    xv = {"inf": float("inf"), "nan": float("nan"), "negzero": -0.0}
    mat = [row_t(xv[sp[f"{i},{j}"]] if f"{i},{j}" in sp else num(x) for j, x in enumerate(r)) for i, r in enumerate(inst["matrix"])]
    if sh.get("mat") == "tuple":
        mat = tuple(mat)
    before = copy.deepcopy(mat)

    def pack(res):
        return {"status": res.status.name, "assignment": list(res.solution), "objective": res.objective, "iterations": res.iterations}

    out = pack(solve_assignment(mat))
    side = None
    if repr(mat) != repr(before):
        side = "the caller's cost matrix was modified"
    else:
        out2 = pack(solve_assignment(mat))
        if repr(out2) != repr(out):
            side = f"a second call on the same objects returned {out2}"
    out["side"] = side
    return out


# ====================================================================================== independent oracle
def _feasibility(n, arcs, supplies):
    """BFS augmenting paths from a super source to a super sink.  Returns (arc flows, amount routed, amount
    needed, set of real nodes reachable from the super source in the final residual graph)."""
    s, t = n, n + 1
    to, cap, adj = [], [], [[] for _ in range(n + 2)]

    def add(u, v, c):
        adj[u].append(len(to))
        to.append(v)
        cap.append(c)
        adj[v].append(len(to))
        to.append(u)
        cap.append(0)

    for u, v, c, _ in arcs:
        add(u, v, c)
    need = 0
    for i, b in enumerate(supplies):
        if b > 0:
            add(s, i, b)
            need += b
        elif b < 0:
            add(i, t, -b)
    sent = 0
    while True:
        prev = {s: -1}
        q = deque([s])
        while q and t not in prev:
            x = q.popleft()
            for e in adj[x]:
                if cap[e] > 0 and to[e] not in prev:
                    prev[to[e]] = e
                    q.append(to[e])
        if t not in prev:
            reach = {x for x in prev if x < n}
            break
        path, x = [], t
        while x != s:
            path.append(prev[x])
            x = to[prev[x] ^ 1]
        d = min(cap[e] for e in path)
        for e in path:
            cap[e] -= d
            cap[e ^ 1] += d
        sent += d
    return [cap[2 * k + 1] for k in range(len(arcs))], sent, need, reach


def exact_min_cost(n, arcs, supplies):
    """(min cost, an optimal per-arc flow) of a feasible integral flow, or (None, None) when there is none.
    Feasibility by max-flow, optimality by cancelling negative residual cycles (Klein)."""
    if sum(supplies) != 0:
        return None, None
    f, sent, need, _ = _feasibility(n, arcs, supplies)
    if sent != need:
        return None, None
    m = len(arcs)
    while True:
        dist = [0] * n
        pe = [None] * n
        last = None
        for _ in range(n):
            last = None
            for k, (u, v, c, w) in enumerate(arcs):
                if f[k] < c and dist[u] + w < dist[v]:
                    dist[v], pe[v], last = dist[u] + w, (k, 1), v
                if f[k] > 0 and dist[v] - w < dist[u]:
                    dist[u], pe[u], last = dist[v] - w, (k, -1), u
            if last is None:
                break
        if last is None:
            break
        x = last
        for _ in range(n):
            k, sg = pe[x]
            x = arcs[k][0] if sg == 1 else arcs[k][1]
        cyc, y = [], x
        while True:
            k, sg = pe[y]
            cyc.append((k, sg))
            y = arcs[k][0] if sg == 1 else arcs[k][1]
            if y == x:
                break
        d = min((arcs[k][2] - f[k]) if sg == 1 else f[k] for k, sg in cyc)
        assert d > 0 and sum(sg * arcs[k][3] for k, sg in cyc) < 0
        for k, sg in cyc:
            f[k] += sg * d
    return sum(f[k] * arcs[k][3] for k in range(m)), f


def brute_min_cost(n, arcs, supplies):
    size = 1
    for a in arcs:
        size *= a[2] + 1
        if size > BRUTE_LIMIT:
            return "skip"
    best = None
    for f in itertools.product(*[range(a[2] + 1) for a in arcs]):
        bal = [0] * n
        for x, (u, v, _, _) in zip(f, arcs):
            bal[u] += x
            bal[v] -= x
        if bal == list(supplies):
            z = sum(x * a[3] for x, a in zip(f, arcs))
            if best is None or z < best:
                best = z
    return best


def optimum_of(n, arcs, supplies):
    opt, _ = exact_min_cost(n, arcs, supplies)
    b = brute_min_cost(n, arcs, supplies)
    if b != "skip":
        assert b == opt, ("oracle disagrees with brute force", n, arcs, supplies, opt, b)
    return opt, b != "skip"


def split_pooled(arcs, flows):
    """Cheapest per-arc split of a pooled {(u, v): flow} dictionary (parallel arcs: cheapest first).  Returns
    (per-arc flow list, None) or (None, reason)."""
    f = [0] * len(arcs)
    groups = {}
    for k, (u, v, c, w) in enumerate(arcs):
        groups.setdefault((u, v), []).append((w, k, c))
    seen = set()
    for u, v, x in flows:
        if (u, v) in seen:
            return None, f"duplicate key {(u, v)}"
        seen.add((u, v))
        xi = _int(x)
        if xi is None or xi <= 0:
            return None, f"flow {x!r} on {(u, v)} is not a positive integer"
        if (u, v) not in groups:
            return None, f"flow {x} on non-existent arc {(u, v)}"
        for w, k, c in sorted(groups[(u, v)]):
            y = min(xi, c)
            f[k] = y
            xi -= y
        if xi > 0:
            return None, f"flow {x} on {(u, v)} exceeds the (pooled) capacity {sum(c for _, _, c in groups[(u, v)])}"
    return f, None


CERT = "cert"  # `optimum` value: decide feasibility by max-flow and optimality by the absence of a negative residual cycle


def judge(n, arcs, supplies, out, optimum, allow_max_iter=False):
    """The property itself.  out = {"status", "flows" [[u, v, f]] (node numbers) | None, "objective"}.  None = fine.
    optimum: exact minimum cost (None = no feasible flow), or CERT for instances too large for the exact oracles."""
    st = out["status"]
    if out.get("side"):
        return out["side"]
    if optimum == CERT:
        _, sent, need, _ = _feasibility(n, arcs, supplies)
        if sum(supplies) != 0 or sent != need:
            optimum = None
    if st == "MAX_ITER" and allow_max_iter:
        if out["flows"] is None:
            return None
    elif optimum is None:
        return None if st == "INFEASIBLE" else f"no feasible flow exists but status={st} objective={out['objective']}"
    elif st != "OPTIMAL":
        return f"a feasible flow exists (optimum {optimum}) but status={st}"
    if optimum is None:
        return f"no feasible flow exists but a flow was returned with status={st}"
    if not isinstance(out["flows"], list):
        return f"solution is {out['flows']!r}"
    f, why = split_pooled(arcs, out["flows"])
    if f is None:
        return why
    bal = [0] * n
    for k, (u, v, _, _) in enumerate(arcs):
        bal[u] += f[k]
        bal[v] -= f[k]
    if bal != list(supplies):
        return f"flow {_short(out['flows'])} has node balances {_short(bal)}, required {_short(list(supplies))}"
    cost = sum(f[k] * arcs[k][3] for k in range(len(arcs)))
    obj = _int(out["objective"])
    if obj is None or obj != cost:
        return f"flow {_short(out['flows'])} costs {cost} (cheapest split over parallel arcs) but objective={out['objective']!r}"
    if st == "OPTIMAL":
        if optimum != CERT and cost != optimum:
            return f"objective {cost} but the minimum is {optimum}"
        if (optimum == CERT or n * len(arcs) <= 2_000_000) and potentials(n, arcs, f) is None:
            return f"objective {cost} is not the minimum: the residual graph of the returned flow has a negative cycle"
    elif optimum != CERT and cost < optimum:
        return f"objective {cost} below the minimum {optimum}"
    return None


def _short(x, k=12):
    return x if len(x) <= k else f"{x[:k]}... ({len(x)} entries)"


def potentials(n, arcs, f):
    """Bellman-Ford from a virtual root on the residual graph of f: pi with cost + pi[tail] - pi[head] >= 0 on every
    residual edge, or None when the residual graph has a negative cycle."""
    dist = [0] * n
    for _ in range(n + 1):
        upd = False
        for k, (u, v, c, w) in enumerate(arcs):
            if f[k] < c and dist[u] + w < dist[v]:
                dist[v] = dist[u] + w
                upd = True
            if f[k] > 0 and dist[v] - w < dist[u]:
                dist[u] = dist[v] - w
                upd = True
        if not upd:
            return dist
    return None


def cut_witness(n, arcs, supplies):
    """Node set S (indicator list) certifying infeasibility: more must leave S than its outgoing capacity allows
    (or, for an unbalanced vector with negative total, S = all nodes must take in more than can enter)."""
    if sum(supplies) != 0:
        return [True] * n
    _, _, _, reach = _feasibility(n, arcs, supplies)
    return [i in reach for i in range(n)]


def assignment_optimum(mat):
    n = len(mat)
    m = len(mat[0]) if n else 0
    if n <= m:
        return min(sum(mat[i][p[i]] for i in range(n)) for p in itertools.permutations(range(m), n))
    return min(sum(mat[p[j]][j] for j in range(m)) for p in itertools.permutations(range(n), m))


def judge_assign(mat, out, inst=None):
    n = len(mat)
    m = len(mat[0]) if n else 0
    k = min(n, m)
    sol = out["assignment"]
    used = [j for j in sol if j != -1]
    if out.get("side"):
        return out["side"]
    if out["status"] != "OPTIMAL":
        return f"status {out['status']}"
    if len(sol) != n or len(used) != k or len(set(used)) != k or not all(isinstance(j, int) and 0 <= j < m for j in used):
        return f"{sol} is not a matching of {k} pairs"
    cost = sum(mat[i][j] for i, j in enumerate(sol) if j != -1)
    if inst and "expect_opt" in inst:  # planted unique optimum (too large for enumeration)
        want = inst["expect_opt"]
        if cost == want and sol != inst["expect_assignment"]:
            return f"assignment {sol} differs from the unique optimum {inst['expect_assignment']}"
    else:
        want = assignment_optimum(mat)
    if _int(out["objective"]) != cost:
        return f"assignment {sol} costs {cost} but objective={out['objective']!r}"
    if cost != want:
        return f"assignment {sol} costs {cost}, the optimum is {want}"
    return None


# ====================================================================================== Coq terms
def c_arc(a):
    return f"({cnat(a[0])}, {cnat(a[1])}, {cz(a[2])}, {cz(a[3])})"


def c_dict(flows):
    return clist(flows, lambda x: f"({cnat(x[0])}, {cnat(x[1])}, {cz(x[2])})")


def _flows_ok(flows):
    return isinstance(flows, list) and all(isinstance(x[0], int) and isinstance(x[1], int) and x[0] >= 0 and x[1] >= 0 and _int(x[2]) is not None for x in flows)


def c_mcf_result(out):
    """option Mcf.result of an implementation outcome; anything the model cannot express (hang, exception,
    non-integral value, other status) is None, which the model produces only when it runs out of fuel."""
    if out is None:
        return "None"
    it = _int(out["iterations"])
    if out["status"] == "INFEASIBLE" and out["flows"] == [] and it is not None:
        return f"(Some (Mcf.Build_result Mcf.INFEASIBLE [] 0%Z {cz(it)}))"
    obj = _int(out["objective"])
    if out["status"] == "OPTIMAL" and _flows_ok(out["flows"]) and obj is not None and it is not None:
        return f"(Some (Mcf.Build_result Mcf.OPTIMAL {c_dict(out['flows'])} {cz(obj)} {cz(it)}))"
    return "None"


def c_assign_result(out):
    if out is None:
        return "None"
    it, obj = _int(out["iterations"]), _int(out["objective"])
    if out["status"] == "OPTIMAL" and obj is not None and it is not None and all(isinstance(j, int) for j in out["assignment"]):
        return f"(Some (Mcf.Build_aresult Mcf.OPTIMAL {clist(out['assignment'], cz)} {cz(obj)} {cz(it)}))"
    if out["status"] == "INFEASIBLE" and it is not None:
        return f"(Some (Mcf.Build_aresult Mcf.INFEASIBLE {clist(out['assignment'], cz)} 0%Z {cz(it)}))"
    return "None"


NS_STATUS = {"OPTIMAL": "NetSimplex.OPTIMAL", "INFEASIBLE": "NetSimplex.INFEASIBLE", "MAX_ITER": "NetSimplex.MAX_ITER"}


def c_ns_result(out):
    """option NetSimplex.result: status, solution (None | Some dict), objective (ignored when there is no solution),
    iterations."""
    if out is None or out["status"] not in NS_STATUS:
        return "None"
    it = _int(out["iterations"])
    if it is None:
        return "None"
    if out["flows"] is None:
        return f"(Some (NetSimplex.Build_result {NS_STATUS[out['status']]} None 0%Z {cz(it)}))"
    obj = _int(out["objective"])
    if not _flows_ok(out["flows"]) or obj is None:
        return "None"
    return f"(Some (NetSimplex.Build_result {NS_STATUS[out['status']]} (Some {c_dict(out['flows'])}) {cz(obj)} {cz(it)}))"


def tup(*xs):
    return "(" + ", ".join(xs) + ")"


# ====================================================================================== cases
def mcf_case(inst):
    """Run one min_cost_flow instance: implementation, oracle verdict, Coq case strings."""
    n, arcs, num = relabel(inst)
    s, t, d = num[inst["source"]], num[inst["sink"]], inst["demand"]
    res = guarded(run_mcf_impl, inst, timeout=inst.get("timeout", 5))
    out = None
    bad = None
    if res[0] != "ok":
        bad = f"min_cost_flow did not return a result: {res}"
    else:
        out = dict(res[1])
        try:
            if isinstance(out["flows"], list):
                out["flows"] = [[num[u], num[v], f] for u, v, f in out["flows"]]
        except KeyError as e:
            bad = f"flow on an unknown node {e}"
            out = None
    supplies = [_d(i, s, t, d) for i in range(n)]
    optimum, cross = oracle_for(inst, n, arcs, supplies)
    if out is not None and bad is None:
        bad = judge(n, arcs, supplies, out, optimum)
    return {"inst": inst, "n": n, "arcs": arcs, "s": s, "t": t, "d": d, "supplies": supplies, "out": out, "raw": res if res[0] != "ok" else None,
            "bad": bad, "optimum": optimum, "cross": cross}


def oracle_for(inst, n, arcs, supplies):
    """(optimum, cross-checked by brute force?)  inst["oracle"]: absent = exact (Klein + brute force where small);
    "expect" = known by construction (inst["expect_opt"], None = infeasible), still cross-checked by the exact oracle when
    inst["exact_ok"]; "cert" = max-flow feasibility + no negative residual cycle (any size / magnitude)."""
    mode = inst.get("oracle")
    if mode == "cert":
        return CERT, False
    if mode == "expect":
        exp = inst["expect_opt"]
        if inst.get("exact_ok"):
            opt, cross = optimum_of(n, arcs, supplies)
            assert opt == exp, ("construction and exact oracle disagree", inst, opt, exp)
            return exp, cross
        return exp, False
    return optimum_of(n, arcs, supplies)


def load_corpus():
    d = VERIF / "corpus" / "C09"
    out = []
    if d.exists():
        for f in sorted(d.glob("*.json")):
            o = json.loads(f.read_text())
            out.append(o)
    return out


def ns_case(inst):
    n, arcs, sup = inst["n"], [tuple(a) for a in inst["arcs"]], list(inst["supplies"])
    res = guarded(run_ns_impl, inst, timeout=inst.get("timeout", 5))
    out, bad = None, None
    if res[0] != "ok":
        bad = f"network_simplex did not return a result: {res}"
    else:
        out = dict(res[1])
    optimum, cross = oracle_for(inst, n, arcs, sup)
    if out is not None:
        if inst.get("max_iter") is None and _int(out["iterations"]) is not None and out["iterations"] >= DEFAULT_MAX_ITER:
            bad = f"cycled until the default iteration limit (status {out['status']})"
        else:
            bad = judge(n, arcs, sup, out, optimum, allow_max_iter=inst.get("max_iter") is not None)
            if bad is None and out["status"] == "MAX_ITER" and inst.get("max_iter") is not None and out["iterations"] != inst["max_iter"]:
                bad = f"status MAX_ITER after {out['iterations']} iterations with max_iter={inst['max_iter']}"
    return {"inst": inst, "n": n, "arcs": arcs, "supplies": sup, "out": out, "bad": bad, "optimum": optimum, "cross": cross,
            "raw": res if res[0] != "ok" else None}


def assign_case(inst):
    res = guarded(run_assign_impl, inst, timeout=5)
    out, bad = None, None
    if res[0] != "ok":
        bad = f"solve_assignment did not return a result: {res}"
    else:
        out = res[1]
        bad = judge_assign(inst["matrix"], out, inst)
    return {"inst": inst, "out": out, "bad": bad, "raw": res if res[0] != "ok" else None}


def assign_potentials(mat, asg):
    """potentials for the assignment network of Mcf.assign_arcs (nodes source 0, sink 1, L_i = 2+i, R_j = 2+n+j)."""
    n = len(mat)
    m = len(mat[0]) if n else 0
    arcs = [(0, 2 + i, 1, 0) for i in range(n)] + [(2 + i, 2 + n + j, 1, mat[i][j]) for i in range(n) for j in range(m)] + \
           [(2 + n + j, 1, 1, 0) for j in range(m)]
    used = {j for j in asg if j != -1}
    f = [1 if asg[i] != -1 else 0 for i in range(n)] + [1 if asg[i] == j else 0 for i in range(n) for j in range(m)] + \
        [1 if j in used else 0 for j in range(m)]
    return potentials(2 + n + m, arcs, f) or [0] * (2 + n + m)


MCF_T = "nat * list Mcf.arc * nat * nat * Z * option Mcf.result"
MCF_CHK = "fun c => let '(n, arcs, s, t, d, impl) := c in Mcf.opt_eqb Mcf.result_eqb (Mcf.mcf n arcs s t d) impl"
OPT_T = "nat * list Mcf.arc * list Z * list (nat * nat * Z) * Z * list Z * list Z"
OPT_CHK = "fun c => let '(n, arcs, sup, d, cost, f, pi) := c in McfSpec.optimal_check n arcs (McfSpec.supply_b sup) d cost f pi"
CUT_T = "nat * list Mcf.arc * list Z * list bool"
CUT_CHK = "fun c => let '(n, arcs, sup, cut) := c in McfSpec.cut_check n arcs (McfSpec.supply_b sup) cut"
ASG_T = "list (list Z) * option Mcf.aresult"
ASG_CHK = "fun c => Mcf.opt_eqb Mcf.aresult_eqb (Mcf.solve_assignment (fst c)) (snd c)"
ASGC_T = "list (list Z) * list Z * Z * list Z"
ASGC_CHK = "fun c => let '(M, asg, cost, pi) := c in AssignSpec.assignment_check M asg cost pi"
NS_T = "nat * list Mcf.arc * list Z * Z * option NetSimplex.result"
NS_CHK = "fun c => let '(n, arcs, sup, mi, impl) := c in Mcf.opt_eqb NetSimplex.result_eqb (NetSimplex.network_simplex n arcs sup mi) impl"


def certificate_case(n, arcs, supplies, out):
    """Coq case for the sound checker matching the implementation's verdict: ('opt', term) | ('cut', term) | None."""
    if out is None or n * max(1, len(arcs)) > 20000 or len(arcs) > 300:  # keep the in-kernel evaluation cheap (pooled_b is quadratic)
        return None
    if out["status"] == "INFEASIBLE":
        S = cut_witness(n, arcs, supplies)
        return ("cut", tup(cnat(n), clist(arcs, c_arc), clist(supplies, cz), clist(S, cbool)))
    if out["status"] in ("OPTIMAL",) and _flows_ok(out["flows"]) and _int(out["objective"]) is not None:
        f, _ = split_pooled(arcs, out["flows"])
        if f is None:
            f = [0] * len(arcs)
        pi = potentials(n, arcs, f) or [0] * n
        return ("opt", tup(cnat(n), clist(arcs, c_arc), clist(supplies, cz), c_dict(out["flows"]), cz(_int(out["objective"])),
                           clist(f, cz), clist(pi, cz)))
    return None


class _CoqJob:
    """ctx.coq_check is synchronous; the six batches of this module are independent, so each runs in its own thread on a private
    stand-in for the counters coq_check touches (merged into ctx afterwards; if core.py ever needs more than these attributes the batch
    simply runs on ctx itself, sequentially)."""

    def __init__(self, ctx, tag, typ, chk, terms, shard):
        import threading

        self.ctx, self.args, self.failing, self.error = ctx, (tag, IMPORTS, typ, chk, terms), None, None
        self.shard = shard
        self.casedir, self.checker_cmds, self.obligations, self.discharged, self.internal_errors = ctx.casedir, [], 0, 0, []
        self.thread = threading.Thread(target=self._run)
        self.thread.start()

    def _run(self):
        try:
            self.failing = Ctx.coq_check(self, *self.args, shard=self.shard)
        except AttributeError as e:
            self.error = e

    def result(self):
        self.thread.join()
        if self.error is not None:
            return self.ctx.coq_check(*self.args, shard=self.shard)
        c = self.ctx
        c.checker_cmds += self.checker_cmds
        c.obligations += self.obligations
        c.discharged += self.discharged
        c.internal_errors += self.internal_errors
        return self.failing


def observed(ctx, name, c):
    """Observation-only cases (non-finite data, network_simplex costs beyond its float-exact zone): outside the property by the
    coordinator's decision; whatever happens is counted, never a violation."""
    if c["raw"] is not None:
        what = "hang (cut by the guard)" if c["raw"][0] == "hang" else f"raised {c['raw'][1]}"
    else:
        what = ("would pass" if not c["bad"] else "would fail") + f" ({c['out']['status']})"
    ctx.count("observation_only", f"{name}: {what}")


def ns_exact_zone(n, arcs):
    """network_simplex keeps potentials as floats of magnitude big-M = sum|cost| * n + 1: integers stay exact below 2^53."""
    return (sum(abs(a[3]) for a in arcs) * n + 1) * 4 < 2 ** 53


def has_multi(arcs):
    pairs = [(a[0], a[1]) for a in arcs]
    return len(set(pairs)) < len(pairs) or any((v, u) in pairs for u, v in pairs if u != v)


def run(ctx: Ctx):
    ctx.rule = ("random networks (2..6 nodes, <= 9/10 arcs quick; ..8 nodes, <= 15 arcs thorough; capacities 0..4; costs zero / unit / "
                "non-negative / potential differences + non-negative part (negative arcs, no negative cycle); shapes random, dense, "
                "parallel, anti-parallel, layered, path, zero-capacity, saturated, sink-less, detour; demand 0..4 or max-flow(+1); supplies "
                "induced by a flow / saturating / unit pairs / zero / unbalanced; max_iter 0..5 on 12 % of the network_simplex runs; "
                "assignment matrices 0..4 x 0..4); round-2 families: label objects (None / falsy / big ints / fresh tuples, strings, frozensets / "
                "mixed), container and number-format variants, magnitudes up to 10^18 by construction, large chains / parallel arcs / planted "
                "assignments, max_iter sweeps, call sequences on shared objects, event-directed search (29 events) + event corpus. non-trivial = min_cost_flow run with >= 2 augmentations or a multi-arc pair or a "
                "negative arc or INFEASIBLE after >= 1 augmentation / network_simplex run with >= 2 iterations / assignment with "
                "n, m >= 2; distinct = canonical JSON of the instance")
    # class W: the heavy work-volume instances run in forked workers while the proof steps compile
    import multiprocessing as _mp
    recipes = heavy_recipes(ctx.rng, ctx.tier == "thorough")
    pool = _mp.get_context("fork").Pool(min(6, len(recipes)))
    heavy_async = [pool.apply_async(heavy_worker, (r,)) for r in recipes]
    pool.close()
    ctx.proof_step(["C09"])
    if (COQ / "Props" / "C09_deep.v").exists(): ctx.proof_step(["C09"], props_file="Props/C09_deep.v")
    if (COQ / "Props" / "C09_deep2.v").exists(): ctx.proof_step(["C09"], props_file="Props/C09_deep2.v")
    import time as _time
    t_mark = [_time.time()]
    timing = ctx.extra.setdefault("timing_s", {})

    def lap(name):
        timing[name] = round(_time.time() - t_mark[0], 1)
        t_mark[0] = _time.time()

    lap("proof_steps")
    big = ctx.tier == "thorough"
    n_mcf = ctx.budget(330, 6000)
    n_ns = ctx.budget(330, 6000)
    n_as = ctx.budget(100, 1500)

    corpus = load_corpus()
    for fnd in ctx.open_findings():
        ctx.notes.append(f"open known finding {fnd.get('id')} has no executable class predicate in this module: not excused")
    mcf_insts = [o for o in corpus if o.get("kind") == "mcf"] + fixed_mcf() + [gen_mcf(ctx.rng, big) for _ in range(n_mcf)]
    ns_insts = [o for o in corpus if o.get("kind") == "ns"] + fixed_ns() + [gen_ns(ctx.rng, big) for _ in range(n_ns)]
    as_insts = [o for o in corpus if o.get("kind") == "assign"] + fixed_assign() + [gen_assign(ctx.rng, big) for _ in range(n_as)]
    # round-2 families (HARDENING.md): M magnitudes, S sizes, O option sweeps; L labels / I containers / A aliasing ride on every case
    n_mag = 60 if not big else 700  # round-2 families have fixed sizes per tier (not tripled on drift: the base families are)
    mcf_insts += [gen_mcf_magnitude(ctx.rng) for _ in range(n_mag)]
    ns_insts += [gen_ns_magnitude(ctx.rng) for _ in range(3 * n_mag)]
    as_insts += [gen_assign_magnitude(ctx.rng) for _ in range(n_mag // 2)]
    n_x = 50 if not big else 500
    mcf_insts += [gen_mcf_x(ctx.rng) for _ in range(n_x)]
    ns_insts += [gen_ns_x(ctx.rng) for _ in range(n_x)]
    as_insts += [gen_assign_x(ctx.rng) for _ in range(n_x // 2)]
    ns_insts += [gen_ns_beyond(ctx.rng) for _ in range(12 if not big else 100)]
    rng = ctx.rng
    mcf_insts += [large_mcf(rng, 17, "chain", o) for o in ("reverse", "zigzag", "shuffle", "forward")]
    mcf_insts += [large_mcf(rng, 65, "chain", "reverse"), large_mcf(rng, 65, "chain", "zigzag"), large_mcf(rng, 65, "chain2", "zigzag"),
                  large_mcf(rng, 66, "chain2", "reverse"), large_mcf(rng, 257, "chain", "zigzag"), large_mcf(rng, 513, "chain", "reverse"),
                  large_mcf(rng, 257, "parallel"), large_mcf(rng, 2049, "parallel"), large_mcf(rng, 1025, "chain", "forward")]
    ns_insts += [large_ns(rng, 17, "chain"), large_ns(rng, 65, "chain"), large_ns(rng, 257, "chain"), large_ns(rng, 1025, "chain")]
    ns_insts += [large_ns(rng, k, "random") for k in (9, 12, 12, 20, 40, 100)]
    as_insts += [large_assign(rng, 6, 6), large_assign(rng, 17, 17), large_assign(rng, 20, 20)]
    if big:
        mcf_insts += [large_mcf(rng, 1025, "chain", "reverse"), large_mcf(rng, 1025, "chain", "zigzag"), large_mcf(rng, 801, "chain2", "shuffle"),
                      large_mcf(rng, 65537, "parallel")]
        ns_insts += [large_ns(rng, 2049, "chain")] + [large_ns(rng, k, "random") for k in (20, 30, 60, 150, 257)]
        as_insts += [large_assign(rng, 33, 33)]
    ns_insts += ns_sweep(rng, 100 if not big else 900)
    mcf_insts += [assemble_mcf(rng, gen_mcf_zigzag(rng), labels="legacy" if rng.random() < 0.6 else rng.choice(LABEL_FAMILIES), shuffle=False)
                  for _ in range(50 if not big else 600)]
    ev_m, ev_n = event_cases(rng, 6000 if not big else 120000, 3 if not big else 12)
    mcf_insts += ev_m
    ns_insts += ev_n

    opt_cases, cut_cases = [], []  # (term, description)
    disagreements = []
    lap("generate")

    # ------------------------------------------------------------------ min_cost_flow
    mcf_terms, mcf_meta = [], []
    translated = 0
    hangs = {"mcf": 0, "ns": 0, "assign": 0}  # a solver that stopped returning costs 5 s per call: give up on it after a few
    for inst in mcf_insts:
        if hangs["mcf"] >= MAX_HANGS:
            break
        c = mcf_case(inst)
        hangs["mcf"] += c["raw"] is not None and c["raw"][0] == "hang" and not inst.get("observe")
        ctx.evaluations += 1
        if inst.get("observe"):
            observed(ctx, "min_cost_flow", c)
            continue
        out = c["out"]
        st = out["status"] if out else "no-result"
        ctx.count("mcf_status", st)
        ctx.count("mcf_nodes", c["n"])
        ctx.count("mcf_arcs", len(c["arcs"]))
        ctx.count("mcf_demand", min(c["d"], 6))
        if out:
            ctx.count("mcf_iterations", min(out["iterations"], 8))
        ctx.count("mcf_shape", "corpus" if inst.get("tag", "").startswith("corpus") else inst.get("tag", "fixed").split("/")[0])
        ctx.count("mcf_oracle", "infeasible" if c["optimum"] is None else "feasible")
        ctx.count("oracle_cross_checked_by_brute_force", c["cross"])
        ctx.count("mcf_labels", (inst.get("tag", "").split("/L:") + ["legacy"])[1] if "labels" in inst else "raw ints/strings")
        ctx.count("mcf_containers", json.dumps(inst.get("shape") or {}, sort_keys=True))
        ctx.count("oracle_kind", inst.get("oracle", "exact"))
        if c["n"] <= 70 and len(c["arcs"]) <= 300:
            ref = EV.mcf_ref(c["n"], c["arcs"], c["s"], c["t"], c["d"])
            for e in ref["events"]:
                ctx.count("event", e)
            for k, v in ref.get("work", {}).items():
                ctx.hist.setdefault("work_max", {})[k] = max(ctx.hist.get("work_max", {}).get(k, 0), v)
            if out and st in ("OPTIMAL", "INFEASIBLE"):
                ctx.count("reference_port_agrees", (ref["status"], ref.get("iterations")) == (st, out["iterations"])
                          and (st != "OPTIMAL" or ref["objective"] == _int(out["objective"])))
        if c["bad"]:
            ctx.violation(f"min_cost_flow: {c['bad']}", {"kind": "mcf", **inst, "impl": out or str(c["raw"]), "optimum": c["optimum"]})
        if out and (out["iterations"] >= 2 or has_multi(c["arcs"]) or any(a[3] < 0 for a in c["arcs"])) and (st == "OPTIMAL" or out["iterations"] >= 2):
            ctx.nontriv(("mcf", json.dumps(inst, sort_keys=True)))
        ctx.sample({"kind": "mcf", **inst, "impl": out}, 2)
        if not inst.get("no_model"):
            mcf_terms.append(tup(cnat(c["n"]), clist(c["arcs"], c_arc), cnat(c["s"]), cnat(c["t"]), cz(c["d"]), c_mcf_result(out)))
            mcf_meta.append(c)
        cc = certificate_case(c["n"], c["arcs"], c["supplies"], out)
        if cc:
            (opt_cases if cc[0] == "opt" else cut_cases).append((cc[1], ("mcf", inst, out)))
        # the same instance as a supply vector for network_simplex: both must report the same optimal cost
        if c["d"] >= 0 and out is not None and hangs["ns"] < MAX_HANGS and ns_exact_zone(c["n"], c["arcs"]):
            ns_inst = {"n": c["n"], "arcs": [list(a) for a in c["arcs"]], "supplies": c["supplies"], "max_iter": None, "tag": "from-mcf"}
            ns_inst.update({k: inst[k] for k in ("oracle", "expect_opt", "exact_ok") if k in inst})
            if inst.get("no_model") and (c["n"] > 40 or len(c["arcs"]) > 300):
                ns_inst["no_model"] = True
            r2 = guarded(run_ns_impl, ns_inst, timeout=5)
            ctx.evaluations += 1
            if c["arcs"] and (translated < 150 or big or inst.get("oracle") or "event" in inst.get("tag", "")):
                translated += 1
                ns_insts.append(ns_inst)  # also through the network_simplex model / oracle / certificates
            if r2[0] != "ok":
                hangs["ns"] += r2[0] == "hang"
                ctx.violation(f"network_simplex did not return a result on a min_cost_flow instance: {r2}", {"kind": "ns", **ns_inst})
            else:
                o2 = r2[1]
                same = (o2["status"] == st) and (st != "OPTIMAL" or _int(o2["objective"]) == _int(out["objective"]))
                ctx.count("agreement_mcf_vs_ns", "agree" if same else "differ")
                if not same:
                    ctx.violation(f"min_cost_flow says {st} cost {out['objective']}, network_simplex says {o2['status']} cost {o2['objective']} "
                                  f"(exact optimum {c['optimum']})", {"kind": "mcf", **inst, "impl": out, "ns_impl": o2, "optimum": c["optimum"]})
    lap("mcf_runs")
    job_mcf = _CoqJob(ctx, "mcf", MCF_T, MCF_CHK, mcf_terms, 120)  # compiled in the background while the next solvers run

    # ------------------------------------------------------------------ network_simplex
    ns_terms, ns_meta = [], []
    for inst in ns_insts:
        if hangs["ns"] >= MAX_HANGS:
            break
        c = ns_case(inst)
        hangs["ns"] += c["raw"] is not None and c["raw"][0] == "hang" and not inst.get("observe")
        ctx.evaluations += 1
        if inst.get("observe"):
            observed(ctx, "network_simplex", c)
            continue
        out = c["out"]
        st = out["status"] if out else "no-result"
        ctx.count("ns_status", st)
        ctx.count("ns_nodes", c["n"])
        ctx.count("ns_arcs", len(c["arcs"]))
        ctx.count("ns_supply_mode", "corpus" if inst.get("tag", "").startswith("corpus") else inst.get("tag", "fixed").split("/")[-1])
        ctx.count("ns_max_iter", inst.get("max_iter"))
        ctx.count("ns_oracle", "infeasible" if c["optimum"] is None else "feasible")
        ctx.count("oracle_cross_checked_by_brute_force", c["cross"])
        if out:
            ctx.count("ns_iterations", min(out["iterations"], 12))
        if c["bad"]:
            ctx.violation(f"network_simplex: {c['bad']}", {"kind": "ns", **inst, "impl": out or str(c["raw"]), "optimum": c["optimum"]})
        if out and out["iterations"] >= 2:
            ctx.nontriv(("ns", json.dumps(inst, sort_keys=True)))
        ctx.sample({"kind": "ns", **inst, "impl": out}, 4)
        mi = DEFAULT_MAX_ITER if inst.get("max_iter") is None else inst["max_iter"]
        ctx.count("ns_containers", json.dumps(inst.get("shape") or {}, sort_keys=True))
        if c["n"] <= 70 and len(c["arcs"]) <= 300:
            ref = EV.ns_ref(c["n"], c["arcs"], c["supplies"], mi)
            for e in ref["events"]:
                ctx.count("event", e)
            for k, v in ref.get("work", {}).items():
                ctx.hist.setdefault("work_max", {})[k] = max(ctx.hist.get("work_max", {}).get(k, 0), v)
            if out:
                ctx.count("reference_port_agrees", (ref["status"], ref.get("iterations")) == (out["status"], out["iterations"]))
        ctx.count("oracle_kind", inst.get("oracle", "exact"))
        if not inst.get("no_model"):
            ns_terms.append(tup(cnat(c["n"]), clist(c["arcs"], c_arc), clist(c["supplies"], cz), cz(mi), c_ns_result(out)))
            ns_meta.append(c)
        cc = certificate_case(c["n"], c["arcs"], c["supplies"], out) if inst.get("tag") != "from-mcf" or big else None  # (its twin was certified)
        if cc:
            (opt_cases if cc[0] == "opt" else cut_cases).append((cc[1], ("ns", inst, out)))
    lap("ns_runs")
    job_ns = _CoqJob(ctx, "ns", NS_T, NS_CHK, ns_terms, 120)

    # ------------------------------------------------------------------ solve_assignment
    as_terms, as_meta, asc_terms, asc_meta = [], [], [], []
    for inst in as_insts:
        if hangs["assign"] >= MAX_HANGS:
            break
        c = assign_case(inst)
        hangs["assign"] += c["raw"] is not None and c["raw"][0] == "hang" and not inst.get("observe")
        ctx.evaluations += 1
        if inst.get("observe"):
            observed(ctx, "solve_assignment", c)
            continue
        out = c["out"]
        mat = inst["matrix"]
        ctx.count("assign_shape", f"{len(mat)}x{len(mat[0]) if mat else 0}")
        ctx.count("assign_status", out["status"] if out else "no-result")
        if c["bad"]:
            ctx.violation(f"solve_assignment: {c['bad']}", {"kind": "assign", **inst, "impl": out})
        if len(mat) >= 2 and len(mat[0]) >= 2:
            ctx.nontriv(("assign", json.dumps(mat)))
        ctx.sample({"kind": "assign", **inst, "impl": out}, 5)
        ctx.count("assign_containers", json.dumps(inst.get("shape") or {}, sort_keys=True))
        if not inst.get("no_model"):
            as_terms.append(tup(clist(mat, lambda r: clist(r, cz)), c_assign_result(out)))
            as_meta.append(c)
        if out and out["status"] == "OPTIMAL" and _int(out["objective"]) is not None and all(isinstance(j, int) for j in out["assignment"]):
            pi = assign_potentials(mat, out["assignment"]) if c["bad"] is None else [0] * (2 + len(mat) + (len(mat[0]) if mat else 0))
            asc_terms.append(tup(clist(mat, lambda r: clist(r, cz)), clist(out["assignment"], cz), cz(_int(out["objective"])), clist(pi, cz)))
            asc_meta.append(c)
    lap("assign_runs")
    job_as = _CoqJob(ctx, "assign", ASG_T, ASG_CHK, as_terms, 300)
    # ------------------------------------------------------------------ sound checkers on implementation outputs
    job_opt = _CoqJob(ctx, "cert_opt", OPT_T, OPT_CHK, [t for t, _ in opt_cases], 120)
    job_cut = _CoqJob(ctx, "cert_cut", CUT_T, CUT_CHK, [t for t, _ in cut_cases], 120)
    job_asc = _CoqJob(ctx, "cert_assign", ASGC_T, ASGC_CHK, asc_terms, 300)
    alias_sequences(ctx, mcf_insts, ns_insts, 40 if not big else 400)
    edit_sequences(ctx, mcf_insts, ns_insts, as_insts, 60 if not big else 600)
    lap("call_sequences")
    for i in job_mcf.result():
        disagreements.append(("mcf", mcf_meta[i]))
    for i in job_ns.result():
        disagreements.append(("ns", ns_meta[i]))
    for i in job_as.result():
        disagreements.append(("assign", as_meta[i]))
    cert_fail = []
    for tag, job, cases in (("cert_opt", job_opt, opt_cases), ("cert_cut", job_cut, cut_cases)):
        failing = job.result()
        ctx.count("kernel_checked_certificates", tag, len(cases) - len(failing))
        for i in failing:
            cert_fail.append((tag, cases[i][1]))
    failing = job_asc.result()
    ctx.count("kernel_checked_certificates", "cert_assign", len(asc_terms) - len(failing))
    for i in failing:
        cert_fail.append(("cert_assign", ("assign", asc_meta[i]["inst"], asc_meta[i]["out"])))
    lap("coq_batches_wait")
    work_max = ctx.hist.setdefault("work_max", {})
    for r, h in zip(recipes, heavy_async):
        try:
            res = h.get(timeout=r.get("timeout", 150) + 60)
        except Exception as e:  # noqa: BLE001
            res = {"kind": "?", "recipe": r, "bad": f"worker did not finish: {type(e).__name__} {e}", "status": "no-result", "impl": None, "optimum": None, "work": {}}
        ctx.evaluations += 1
        ctx.count("work_family", f"{r['family']}/{r['size']}: {res['status']}")
        for k, v in res["work"].items():
            work_max[k] = max(work_max.get(k, 0), v)
        if res["bad"]:
            name = "min_cost_flow" if r["family"].startswith("mcf") else "network_simplex"
            ctx.violation(f"{name} (work volume {r['family']} size {r['size']}): {res['bad']}",
                          {"kind": "heavy", "recipe": r, "impl": res["impl"], "optimum": res["optimum"]})
        else:
            ctx.nontriv(("heavy", json.dumps(r, sort_keys=True)))
    pool.terminate()
    lap("work_volume_wait")
    ctx.notes.append("optimality / infeasibility of every implementation answer is re-checked inside coqc by McfSpec.optimal_check / "
                     "cut_check / AssignSpec.assignment_check (sound by McfCert theorems); the per-arc split of pooled flows, the "
                     "potentials and the cuts are untrusted witnesses computed by the harness")
    ctx.notes.append("outside the quantifier, not generated: negative-cost cycles of positive capacity (min_cost_flow does not return), "
                     "non-integer supplies (truncated by int()), source == sink (returns {} cost 0)")
    ctx.notes.append("observation only (outside the property, counted in `observation_only`, never a violation): inf capacities, inf / NaN costs "
                     "or matrix entries, and network_simplex on integer costs beyond its float-exact zone (sum|cost| * n + 1) * 4 >= 2^53 (its "
                     "potentials are floats by design; witness corpus/C09/o_ns-float-potentials.json).  Judged at any magnitude: min_cost_flow "
                     "and solve_assignment on integers (exact), network_simplex inside the zone, -0.0 and integral floats in every numeric argument")
    ctx.notes.append("the instrumented reference ports (mincost_events) only steer generation and fill the `event` histogram; they are never an oracle")
    ctx.notes.append("costs and capacities are Python ints; network_simplex keeps potentials as floats holding integers < 2^53 "
                     "(its -1e-9 pricing tolerance then means `< 0`), modelled over Z")

    # ------------------------------------------------------------------ disagreement -> search for a failing input
    if (disagreements or cert_fail or ctx.broken) and not ctx.violations:
        found = search(ctx, big)
        if not found:
            for kind, c in disagreements[:2]:
                inst = c["inst"]
                if kind == "mcf":
                    model = ctx.coq_eval("mcf_show", IMPORTS, f"Mcf.mcf {cnat(c['n'])} {clist(c['arcs'], c_arc)} {cnat(c['s'])} {cnat(c['t'])} {cz(c['d'])}")
                elif kind == "ns":
                    mi = DEFAULT_MAX_ITER if inst.get("max_iter") is None else inst["max_iter"]
                    model = ctx.coq_eval("ns_show", IMPORTS, f"NetSimplex.network_simplex {cnat(c['n'])} {clist(c['arcs'], c_arc)} {clist(c['supplies'], cz)} {cz(mi)}")
                else:
                    model = ctx.coq_eval("as_show", IMPORTS, f"Mcf.solve_assignment {clist(inst['matrix'], lambda r: clist(r, cz))}")
                ctx.violation(f"correspondence lemma {kind}: Gallina model and implementation differ (status / flow dictionary / objective / iterations)",
                              {"kind": kind, **inst, "impl": c["out"], "model": model, "lemma": f"Cases/C09/{kind}_*.v corr"}, no_input=True)
            for tag, (kind, inst, out) in cert_fail[:2]:
                ctx.violation(f"{tag}: the Coq checker rejects an implementation answer that the Python oracle accepted",
                              {"kind": kind, **inst, "impl": out, "lemma": f"Cases/C09/{tag}_*.v corr"}, no_input=True)


NS_MODEL = True
MAX_HANGS = 3


def search(ctx, big):
    """Much larger random budget, judged by the oracle only."""
    for k in range(6000):
        inst = gen_mcf(ctx.rng, True) if k % 3 else gen_mcf_magnitude(ctx.rng)
        c = mcf_case(inst)
        if c["bad"]:
            ctx.violation(f"min_cost_flow: {c['bad']}", {"kind": "mcf", **inst, "impl": c["out"], "optimum": c["optimum"]})
            return True
        inst = gen_ns(ctx.rng, True) if k % 3 else gen_ns_magnitude(ctx.rng)
        c = ns_case(inst)
        if c["bad"]:
            ctx.violation(f"network_simplex: {c['bad']}", {"kind": "ns", **inst, "impl": c["out"], "optimum": c["optimum"]})
            return True
        inst = gen_assign(ctx.rng, True)
        c = assign_case(inst)
        if c["bad"]:
            ctx.violation(f"solve_assignment: {c['bad']}", {"kind": "assign", **inst, "impl": c["out"]})
            return True
    return False


# ====================================================================================== fixed edge cases
def fixed_mcf():
    g = lambda d: [[k, [list(a) for a in v]] for k, v in d.items()]  # noqa: E731
    return [
        {"graph": g({0: [(1, 1, 1), (1, 1, 5)], 1: []}), "source": 0, "sink": 1, "demand": 2, "tag": "fixed"},
        {"graph": g({0: [(1, 2, 2), (1, 1, 0)], 1: [(0, 1, 3), (0, 1, 0)]}), "source": 0, "sink": 1, "demand": 1, "tag": "fixed"},
        {"graph": g({}), "source": "s", "sink": "t", "demand": 0, "tag": "fixed"},
        {"graph": g({}), "source": "s", "sink": "t", "demand": 1, "tag": "fixed"},
        {"graph": g({"s": [("t", 0, 1)]}), "source": "s", "sink": "t", "demand": 1, "tag": "fixed"},
        {"graph": g({"s": [("t", 3, -2)]}), "source": "s", "sink": "t", "demand": 3, "tag": "fixed"},
        {"graph": g({"s": [("a", 1, 1), ("b", 1, 3)], "a": [("b", 1, 1), ("t", 1, 3)], "b": [("t", 1, 1)]}), "source": "s", "sink": "t", "demand": 2, "tag": "fixed"},
        {"graph": g({"s": [("a", 4, 1)], "a": [("t", 2, 1)]}), "source": "s", "sink": "t", "demand": 3, "tag": "fixed"},
        {"graph": g({"t": [("s", 4, 1)]}), "source": "s", "sink": "t", "demand": 1, "tag": "fixed"},
    ]


def fixed_ns():
    mk = lambda n, arcs, sup, mi=None: {"n": n, "arcs": [list(a) for a in arcs], "supplies": sup, "max_iter": mi, "tag": "fixed"}  # noqa: E731
    return [
        mk(3, [(0, 1, 10, 2), (1, 2, 15, 1), (0, 2, 5, 3)], [10, 0, -10]),
        mk(2, [], [0, 0]),
        mk(2, [], [1, -1]),
        mk(2, [(0, 1, 3, 1)], [1, 0]),
        mk(2, [(0, 1, 3, 1)], [-1, 0]),
        mk(2, [(0, 1, 1, 1), (0, 1, 1, 5)], [2, -2]),
        mk(2, [(0, 1, 0, 1)], [1, -1]),
        mk(3, [(0, 1, 2, 1), (1, 2, 2, 1), (0, 2, 1, 5)], [3, 0, -3], 1),
        mk(1, [(0, 0, 2, 1)], [0]),
    ]


def fixed_assign():
    return [{"matrix": []}, {"matrix": [[], []]}, {"matrix": [[4, 2, 8], [4, 3, 7], [3, 1, 6]]}, {"matrix": [[1], [0], [2]]},
            {"matrix": [[3, 3], [3, 3]]}]


# ====================================================================================== replay
INST_KEYS = ("observe", "no_model", "graph", "source", "sink", "demand", "labels", "shape", "oracle", "expect_opt", "exact_ok", "n", "arcs", "supplies", "max_iter",
             "matrix", "expect_assignment", "tag")


def replay(obj):
    kind = obj.get("kind")
    if kind == "heavy":
        res = heavy_worker(dict(obj["recipe"], port=False))
        print("recipe:", obj["recipe"], "(instance: harness.props.C09.build_heavy(recipe))")
        print("implementation:", res["impl"], "expected optimum (by construction):", res["optimum"])
        print("oracle verdict:", res["bad"] or "ok")
        return 1 if res["bad"] else 0
    if kind == "mcf":
        c = mcf_case({k: obj[k] for k in INST_KEYS if k in obj})
        print("implementation:", c["out"] or c["raw"])
        print("exact optimum:", c["optimum"])
        if c["bad"] is None and c["out"] is not None and c["d"] >= 0:
            r2 = guarded(run_ns_impl, {"n": c["n"], "arcs": c["arcs"], "supplies": c["supplies"], "max_iter": None}, timeout=5)
            print("network_simplex on the same instance:", r2)
            if r2[0] != "ok" or r2[1]["status"] != c["out"]["status"] or (c["out"]["status"] == "OPTIMAL" and _int(r2[1]["objective"]) != _int(c["out"]["objective"])):
                c["bad"] = "min_cost_flow and network_simplex disagree"
    elif kind == "ns":
        c = ns_case({"max_iter": None, **{k: obj[k] for k in INST_KEYS if k in obj}})
        print("implementation:", c["out"] or c["raw"])
        print("exact optimum:", c["optimum"])
    elif kind == "assign":
        c = assign_case({k: obj[k] for k in INST_KEYS if k in obj})
        print("implementation:", c["out"])
    else:
        print("replay names an unchecked obligation:", obj.get("unchecked") or obj.get("what"))
        return 1
    print("oracle verdict:", c["bad"] or "ok")
    return 1 if c["bad"] else 0
