"""C09 - min-cost flow solvers return feasible flows of minimum cost and agree.

Tie to /repo: random small networks are run on solvor.flow.min_cost_flow / solve_assignment and
solvor.network_simplex.network_simplex (working tree); the same inputs are evaluated by the Gallina models
SV.C09.Mcf (min_cost_flow, solve_assignment) and SV.C09.NetSimplex (network_simplex) inside coqc (vm_compute)
and must give the same status / flow dictionary / objective / iteration count.
Independently of the models:
 (a) a Python oracle (max-flow feasibility + negative-cycle cancelling, cross-checked by brute-force
     enumeration of all integral arc flows on tiny instances) judges every implementation output against the
     property itself: integral flow within (pooled) capacities, conservation, demand / supplies met exactly,
     reported cost = sum cost*flow = minimum, INFEASIBLE iff no feasible flow, both solvers agree, every call
     returns;
 (b) the Coq boolean checkers McfSpec.optimal_check (feasibility + pooled dictionary + reported cost +
     non-negative reduced costs for node potentials; proved sound: the answer is a minimum-cost flow) and
     McfSpec.cut_check (a cut whose capacity is below what must cross it; proved sound: no feasible flow) are
     evaluated inside coqc on the IMPLEMENTATION's outputs; the per-arc split of pooled flows, the potentials and
     the cut are untrusted witnesses computed here.
"""
import itertools
import json
from collections import deque

from harness.core import COQ, Ctx, VERIF, cbool, clist, cnat, copt, cz, guarded

ID = "C09"
ANCHORS = ["solvor/flow.py", "solvor/network_simplex.py"]
IMPORTS = "From SV Require Import C09.Mcf C09.McfSpec C09.AssignSpec C09.NetSimplex."
BRUTE_LIMIT = 4000
DEFAULT_MAX_ITER = 1_000_000

SHAPES = ["random", "random", "dense", "parallel", "antipar", "layered", "path", "zero", "saturated", "sinkless", "detour"]
COSTMODES = ["nonneg", "nonneg", "zero", "unit", "potential", "potential", "potential", "wide"]


# ====================================================================================== generators
def _cost_fn(rng, n, mode):
    pot = [rng.randint(-3, 3) for _ in range(n)]

    def cost(u, v):
        if mode == "zero":
            return 0
        if mode == "unit":
            return 1
        if mode == "nonneg":
            return rng.randint(0, 4)
        if mode == "wide":
            return rng.randint(0, 20)
        # negative arcs, never a negative cycle: potential difference + non-negative part
        return pot[v] - pot[u] + rng.choice([0, 0, 0, 1, 2, 3])

    return cost


def _cap(rng, shape):
    if shape == "zero":
        return rng.choice([0, 0, 0, 1, 2])
    return rng.choice([0, 1, 1, 1, 2, 2, 3, 4])


def _raw_arcs(rng, n, shape, cost, max_arcs, s, t):
    arcs = []

    def add(u, v, cap=None):
        if len(arcs) < max_arcs:
            arcs.append((u, v, _cap(rng, shape) if cap is None else cap, cost(u, v)))

    def pair():
        u = rng.randrange(n)
        v = rng.randrange(n)
        while v == u and rng.random() < 0.95:
            v = rng.randrange(n)
        return u, v

    if shape in ("random", "zero", "saturated", "sinkless"):
        for _ in range(rng.randint(0, max_arcs)):
            add(*pair())
    elif shape == "dense":
        for _ in range(max_arcs):
            add(*pair())
    elif shape == "parallel":
        for _ in range(rng.randint(1, max_arcs // 2)):
            add(*pair())
        while len(arcs) < max_arcs and rng.random() < 0.8:
            u, v, _, _ = rng.choice(arcs)
            add(u, v)
    elif shape == "antipar":
        for _ in range(rng.randint(1, max_arcs // 2)):
            u, v = pair()
            add(u, v)
            if rng.random() < 0.8:
                add(v, u)
    elif shape == "layered":
        mid = [x for x in range(n) if x not in (s, t)]
        rng.shuffle(mid)
        k = len(mid) // 2
        l1, l2 = mid[:k] or [s], mid[k:] or [t]
        for a in l1:
            if a != s:
                add(s, a)
        for a in l1:
            for b in l2:
                if a != b and rng.random() < 0.7:
                    add(a, b)
        for b in l2:
            if b != t:
                add(b, t)
        if rng.random() < 0.5:
            add(*pair())
    elif shape == "path":
        order = [s] + rng.sample([x for x in range(n) if x not in (s, t)], max(0, n - 2)) + [t]
        for a, b in zip(order, order[1:]):
            add(a, b)
        for _ in range(rng.randint(0, 3)):
            add(*pair())
    else:  # detour: a cheap path that must be partly undone (flow on a reverse residual edge)
        mid = [x for x in range(n) if x not in (s, t)]
        if len(mid) >= 2:
            a, b = mid[0], mid[1]
            arcs += [(s, a, 1, cost(s, a)), (a, b, 1, cost(a, b)), (b, t, 1, cost(b, t)),
                     (s, b, 1, cost(s, b) + 2), (a, t, 1, cost(a, t) + 2)]
        for _ in range(rng.randint(0, 3)):
            add(*pair())
    if shape == "sinkless":
        arcs = [a for a in arcs if t not in (a[0], a[1])]
    # a self-loop of negative cost would be a negative cycle
    arcs = [a for a in arcs if a[0] != a[1] or a[3] >= 0]
    return arcs


def _maxflow_value(n, arcs, s, t):
    return _feasibility(n, arcs, [(_d(i, s, t, 10 ** 6)) for i in range(n)])[1]


def _d(i, s, t, d):
    return (d if i == s else 0) - (d if i == t else 0)


LABELSETS = [None, None, "abcdefghij", ["s", "t", "x", "y", "z", "w", "q", "r", "p"], [10, 7, 3, 99, 0, 5, 42, 8, 1]]


def gen_mcf(rng, big=False):
    """One min_cost_flow instance: {"graph": [[key, [[v, cap, c], ...]], ...] (dict order), source, sink, demand, tag}."""
    n = rng.choice([2, 3, 3, 4, 4, 5, 5, 6, 6] + ([7, 8] if big else []))
    max_arcs = 14 if big else 9
    shape = rng.choice(SHAPES)
    mode = rng.choice(COSTMODES)
    s, t = (0, n - 1) if rng.random() < 0.6 else rng.sample(range(n), 2)
    for _ in range(4):
        arcs = _raw_arcs(rng, n, shape, _cost_fn(rng, n, mode), max_arcs, s, t)
        mf = _maxflow_value(n, arcs, s, t)
        if mf > 0 or shape == "sinkless" or rng.random() < 0.3:  # not too many networks without any s-t path
            break
    demand = rng.choice([0, 1, 1, 2, 2, 3, 4])
    r = rng.random()
    if shape == "saturated" or r < 0.3:
        demand = mf + (1 if rng.random() < 0.2 else 0)  # saturated cut / just infeasible
    elif r < 0.8 and mf > 0:
        demand = rng.randint(1, mf)
    labels = rng.choice(LABELSETS)
    lab = (lambda x: x) if labels is None else (lambda x: labels[x])
    keys = []
    for a in arcs:
        if a[0] not in keys:
            keys.append(a[0])
    for x in range(n):  # nodes without outgoing arcs: sometimes a key with an empty list, sometimes absent
        if x not in keys and rng.random() < 0.5:
            keys.append(x)
    if rng.random() < 0.5:
        rng.shuffle(keys)
    graph = [[lab(k), [[lab(v), cap, c] for (u, v, cap, c) in arcs if u == k]] for k in keys]
    return {"graph": graph, "source": lab(s), "sink": lab(t), "demand": demand, "tag": f"{shape}/{mode}"}


def gen_ns(rng, big=False):
    """One network_simplex instance {"n", "arcs": [[u, v, cap, cost]], "supplies", "max_iter" (None = default), tag}."""
    n = rng.choice([1, 2, 3, 3, 4, 4, 5, 5, 6, 6] + ([7, 8] if big else []))
    max_arcs = 15 if big else 10
    shape = rng.choice(["random", "random", "dense", "parallel", "antipar", "zero", "path"])
    mode = rng.choice(COSTMODES)
    arcs = _raw_arcs(rng, n, shape, _cost_fn(rng, n, mode), max_arcs, 0, n - 1) if n >= 2 else \
        [(0, 0, rng.randint(0, 3), rng.randint(0, 3)) for _ in range(rng.randint(0, 2))]
    sup = [0] * n
    smode = rng.choice(["induced", "induced", "induced", "saturating", "pairs", "pairs", "zero", "unbalanced"])
    if smode == "induced":
        for u, v, c, _ in arcs:
            x = rng.randint(0, c)
            sup[u] += x
            sup[v] -= x
    elif smode == "saturating":  # every arc at its capacity is the only... a feasible, fully saturated routing
        for u, v, c, _ in arcs:
            sup[u] += c
            sup[v] -= c
    elif smode in ("pairs", "unbalanced"):
        for _ in range(rng.randint(1, 5)):
            a, b = rng.randrange(n), rng.randrange(n)
            sup[a] += 1
            sup[b] -= 1
        if smode == "unbalanced":
            sup[rng.randrange(n)] += rng.choice([-2, -1, 1, 2])
    max_iter = rng.choice([0, 1, 2, 3, 5]) if rng.random() < 0.12 else None
    return {"n": n, "arcs": [list(a) for a in arcs], "supplies": sup, "max_iter": max_iter, "tag": f"{shape}/{mode}/{smode}"}


def gen_assign(rng, big=False):
    n = rng.choice([0, 1, 1, 2, 2, 3, 3, 4, 4] + ([5] if big else []))
    m = n if rng.random() < 0.45 else rng.choice([0, 1, 2, 3, 4] + ([5] if big else []))
    if n == 0:
        return {"matrix": []}
    lo, hi = rng.choice([(0, 9), (0, 9), (0, 2), (-4, 9), (5, 5), (0, 30)])
    return {"matrix": [[rng.randint(lo, hi) for _ in range(m)] for _ in range(n)]}


# ====================================================================================== implementation runs
def build_graph(inst):
    return {k: [tuple(a) for a in arcs] for k, arcs in inst["graph"]}


def relabel(inst):
    """First-occurrence numbering of the node labels (source, sink, then the graph in iteration order) and the arc
    list in the order `for u in graph: for (v, cap, c) in graph[u]`.  n = len(nodes) of the implementation."""
    num = {}

    def idx(x):
        if x not in num:
            num[x] = len(num)
        return num[x]

    idx(inst["source"])
    idx(inst["sink"])
    arcs = []
    for k, out in inst["graph"]:
        idx(k)
        for v, cap, c in out:
            arcs.append((idx(k), idx(v), cap, c))
    return len(num), arcs, num


def _int(x):
    if isinstance(x, bool):
        return None
    if isinstance(x, int):
        return x
    if isinstance(x, float) and x == x and abs(x) != float("inf") and x == int(x):
        return int(x)
    return None


def run_mcf_impl(inst):
    from solvor.flow import min_cost_flow

    res = min_cost_flow(build_graph(inst), inst["source"], inst["sink"], inst["demand"])
    return {"status": res.status.name, "flows": [[k[0], k[1], f] for k, f in res.solution.items()] if isinstance(res.solution, dict) else res.solution,
            "objective": res.objective, "iterations": res.iterations}


def run_ns_impl(inst):
    from solvor.network_simplex import network_simplex

    kw = {} if inst.get("max_iter") is None else {"max_iter": inst["max_iter"]}
    res = network_simplex(inst["n"], [tuple(a) for a in inst["arcs"]], list(inst["supplies"]), **kw)
    return {"status": res.status.name, "flows": [[k[0], k[1], f] for k, f in res.solution.items()] if isinstance(res.solution, dict) else res.solution,
            "objective": res.objective, "iterations": res.iterations}


def run_assign_impl(inst):
    from solvor.flow import solve_assignment

    res = solve_assignment([list(r) for r in inst["matrix"]])
    return {"status": res.status.name, "assignment": list(res.solution), "objective": res.objective, "iterations": res.iterations}


# ====================================================================================== independent oracle
def _feasibility(n, arcs, supplies):
    """BFS augmenting paths from a super source to a super sink.  Returns (arc flows, amount routed, amount
    needed, set of real nodes reachable from the super source in the final residual graph)."""
    s, t = n, n + 1
    to, cap, adj = [], [], [[] for _ in range(n + 2)]

    def add(u, v, c):
        adj[u].append(len(to))
        to.append(v)
        cap.append(c)
        adj[v].append(len(to))
        to.append(u)
        cap.append(0)

    for u, v, c, _ in arcs:
        add(u, v, c)
    need = 0
    for i, b in enumerate(supplies):
        if b > 0:
            add(s, i, b)
            need += b
        elif b < 0:
            add(i, t, -b)
    sent = 0
    while True:
        prev = {s: -1}
        q = deque([s])
        while q and t not in prev:
            x = q.popleft()
            for e in adj[x]:
                if cap[e] > 0 and to[e] not in prev:
                    prev[to[e]] = e
                    q.append(to[e])
        if t not in prev:
            reach = {x for x in prev if x < n}
            break
        path, x = [], t
        while x != s:
            path.append(prev[x])
            x = to[prev[x] ^ 1]
        d = min(cap[e] for e in path)
        for e in path:
            cap[e] -= d
            cap[e ^ 1] += d
        sent += d
    return [cap[2 * k + 1] for k in range(len(arcs))], sent, need, reach


def exact_min_cost(n, arcs, supplies):
    """(min cost, an optimal per-arc flow) of a feasible integral flow, or (None, None) when there is none.
    Feasibility by max-flow, optimality by cancelling negative residual cycles (Klein)."""
    if sum(supplies) != 0:
        return None, None
    f, sent, need, _ = _feasibility(n, arcs, supplies)
    if sent != need:
        return None, None
    m = len(arcs)
    while True:
        dist = [0] * n
        pe = [None] * n
        last = None
        for _ in range(n):
            last = None
            for k, (u, v, c, w) in enumerate(arcs):
                if f[k] < c and dist[u] + w < dist[v]:
                    dist[v], pe[v], last = dist[u] + w, (k, 1), v
                if f[k] > 0 and dist[v] - w < dist[u]:
                    dist[u], pe[u], last = dist[v] - w, (k, -1), u
            if last is None:
                break
        if last is None:
            break
        x = last
        for _ in range(n):
            k, sg = pe[x]
            x = arcs[k][0] if sg == 1 else arcs[k][1]
        cyc, y = [], x
        while True:
            k, sg = pe[y]
            cyc.append((k, sg))
            y = arcs[k][0] if sg == 1 else arcs[k][1]
            if y == x:
                break
        d = min((arcs[k][2] - f[k]) if sg == 1 else f[k] for k, sg in cyc)
        assert d > 0 and sum(sg * arcs[k][3] for k, sg in cyc) < 0
        for k, sg in cyc:
            f[k] += sg * d
    return sum(f[k] * arcs[k][3] for k in range(m)), f


def brute_min_cost(n, arcs, supplies):
    size = 1
    for a in arcs:
        size *= a[2] + 1
        if size > BRUTE_LIMIT:
            return "skip"
    best = None
    for f in itertools.product(*[range(a[2] + 1) for a in arcs]):
        bal = [0] * n
        for x, (u, v, _, _) in zip(f, arcs):
            bal[u] += x
            bal[v] -= x
        if bal == list(supplies):
            z = sum(x * a[3] for x, a in zip(f, arcs))
            if best is None or z < best:
                best = z
    return best


def optimum_of(n, arcs, supplies):
    opt, _ = exact_min_cost(n, arcs, supplies)
    b = brute_min_cost(n, arcs, supplies)
    if b != "skip":
        assert b == opt, ("oracle disagrees with brute force", n, arcs, supplies, opt, b)
    return opt, b != "skip"


def split_pooled(arcs, flows):
    """Cheapest per-arc split of a pooled {(u, v): flow} dictionary (parallel arcs: cheapest first).  Returns
    (per-arc flow list, None) or (None, reason)."""
    f = [0] * len(arcs)
    groups = {}
    for k, (u, v, c, w) in enumerate(arcs):
        groups.setdefault((u, v), []).append((w, k, c))
    seen = set()
    for u, v, x in flows:
        if (u, v) in seen:
            return None, f"duplicate key {(u, v)}"
        seen.add((u, v))
        xi = _int(x)
        if xi is None or xi <= 0:
            return None, f"flow {x!r} on {(u, v)} is not a positive integer"
        if (u, v) not in groups:
            return None, f"flow {x} on non-existent arc {(u, v)}"
        for w, k, c in sorted(groups[(u, v)]):
            y = min(xi, c)
            f[k] = y
            xi -= y
        if xi > 0:
            return None, f"flow {x} on {(u, v)} exceeds the (pooled) capacity {sum(c for _, _, c in groups[(u, v)])}"
    return f, None


def judge(n, arcs, supplies, out, optimum, allow_max_iter=False):
    """The property itself.  out = {"status", "flows" [[u, v, f]] (node numbers) | None, "objective"}.  None = fine."""
    st = out["status"]
    if st == "MAX_ITER" and allow_max_iter:
        if out["flows"] is None:
            return None
    elif optimum is None:
        return None if st == "INFEASIBLE" else f"no feasible flow exists but status={st} objective={out['objective']}"
    elif st != "OPTIMAL":
        return f"a feasible flow exists (optimum {optimum}) but status={st}"
    if optimum is None:
        return f"no feasible flow exists but a flow was returned with status={st}"
    if not isinstance(out["flows"], list):
        return f"solution is {out['flows']!r}"
    f, why = split_pooled(arcs, out["flows"])
    if f is None:
        return why
    bal = [0] * n
    for k, (u, v, _, _) in enumerate(arcs):
        bal[u] += f[k]
        bal[v] -= f[k]
    if bal != list(supplies):
        return f"flow {out['flows']} has node balances {bal}, required {list(supplies)}"
    cost = sum(f[k] * arcs[k][3] for k in range(len(arcs)))
    obj = _int(out["objective"])
    if obj is None or obj != cost:
        return f"flow {out['flows']} costs {cost} (cheapest split over parallel arcs) but objective={out['objective']!r}"
    if st == "OPTIMAL" and cost != optimum:
        return f"objective {cost} but the minimum is {optimum}"
    if cost < optimum:
        return f"objective {cost} below the minimum {optimum}"
    return None


def potentials(n, arcs, f):
    """Bellman-Ford from a virtual root on the residual graph of f: pi with cost + pi[tail] - pi[head] >= 0 on every
    residual edge, or None when the residual graph has a negative cycle."""
    dist = [0] * n
    for _ in range(n + 1):
        upd = False
        for k, (u, v, c, w) in enumerate(arcs):
            if f[k] < c and dist[u] + w < dist[v]:
                dist[v] = dist[u] + w
                upd = True
            if f[k] > 0 and dist[v] - w < dist[u]:
                dist[u] = dist[v] - w
                upd = True
        if not upd:
            return dist
    return None


def cut_witness(n, arcs, supplies):
    """Node set S (indicator list) certifying infeasibility: more must leave S than its outgoing capacity allows
    (or, for an unbalanced vector with negative total, S = all nodes must take in more than can enter)."""
    if sum(supplies) != 0:
        return [True] * n
    _, _, _, reach = _feasibility(n, arcs, supplies)
    return [i in reach for i in range(n)]


def assignment_optimum(mat):
    n = len(mat)
    m = len(mat[0]) if n else 0
    if n <= m:
        return min(sum(mat[i][p[i]] for i in range(n)) for p in itertools.permutations(range(m), n))
    return min(sum(mat[p[j]][j] for j in range(m)) for p in itertools.permutations(range(n), m))


def judge_assign(mat, out):
    n = len(mat)
    m = len(mat[0]) if n else 0
    k = min(n, m)
    sol = out["assignment"]
    used = [j for j in sol if j != -1]
    if out["status"] != "OPTIMAL":
        return f"status {out['status']}"
    if len(sol) != n or len(used) != k or len(set(used)) != k or not all(isinstance(j, int) and 0 <= j < m for j in used):
        return f"{sol} is not a matching of {k} pairs"
    cost = sum(mat[i][j] for i, j in enumerate(sol) if j != -1)
    want = assignment_optimum(mat)
    if _int(out["objective"]) != cost:
        return f"assignment {sol} costs {cost} but objective={out['objective']!r}"
    if cost != want:
        return f"assignment {sol} costs {cost}, the optimum is {want}"
    return None


# ====================================================================================== Coq terms
def c_arc(a):
    return f"({cnat(a[0])}, {cnat(a[1])}, {cz(a[2])}, {cz(a[3])})"


def c_dict(flows):
    return clist(flows, lambda x: f"({cnat(x[0])}, {cnat(x[1])}, {cz(x[2])})")


def _flows_ok(flows):
    return isinstance(flows, list) and all(isinstance(x[0], int) and isinstance(x[1], int) and x[0] >= 0 and x[1] >= 0 and _int(x[2]) is not None for x in flows)


def c_mcf_result(out):
    """option Mcf.result of an implementation outcome; anything the model cannot express (hang, exception,
    non-integral value, other status) is None, which the model produces only when it runs out of fuel."""
    if out is None:
        return "None"
    it = _int(out["iterations"])
    if out["status"] == "INFEASIBLE" and out["flows"] == [] and it is not None:
        return f"(Some (Mcf.Build_result Mcf.INFEASIBLE [] 0%Z {cz(it)}))"
    obj = _int(out["objective"])
    if out["status"] == "OPTIMAL" and _flows_ok(out["flows"]) and obj is not None and it is not None:
        return f"(Some (Mcf.Build_result Mcf.OPTIMAL {c_dict(out['flows'])} {cz(obj)} {cz(it)}))"
    return "None"


def c_assign_result(out):
    if out is None:
        return "None"
    it, obj = _int(out["iterations"]), _int(out["objective"])
    if out["status"] == "OPTIMAL" and obj is not None and it is not None and all(isinstance(j, int) for j in out["assignment"]):
        return f"(Some (Mcf.Build_aresult Mcf.OPTIMAL {clist(out['assignment'], cz)} {cz(obj)} {cz(it)}))"
    if out["status"] == "INFEASIBLE" and it is not None:
        return f"(Some (Mcf.Build_aresult Mcf.INFEASIBLE {clist(out['assignment'], cz)} 0%Z {cz(it)}))"
    return "None"


NS_STATUS = {"OPTIMAL": "NetSimplex.OPTIMAL", "INFEASIBLE": "NetSimplex.INFEASIBLE", "MAX_ITER": "NetSimplex.MAX_ITER"}


def c_ns_result(out):
    """option NetSimplex.result: status, solution (None | Some dict), objective (ignored when there is no solution),
    iterations."""
    if out is None or out["status"] not in NS_STATUS:
        return "None"
    it = _int(out["iterations"])
    if it is None:
        return "None"
    if out["flows"] is None:
        return f"(Some (NetSimplex.Build_result {NS_STATUS[out['status']]} None 0%Z {cz(it)}))"
    obj = _int(out["objective"])
    if not _flows_ok(out["flows"]) or obj is None:
        return "None"
    return f"(Some (NetSimplex.Build_result {NS_STATUS[out['status']]} (Some {c_dict(out['flows'])}) {cz(obj)} {cz(it)}))"


def tup(*xs):
    return "(" + ", ".join(xs) + ")"


# ====================================================================================== cases
def mcf_case(inst):
    """Run one min_cost_flow instance: implementation, oracle verdict, Coq case strings."""
    n, arcs, num = relabel(inst)
    s, t, d = num[inst["source"]], num[inst["sink"]], inst["demand"]
    res = guarded(run_mcf_impl, inst, timeout=5)
    out = None
    bad = None
    if res[0] != "ok":
        bad = f"min_cost_flow did not return a result: {res}"
    else:
        out = dict(res[1])
        try:
            if isinstance(out["flows"], list):
                out["flows"] = [[num[u], num[v], f] for u, v, f in out["flows"]]
        except KeyError as e:
            bad = f"flow on an unknown node {e}"
            out = None
    supplies = [_d(i, s, t, d) for i in range(n)]
    optimum, cross = optimum_of(n, arcs, supplies)
    if out is not None and bad is None:
        bad = judge(n, arcs, supplies, out, optimum)
    return {"inst": inst, "n": n, "arcs": arcs, "s": s, "t": t, "d": d, "supplies": supplies, "out": out, "raw": res if res[0] != "ok" else None,
            "bad": bad, "optimum": optimum, "cross": cross}


def load_corpus():
    d = VERIF / "corpus" / "C09"
    out = []
    if d.exists():
        for f in sorted(d.glob("*.json")):
            o = json.loads(f.read_text())
            out.append(o)
    return out


def ns_case(inst):
    n, arcs, sup = inst["n"], [tuple(a) for a in inst["arcs"]], list(inst["supplies"])
    res = guarded(run_ns_impl, inst, timeout=5)
    out, bad = None, None
    if res[0] != "ok":
        bad = f"network_simplex did not return a result: {res}"
    else:
        out = dict(res[1])
    optimum, cross = optimum_of(n, arcs, sup)
    if out is not None:
        if inst.get("max_iter") is None and _int(out["iterations"]) is not None and out["iterations"] >= DEFAULT_MAX_ITER:
            bad = f"cycled until the default iteration limit (status {out['status']})"
        else:
            bad = judge(n, arcs, sup, out, optimum, allow_max_iter=inst.get("max_iter") is not None)
            if bad is None and out["status"] == "MAX_ITER" and inst.get("max_iter") is not None and out["iterations"] != inst["max_iter"]:
                bad = f"status MAX_ITER after {out['iterations']} iterations with max_iter={inst['max_iter']}"
    return {"inst": inst, "n": n, "arcs": arcs, "supplies": sup, "out": out, "bad": bad, "optimum": optimum, "cross": cross,
            "raw": res if res[0] != "ok" else None}


def assign_case(inst):
    res = guarded(run_assign_impl, inst, timeout=5)
    out, bad = None, None
    if res[0] != "ok":
        bad = f"solve_assignment did not return a result: {res}"
    else:
        out = res[1]
        bad = judge_assign(inst["matrix"], out)
    return {"inst": inst, "out": out, "bad": bad, "raw": res if res[0] != "ok" else None}


def assign_potentials(mat, asg):
    """potentials for the assignment network of Mcf.assign_arcs (nodes source 0, sink 1, L_i = 2+i, R_j = 2+n+j)."""
    n = len(mat)
    m = len(mat[0]) if n else 0
    arcs = [(0, 2 + i, 1, 0) for i in range(n)] + [(2 + i, 2 + n + j, 1, mat[i][j]) for i in range(n) for j in range(m)] + \
           [(2 + n + j, 1, 1, 0) for j in range(m)]
    used = {j for j in asg if j != -1}
    f = [1 if asg[i] != -1 else 0 for i in range(n)] + [1 if asg[i] == j else 0 for i in range(n) for j in range(m)] + \
        [1 if j in used else 0 for j in range(m)]
    return potentials(2 + n + m, arcs, f) or [0] * (2 + n + m)


MCF_T = "nat * list Mcf.arc * nat * nat * Z * option Mcf.result"
MCF_CHK = "fun c => let '(n, arcs, s, t, d, impl) := c in Mcf.opt_eqb Mcf.result_eqb (Mcf.mcf n arcs s t d) impl"
OPT_T = "nat * list Mcf.arc * list Z * list (nat * nat * Z) * Z * list Z * list Z"
OPT_CHK = "fun c => let '(n, arcs, sup, d, cost, f, pi) := c in McfSpec.optimal_check n arcs (McfSpec.supply_b sup) d cost f pi"
CUT_T = "nat * list Mcf.arc * list Z * list bool"
CUT_CHK = "fun c => let '(n, arcs, sup, cut) := c in McfSpec.cut_check n arcs (McfSpec.supply_b sup) cut"
ASG_T = "list (list Z) * option Mcf.aresult"
ASG_CHK = "fun c => Mcf.opt_eqb Mcf.aresult_eqb (Mcf.solve_assignment (fst c)) (snd c)"
ASGC_T = "list (list Z) * list Z * Z * list Z"
ASGC_CHK = "fun c => let '(M, asg, cost, pi) := c in AssignSpec.assignment_check M asg cost pi"
NS_T = "nat * list Mcf.arc * list Z * Z * option NetSimplex.result"
NS_CHK = "fun c => let '(n, arcs, sup, mi, impl) := c in Mcf.opt_eqb NetSimplex.result_eqb (NetSimplex.network_simplex n arcs sup mi) impl"


def certificate_case(n, arcs, supplies, out):
    """Coq case for the sound checker matching the implementation's verdict: ('opt', term) | ('cut', term) | None."""
    if out is None:
        return None
    if out["status"] == "INFEASIBLE":
        S = cut_witness(n, arcs, supplies)
        return ("cut", tup(cnat(n), clist(arcs, c_arc), clist(supplies, cz), clist(S, cbool)))
    if out["status"] in ("OPTIMAL",) and _flows_ok(out["flows"]) and _int(out["objective"]) is not None:
        f, _ = split_pooled(arcs, out["flows"])
        if f is None:
            f = [0] * len(arcs)
        pi = potentials(n, arcs, f) or [0] * n
        return ("opt", tup(cnat(n), clist(arcs, c_arc), clist(supplies, cz), c_dict(out["flows"]), cz(_int(out["objective"])),
                           clist(f, cz), clist(pi, cz)))
    return None


def has_multi(arcs):
    pairs = [(a[0], a[1]) for a in arcs]
    return len(set(pairs)) < len(pairs) or any((v, u) in pairs for u, v in pairs if u != v)


def run(ctx: Ctx):
    ctx.rule = ("random networks (2..6 nodes, <= 9/10 arcs quick; ..8 nodes, <= 15 arcs thorough; capacities 0..4; costs zero / unit / "
                "non-negative / potential differences + non-negative part (negative arcs, no negative cycle); shapes random, dense, "
                "parallel, anti-parallel, layered, path, zero-capacity, saturated, sink-less, detour; demand 0..4 or max-flow(+1); supplies "
                "induced by a flow / saturating / unit pairs / zero / unbalanced; max_iter 0..5 on 12 % of the network_simplex runs; "
                "assignment matrices 0..4 x 0..4). non-trivial = min_cost_flow run with >= 2 augmentations or a multi-arc pair or a "
                "negative arc or INFEASIBLE after >= 1 augmentation / network_simplex run with >= 2 iterations / assignment with "
                "n, m >= 2; distinct = canonical JSON of the instance")
    ctx.proof_step(["C09"])
    if (COQ / "Props" / "C09_deep.v").exists(): ctx.proof_step(["C09"], props_file="Props/C09_deep.v")
    if (COQ / "Props" / "C09_deep2.v").exists(): ctx.proof_step(["C09"], props_file="Props/C09_deep2.v")
    big = ctx.tier == "thorough"
    n_mcf = ctx.budget(420, 6000)
    n_ns = ctx.budget(420, 6000)
    n_as = ctx.budget(150, 1500)

    for fnd in ctx.open_findings():  # none at the time of writing: all C09 findings are fixed, their witnesses are in corpus/C09
        ctx.notes.append(f"open known finding {fnd.get('id')} has no executable class predicate in this module: not excused")
    corpus = load_corpus()
    mcf_insts = [o for o in corpus if o.get("kind") == "mcf"] + fixed_mcf() + [gen_mcf(ctx.rng, big) for _ in range(n_mcf)]
    ns_insts = [o for o in corpus if o.get("kind") == "ns"] + fixed_ns() + [gen_ns(ctx.rng, big) for _ in range(n_ns)]
    as_insts = [o for o in corpus if o.get("kind") == "assign"] + fixed_assign() + [gen_assign(ctx.rng, big) for _ in range(n_as)]

    opt_cases, cut_cases = [], []  # (term, description)
    disagreements = []

    # ------------------------------------------------------------------ min_cost_flow
    mcf_terms, mcf_meta = [], []
    hangs = {"mcf": 0, "ns": 0, "assign": 0}  # a solver that stopped returning costs 5 s per call: give up on it after a few
    for inst in mcf_insts:
        if hangs["mcf"] >= MAX_HANGS:
            break
        c = mcf_case(inst)
        hangs["mcf"] += c["raw"] is not None and c["raw"][0] == "hang"
        ctx.evaluations += 1
        out = c["out"]
        st = out["status"] if out else "no-result"
        ctx.count("mcf_status", st)
        ctx.count("mcf_nodes", c["n"])
        ctx.count("mcf_arcs", len(c["arcs"]))
        ctx.count("mcf_demand", min(c["d"], 6))
        if out:
            ctx.count("mcf_iterations", min(out["iterations"], 8))
        ctx.count("mcf_shape", "corpus" if inst.get("tag", "").startswith("corpus") else inst.get("tag", "fixed").split("/")[0])
        ctx.count("mcf_oracle", "infeasible" if c["optimum"] is None else "feasible")
        ctx.count("oracle_cross_checked_by_brute_force", c["cross"])
        if c["bad"]:
            ctx.violation(f"min_cost_flow: {c['bad']}", {"kind": "mcf", **inst, "impl": out or str(c["raw"]), "optimum": c["optimum"]})
        if out and (out["iterations"] >= 2 or has_multi(c["arcs"]) or any(a[3] < 0 for a in c["arcs"])) and (st == "OPTIMAL" or out["iterations"] >= 2):
            ctx.nontriv(("mcf", json.dumps(inst, sort_keys=True)))
        ctx.sample({"kind": "mcf", **inst, "impl": out}, 2)
        mcf_terms.append(tup(cnat(c["n"]), clist(c["arcs"], c_arc), cnat(c["s"]), cnat(c["t"]), cz(c["d"]), c_mcf_result(out)))
        mcf_meta.append(c)
        cc = certificate_case(c["n"], c["arcs"], c["supplies"], out)
        if cc:
            (opt_cases if cc[0] == "opt" else cut_cases).append((cc[1], ("mcf", inst, out)))
        # the same instance as a supply vector for network_simplex: both must report the same optimal cost
        if c["d"] >= 0 and out is not None and hangs["ns"] < MAX_HANGS:
            ns_inst = {"n": c["n"], "arcs": [list(a) for a in c["arcs"]], "supplies": c["supplies"], "max_iter": None, "tag": "from-mcf"}
            r2 = guarded(run_ns_impl, ns_inst, timeout=5)
            ctx.evaluations += 1
            if len(ns_insts) < n_ns * 2 + 40 and c["arcs"]:
                ns_insts.append(ns_inst)  # also through the network_simplex model / oracle / certificates
            if r2[0] != "ok":
                hangs["ns"] += r2[0] == "hang"
                ctx.violation(f"network_simplex did not return a result on a min_cost_flow instance: {r2}", {"kind": "ns", **ns_inst})
            else:
                o2 = r2[1]
                same = (o2["status"] == st) and (st != "OPTIMAL" or _int(o2["objective"]) == _int(out["objective"]))
                ctx.count("agreement_mcf_vs_ns", "agree" if same else "differ")
                if not same:
                    ctx.violation(f"min_cost_flow says {st} cost {out['objective']}, network_simplex says {o2['status']} cost {o2['objective']} "
                                  f"(exact optimum {c['optimum']})", {"kind": "mcf", **inst, "impl": out, "ns_impl": o2, "optimum": c["optimum"]})
    failing = ctx.coq_check("mcf", IMPORTS, MCF_T, MCF_CHK, mcf_terms)
    for i in failing:
        disagreements.append(("mcf", mcf_meta[i]))

    # ------------------------------------------------------------------ network_simplex
    ns_terms, ns_meta = [], []
    for inst in ns_insts:
        if hangs["ns"] >= MAX_HANGS:
            break
        c = ns_case(inst)
        hangs["ns"] += c["raw"] is not None and c["raw"][0] == "hang"
        ctx.evaluations += 1
        out = c["out"]
        st = out["status"] if out else "no-result"
        ctx.count("ns_status", st)
        ctx.count("ns_nodes", c["n"])
        ctx.count("ns_arcs", len(c["arcs"]))
        ctx.count("ns_supply_mode", "corpus" if inst.get("tag", "").startswith("corpus") else inst.get("tag", "fixed").split("/")[-1])
        ctx.count("ns_max_iter", inst.get("max_iter"))
        ctx.count("ns_oracle", "infeasible" if c["optimum"] is None else "feasible")
        ctx.count("oracle_cross_checked_by_brute_force", c["cross"])
        if out:
            ctx.count("ns_iterations", min(out["iterations"], 12))
        if c["bad"]:
            ctx.violation(f"network_simplex: {c['bad']}", {"kind": "ns", **inst, "impl": out or str(c["raw"]), "optimum": c["optimum"]})
        if out and out["iterations"] >= 2:
            ctx.nontriv(("ns", json.dumps(inst, sort_keys=True)))
        ctx.sample({"kind": "ns", **inst, "impl": out}, 4)
        mi = DEFAULT_MAX_ITER if inst.get("max_iter") is None else inst["max_iter"]
        ns_terms.append(tup(cnat(c["n"]), clist(c["arcs"], c_arc), clist(c["supplies"], cz), cz(mi), c_ns_result(out)))
        ns_meta.append(c)
        cc = certificate_case(c["n"], c["arcs"], c["supplies"], out)
        if cc:
            (opt_cases if cc[0] == "opt" else cut_cases).append((cc[1], ("ns", inst, out)))
    if NS_MODEL:
        failing = ctx.coq_check("ns", IMPORTS, NS_T, NS_CHK, ns_terms)
        for i in failing:
            disagreements.append(("ns", ns_meta[i]))
    else:
        ctx.notes.append("network_simplex: no Gallina model yet - judged by the oracle and by the kernel-checked certificates only")

    # ------------------------------------------------------------------ solve_assignment
    as_terms, as_meta, asc_terms, asc_meta = [], [], [], []
    for inst in as_insts:
        if hangs["assign"] >= MAX_HANGS:
            break
        c = assign_case(inst)
        hangs["assign"] += c["raw"] is not None and c["raw"][0] == "hang"
        ctx.evaluations += 1
        out = c["out"]
        mat = inst["matrix"]
        ctx.count("assign_shape", f"{len(mat)}x{len(mat[0]) if mat else 0}")
        ctx.count("assign_status", out["status"] if out else "no-result")
        if c["bad"]:
            ctx.violation(f"solve_assignment: {c['bad']}", {"kind": "assign", **inst, "impl": out})
        if len(mat) >= 2 and len(mat[0]) >= 2:
            ctx.nontriv(("assign", json.dumps(mat)))
        ctx.sample({"kind": "assign", **inst, "impl": out}, 5)
        as_terms.append(tup(clist(mat, lambda r: clist(r, cz)), c_assign_result(out)))
        as_meta.append(c)
        if out and out["status"] == "OPTIMAL" and _int(out["objective"]) is not None and all(isinstance(j, int) for j in out["assignment"]):
            pi = assign_potentials(mat, out["assignment"]) if c["bad"] is None else [0] * (2 + len(mat) + (len(mat[0]) if mat else 0))
            asc_terms.append(tup(clist(mat, lambda r: clist(r, cz)), clist(out["assignment"], cz), cz(_int(out["objective"])), clist(pi, cz)))
            asc_meta.append(c)
    failing = ctx.coq_check("assign", IMPORTS, ASG_T, ASG_CHK, as_terms)
    for i in failing:
        disagreements.append(("assign", as_meta[i]))

    # ------------------------------------------------------------------ sound checkers on implementation outputs
    cert_fail = []
    for tag, typ, chk, cases in (("cert_opt", OPT_T, OPT_CHK, opt_cases), ("cert_cut", CUT_T, CUT_CHK, cut_cases)):
        failing = ctx.coq_check(tag, IMPORTS, typ, chk, [t for t, _ in cases])
        ctx.count("kernel_checked_certificates", tag, len(cases) - len(failing))
        for i in failing:
            cert_fail.append((tag, cases[i][1]))
    failing = ctx.coq_check("cert_assign", IMPORTS, ASGC_T, ASGC_CHK, asc_terms)
    ctx.count("kernel_checked_certificates", "cert_assign", len(asc_terms) - len(failing))
    for i in failing:
        cert_fail.append(("cert_assign", ("assign", asc_meta[i]["inst"], asc_meta[i]["out"])))
    ctx.notes.append("optimality / infeasibility of every implementation answer is re-checked inside coqc by McfSpec.optimal_check / "
                     "cut_check / AssignSpec.assignment_check (sound by McfCert theorems); the per-arc split of pooled flows, the "
                     "potentials and the cuts are untrusted witnesses computed by the harness")
    ctx.notes.append("outside the quantifier, not generated: negative-cost cycles of positive capacity (min_cost_flow does not return), "
                     "non-integer supplies (truncated by int()), source == sink (returns {} cost 0)")
    ctx.notes.append("costs and capacities are Python ints; network_simplex keeps potentials as floats holding integers < 2^53 "
                     "(its -1e-9 pricing tolerance then means `< 0`), modelled over Z")

    # ------------------------------------------------------------------ disagreement -> search for a failing input
    if (disagreements or cert_fail or ctx.broken) and not ctx.violations:
        found = search(ctx, big)
        if not found:
            for kind, c in disagreements[:2]:
                inst = c["inst"]
                if kind == "mcf":
                    model = ctx.coq_eval("mcf_show", IMPORTS, f"Mcf.mcf {cnat(c['n'])} {clist(c['arcs'], c_arc)} {cnat(c['s'])} {cnat(c['t'])} {cz(c['d'])}")
                elif kind == "ns":
                    mi = DEFAULT_MAX_ITER if inst.get("max_iter") is None else inst["max_iter"]
                    model = ctx.coq_eval("ns_show", IMPORTS, f"NetSimplex.network_simplex {cnat(c['n'])} {clist(c['arcs'], c_arc)} {clist(c['supplies'], cz)} {cz(mi)}")
                else:
                    model = ctx.coq_eval("as_show", IMPORTS, f"Mcf.solve_assignment {clist(inst['matrix'], lambda r: clist(r, cz))}")
                ctx.violation(f"correspondence lemma {kind}: Gallina model and implementation differ (status / flow dictionary / objective / iterations)",
                              {"kind": kind, **inst, "impl": c["out"], "model": model, "lemma": f"Cases/C09/{kind}_*.v corr"}, no_input=True)
            for tag, (kind, inst, out) in cert_fail[:2]:
                ctx.violation(f"{tag}: the Coq checker rejects an implementation answer that the Python oracle accepted",
                              {"kind": kind, **inst, "impl": out, "lemma": f"Cases/C09/{tag}_*.v corr"}, no_input=True)


NS_MODEL = True
MAX_HANGS = 3


def search(ctx, big):
    """Much larger random budget, judged by the oracle only."""
    for _ in range(6000):
        inst = gen_mcf(ctx.rng, True)
        c = mcf_case(inst)
        if c["bad"]:
            ctx.violation(f"min_cost_flow: {c['bad']}", {"kind": "mcf", **inst, "impl": c["out"], "optimum": c["optimum"]})
            return True
        inst = gen_ns(ctx.rng, True)
        c = ns_case(inst)
        if c["bad"]:
            ctx.violation(f"network_simplex: {c['bad']}", {"kind": "ns", **inst, "impl": c["out"], "optimum": c["optimum"]})
            return True
        inst = gen_assign(ctx.rng, True)
        c = assign_case(inst)
        if c["bad"]:
            ctx.violation(f"solve_assignment: {c['bad']}", {"kind": "assign", **inst, "impl": c["out"]})
            return True
    return False


# ====================================================================================== fixed edge cases
def fixed_mcf():
    g = lambda d: [[k, [list(a) for a in v]] for k, v in d.items()]  # noqa: E731
    return [
        {"graph": g({0: [(1, 1, 1), (1, 1, 5)], 1: []}), "source": 0, "sink": 1, "demand": 2, "tag": "fixed"},
        {"graph": g({0: [(1, 2, 2), (1, 1, 0)], 1: [(0, 1, 3), (0, 1, 0)]}), "source": 0, "sink": 1, "demand": 1, "tag": "fixed"},
        {"graph": g({}), "source": "s", "sink": "t", "demand": 0, "tag": "fixed"},
        {"graph": g({}), "source": "s", "sink": "t", "demand": 1, "tag": "fixed"},
        {"graph": g({"s": [("t", 0, 1)]}), "source": "s", "sink": "t", "demand": 1, "tag": "fixed"},
        {"graph": g({"s": [("t", 3, -2)]}), "source": "s", "sink": "t", "demand": 3, "tag": "fixed"},
        {"graph": g({"s": [("a", 1, 1), ("b", 1, 3)], "a": [("b", 1, 1), ("t", 1, 3)], "b": [("t", 1, 1)]}), "source": "s", "sink": "t", "demand": 2, "tag": "fixed"},
        {"graph": g({"s": [("a", 4, 1)], "a": [("t", 2, 1)]}), "source": "s", "sink": "t", "demand": 3, "tag": "fixed"},
        {"graph": g({"t": [("s", 4, 1)]}), "source": "s", "sink": "t", "demand": 1, "tag": "fixed"},
    ]


def fixed_ns():
    mk = lambda n, arcs, sup, mi=None: {"n": n, "arcs": [list(a) for a in arcs], "supplies": sup, "max_iter": mi, "tag": "fixed"}  # noqa: E731
    return [
        mk(3, [(0, 1, 10, 2), (1, 2, 15, 1), (0, 2, 5, 3)], [10, 0, -10]),
        mk(2, [], [0, 0]),
        mk(2, [], [1, -1]),
        mk(2, [(0, 1, 3, 1)], [1, 0]),
        mk(2, [(0, 1, 3, 1)], [-1, 0]),
        mk(2, [(0, 1, 1, 1), (0, 1, 1, 5)], [2, -2]),
        mk(2, [(0, 1, 0, 1)], [1, -1]),
        mk(3, [(0, 1, 2, 1), (1, 2, 2, 1), (0, 2, 1, 5)], [3, 0, -3], 1),
        mk(1, [(0, 0, 2, 1)], [0]),
    ]


def fixed_assign():
    return [{"matrix": []}, {"matrix": [[], []]}, {"matrix": [[4, 2, 8], [4, 3, 7], [3, 1, 6]]}, {"matrix": [[1], [0], [2]]},
            {"matrix": [[3, 3], [3, 3]]}]


# ====================================================================================== replay
def replay(obj):
    kind = obj.get("kind")
    if kind == "mcf":
        c = mcf_case({k: obj[k] for k in ("graph", "source", "sink", "demand")})
        print("implementation:", c["out"] or c["raw"])
        print("exact optimum:", c["optimum"])
        if c["bad"] is None and c["out"] is not None and c["d"] >= 0:
            r2 = guarded(run_ns_impl, {"n": c["n"], "arcs": c["arcs"], "supplies": c["supplies"], "max_iter": None}, timeout=5)
            print("network_simplex on the same instance:", r2)
            if r2[0] != "ok" or r2[1]["status"] != c["out"]["status"] or (c["out"]["status"] == "OPTIMAL" and _int(r2[1]["objective"]) != _int(c["out"]["objective"])):
                c["bad"] = "min_cost_flow and network_simplex disagree"
    elif kind == "ns":
        c = ns_case({k: obj.get(k) for k in ("n", "arcs", "supplies", "max_iter")})
        print("implementation:", c["out"] or c["raw"])
        print("exact optimum:", c["optimum"])
    elif kind == "assign":
        c = assign_case({"matrix": obj["matrix"]})
        print("implementation:", c["out"])
    else:
        print("replay names an unchecked obligation:", obj.get("unchecked") or obj.get("what"))
        return 1
    print("oracle verdict:", c["bad"] or "ok")
    return 1 if c["bad"] else 0
