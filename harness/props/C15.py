"""C15 - cut vertices, bridges, k-cores, PageRank and Louvain obey their definitions.

Tie to /repo: random graphs (neighbour functions with asymmetric lists, self loops, duplicates, labels outside
the node set, isolated nodes, several components, random node/neighbour order) are run on
solvor.articulation / kcore / pagerank / community (working tree); the same inputs are evaluated by the
Gallina models SV.C15.{Artic,KCore,PageRank,Louvain} inside coqc (vm_compute) and compared on canonicalised
public results; the Coq boolean spec checkers (removal-and-recount, deletion survivors, simplex+residual,
partition+modularity) judge the IMPLEMENTATION's answers in the kernel.  Independently, brute-force Python
oracles written from the property text judge every answer.
"""
import json
import sys
from fractions import Fraction

import math

from harness.core import VERIF, Ctx, clist, cnat, copt, cq, guarded

ID = "C15"
ANCHORS = ["solvor/articulation.py", "solvor/kcore.py", "solvor/pagerank.py", "solvor/community.py"]
EPS = Fraction(1, 10**9)
DAMPINGS = [(17, 20), (1, 2), (3, 4), (9, 10), (1, 10), (1, 4), (19, 20), (99, 100), (1, 100), (2, 3)]
TOLS = [5e-2, 1e-2, 1e-3, 1e-3, 1e-4, 1e-4, 1e-6, 1e-6, 1e-8]
MAX_ITERS = [0, 1, 2, 3, 5, 10, 10, 25, 25, 100, 100]
COQ_PR_MAX_IT = 24  # longer runs are judged by the Python oracles only (Q numerators grow with every iteration)


# ---------------------------------------------------------------- generators
def gen_graph(rng, big=False):
    """(nodes, nb): nodes = distinct int labels in random order; nb[v] = list(neighbors(v))."""
    n = rng.choice([0, 1, 2, 3, 3, 4, 4, 4, 5, 5, 5, 5, 6, 6, 6, 6, 7, 7, 7, 8, 8] + ([9, 10, 12] if big else []))
    labels = rng.sample(range(n + 3), n)
    shape = rng.choice(["sparse", "sparse", "dense", "tree", "cycle_tails", "cliques", "components"])
    und = set()

    def add(a, b):
        if a != b:
            und.add((a, b))

    if n >= 2:
        if shape == "sparse":
            for _ in range(rng.randint(1, n + 2)):
                add(*rng.sample(labels, 2))
        elif shape == "dense":
            for i in range(n):
                for j in range(i + 1, n):
                    if rng.random() < 0.6:
                        add(labels[i], labels[j])
        elif shape == "tree":
            for i in range(1, n):
                if rng.random() < 0.9:
                    add(labels[i], labels[rng.randrange(i)])
            if rng.random() < 0.4 and n >= 3:
                add(*rng.sample(labels, 2))
        elif shape == "cycle_tails":
            k = rng.randint(2, n)
            for i in range(k):
                add(labels[i], labels[(i + 1) % k])
            for i in range(k, n):
                add(labels[i], labels[rng.randrange(i)])
        elif shape == "cliques":
            k = max(1, n // 2)
            for grp in (labels[:k], labels[k:]):
                for i in range(len(grp)):
                    for j in range(i + 1, len(grp)):
                        if rng.random() < 0.85:
                            add(grp[i], grp[j])
            for _ in range(rng.randint(0, 2)):
                add(rng.choice(labels[:k]), rng.choice(labels[k:]))
        else:
            cut = rng.randint(1, n - 1)
            for grp in (labels[:cut], labels[cut:]):
                for _ in range(rng.randint(0, len(grp) + 1)):
                    if len(grp) >= 2:
                        add(*rng.sample(grp, 2))
    nb = {v: [] for v in labels}
    style = rng.choice(["sym", "oneway", "mixed", "mixed"])
    for a, b in sorted(und):
        r = rng.random()
        if style == "sym" or (style == "mixed" and r < 0.4):
            nb[a].append(b)
            nb[b].append(a)
        elif rng.random() < 0.5:
            nb[a].append(b)
        else:
            nb[b].append(a)
    outside = [x for x in range(n + 4) if x not in nb]
    for v in labels:
        if rng.random() < 0.15:
            nb[v].append(v)  # self loop
        if nb[v] and rng.random() < 0.2:
            nb[v].append(rng.choice(nb[v]))  # duplicate neighbour
        if outside and rng.random() < 0.1:
            nb[v].append(rng.choice(outside))  # label outside the node set
        rng.shuffle(nb[v])
    return labels, nb


def gen_pr_params(rng):
    return rng.choice(DAMPINGS), rng.choice(TOLS), rng.choice(MAX_ITERS)


def gen_resolution(rng):
    return rng.choice([1.0, 1.0, 0.5, 2.0, 0.25, 1.5, 0.1, 3.0, round(rng.uniform(0.05, 4.0), 3)])


# ---------------------------------------------------------------- independent references (property text)
def sym_edges(nodes, nb):
    ns = set(nodes)
    return {frozenset((u, w)) for u in nodes for w in nb[u] if w in ns and w != u}


def n_components(vs, edges):
    vs = list(vs)
    seen, c = set(), 0
    for s in vs:
        if s in seen:
            continue
        c += 1
        stack = [s]
        seen.add(s)
        while stack:
            x = stack.pop()
            for e in edges:
                if x in e:
                    (y,) = e - {x}
                    if y not in seen:
                        seen.add(y)
                        stack.append(y)
    return c


def ref_cut_vertices(nodes, nb):
    E = sym_edges(nodes, nb)
    base = n_components(nodes, E)
    return sorted(v for v in nodes if n_components([u for u in nodes if u != v], {e for e in E if v not in e}) > base)


def ref_bridges(nodes, nb):
    E = sym_edges(nodes, nb)
    base = n_components(nodes, E)
    return sorted(tuple(sorted(e)) for e in E if n_components(nodes, E - {e}) > base)


def ref_core_numbers(nodes, nb):
    E = sym_edges(nodes, nb)
    core = {v: 0 for v in nodes}
    k = 0
    while True:
        k += 1
        S = set(nodes)
        while True:
            drop = {v for v in S if sum(1 for e in E if v in e and e <= S) < k}
            if not drop:
                break
            S -= drop
        if not S:
            return core
        for v in S:
            core[v] = k


def pr_apply(nodes, nb, d, s):
    """F(s) for the damped PageRank map with uniform dangling redistribution, exact (Fractions)."""
    ns, n = set(nodes), len(nodes)
    out = {v: [w for w in nb[v] if w in ns] for v in nodes}
    dang = sum((s[v] for v in nodes if not out[v]), Fraction(0))
    new = {v: (1 - d) / n + d * dang / n for v in nodes}
    for u in nodes:
        for w in out[u]:
            new[w] += d * s[u] / len(out[u])
    return new


def pr_exact_diffs(nodes, nb, d, k):
    s = {v: Fraction(1, len(nodes)) for v in nodes}
    diffs = []
    for _ in range(k):
        t = pr_apply(nodes, nb, d, s)
        diffs.append(max(abs(t[v] - s[v]) for v in nodes))
        s = t
    return diffs


def ref_modularity(nodes, nb, res, comms):
    E = sym_edges(nodes, nb)
    m = Fraction(len(E))
    deg = {v: sum(1 for e in E if v in e) for v in nodes}
    q = Fraction(0)
    for c in comms:
        cs = set(c)
        q += Fraction(sum(1 for e in E if e <= cs)) / m - Fraction(res) * (Fraction(sum(deg[v] for v in cs)) / (2 * m)) ** 2
    return q


def is_asymmetric(nodes, nb):
    ns = set(nodes)
    return any(w in ns and w != u and u not in nb[w] for u in nodes for w in nb[u])


# ---------------------------------------------------------------- implementation runs
def _res(r):
    return {"objective": r.objective, "iterations": r.iterations, "evaluations": r.evaluations, "status": r.status.name}


def _bind(nodes, nb, pres):
    from harness.props.C15_hard import IDENT, Bound

    return Bound(nodes, nb, tuple(pres) if pres else IDENT)


def _alias(B, o):
    o["inputs_unchanged"] = B.unchanged()
    return o


def run_ap(nodes, nb, pres=None):
    from solvor.articulation import articulation_points

    B = _bind(nodes, nb, pres)
    r = articulation_points(B.nodes(), B.nbfn)
    return _alias(B, {**_res(r), "solution": sorted(B.ids(r.solution)), "is_set": isinstance(r.solution, (set, frozenset))})


def run_br(nodes, nb, pres=None):
    from solvor.articulation import bridges

    B = _bind(nodes, nb, pres)
    r = bridges(B.nodes(), B.nbfn)
    return _alias(B, {**_res(r), "solution": [tuple(B.ids(e)) for e in r.solution]})


def run_kc(nodes, nb, pres=None, extra_k=()):
    from solvor.kcore import kcore, kcore_decomposition

    B = _bind(nodes, nb, pres)
    r = kcore_decomposition(B.nodes(), B.nbfn)
    sol = {B.back[k]: v for k, v in r.solution.items()}
    mx = max(sol.values()) if sol else 0
    ks = {}
    for k in list(range(-1, mx + 2)) + list(extra_k):
        rk = kcore(B.nodes(), B.nbfn, k)
        ks[k] = {**_res(rk), "solution": sorted(B.ids(rk.solution))}
    return _alias(B, {**_res(r), "solution": sol, "kcore": ks})


def run_pr(nodes, nb, dpq, tol, max_iter, pres=None, defaults=False):
    from solvor.pagerank import pagerank

    B = _bind(nodes, nb, pres)
    if defaults:
        r = pagerank(B.nodes(), B.nbfn)
    else:
        r = pagerank(B.nodes(), B.nbfn, damping=dpq[0] / dpq[1], max_iter=max_iter, tol=tol)
    return _alias(B, {**_res(r), "solution": {B.back[k]: v for k, v in r.solution.items()}})


def run_lv(nodes, nb, resolution, pres=None, defaults=False, trace=True):
    """Runs louvain and records, without touching /repo, the move made at every node visit: a line tracer on the
    louvain frame reads (iterations, v, current_comm, best_comm) when the statement `node_to_comm[v] = best_comm`
    is about to run.  If that statement no longer exists the trace is empty and only the result is judged."""
    import inspect

    from solvor import community

    fn = community.louvain
    code = fn.__code__
    try:
        src, start = inspect.getsourcelines(fn)
        tl = [start + i for i, ln in enumerate(src) if ln.strip() == "node_to_comm[v] = best_comm"]
    except OSError:
        tl = []
    moves = []

    def local(frame, event, arg):
        if event == "line" and frame.f_lineno == tl[0]:
            L = frame.f_locals
            moves.append((L.get("iterations"), L.get("v"), L.get("current_comm"), L.get("best_comm")))
        return local

    def glob(frame, event, arg):
        return local if frame.f_code is code else None

    B = _bind(nodes, nb, pres)
    if len(tl) == 1 and trace:
        sys.settrace(glob)
    try:
        r = fn(B.nodes(), B.nbfn) if defaults else fn(B.nodes(), B.nbfn, resolution=resolution)
    finally:
        sys.settrace(None)
    moves = [(m[0], B.back.get(m[1], m[1]) if _hashable(m[1]) else m[1], m[2], m[3]) for m in moves]
    return _alias(B, {**_res(r), "solution": [sorted(B.ids(c)) for c in r.solution], "moves": moves,
                      "sets": all(isinstance(c, (set, frozenset)) for c in r.solution)})


def _hashable(x):
    try:
        hash(x)
        return True
    except TypeError:
        return False


# ---------------------------------------------------------------- judging (returns None or a description)
def judge_ap(nodes, nb, o):
    exp = ref_cut_vertices(nodes, nb)
    if o["solution"] != exp:
        return f"articulation_points returned {o['solution']}, removal-and-recount gives {exp}"
    if o["status"] != "OPTIMAL" or o["objective"] != len(exp):
        return f"articulation_points status/objective {o['status']}/{o['objective']}"
    return None


def judge_br(nodes, nb, o):
    exp = ref_bridges(nodes, nb)
    if sorted(o["solution"]) != exp:
        return f"bridges returned {o['solution']}, removal-and-recount gives {exp} (canonical (min,max), each once)"
    if o["status"] != "OPTIMAL" or o["objective"] != len(exp):
        return f"bridges status/objective {o['status']}/{o['objective']}"
    return None


def judge_kc(nodes, nb, o):
    exp = ref_core_numbers(nodes, nb)
    if o["solution"] != exp:
        return f"kcore_decomposition returned {o['solution']}, deletion definition gives {exp}"
    if o["objective"] != (max(exp.values()) if exp else 0) or o["status"] != "OPTIMAL":
        return f"kcore_decomposition objective {o['objective']} is not the maximum core number"
    for k, rk in o["kcore"].items():
        want = sorted(v for v in nodes if exp[v] >= k)
        if rk["solution"] != want or rk["objective"] != len(want):
            return f"kcore(k={k}) returned {rk['solution']} (objective {rk['objective']}), expected {want}"
    return None


def judge_pr(nodes, nb, dpq, tol, max_iter, o):
    sc = o["solution"]
    if set(sc) != set(nodes) or len(sc) != len(nodes):
        return f"pagerank keys {sorted(sc)} are not the node set"
    if not nodes:
        return None
    if any(not (x >= 0.0) for x in sc.values()):
        return f"pagerank has a negative/NaN score: {sc}"
    s = {v: Fraction(sc[v]) for v in nodes}
    if abs(sum(s.values()) - 1) > EPS:
        return f"pagerank scores sum to {float(sum(s.values()))!r}"
    d = Fraction(dpq[0], dpq[1])
    if o["status"] == "OPTIMAL":
        F = pr_apply(nodes, nb, d, s)
        resid = sum(abs(F[v] - s[v]) for v in nodes)
        bound = d * len(nodes) * Fraction(tol) + Fraction(1, 10**12)
        if resid > bound:
            return f"pagerank OPTIMAL but L1 residual of the damped equation {float(resid):.3e} > damping*n*tol = {float(bound):.3e}"
        if not (o["objective"] < tol) or not (1 <= o["iterations"] <= max_iter):
            return f"pagerank OPTIMAL with max_diff {o['objective']} >= tol {tol} or iterations {o['iterations']} outside 1..{max_iter}"
    elif o["status"] == "MAX_ITER":
        if o["iterations"] != max_iter:
            return f"pagerank MAX_ITER after {o['iterations']} != max_iter {max_iter} iterations"
    else:
        return f"pagerank status {o['status']}"
    return None


def judge_lv(nodes, nb, res, o):
    comms = o["solution"]
    flat = [v for c in comms for v in c]
    if sorted(flat) != sorted(nodes) or any(not c for c in comms):
        return f"louvain result {comms} is not a partition of the node set {sorted(nodes)}"
    if not sym_edges(nodes, nb):
        exp = Fraction(0)
    else:
        exp = ref_modularity(nodes, nb, res, comms)
    if abs(Fraction(o["objective"]) - exp) > EPS * max(1, abs(exp)):  # 1e-9 absolute, relative beyond magnitude 1 (resolution up to 2^60)
        return f"louvain reports modularity {o['objective']!r}, the returned partition has {float(exp)!r}"
    if o["status"] != "OPTIMAL":
        return f"louvain status {o['status']}"
    return None


# ---------------------------------------------------------------- Coq terms
def cgraph(nodes, nb):
    return clist(nodes, lambda v: f"({v}, {clist(nb[v])})")


def cpairs(ps):
    return clist(ps, lambda p: f"({p[0]}, {p[1]})")


def cassq(nodes, sc):
    return clist(nodes, lambda v: f"({v}, {cq(Fraction(sc[v]))})")


def _int(x):
    return isinstance(x, int) and not isinstance(x, bool) and 0 <= x < 5000


IMP = "From Coq Require Import QArith.\nFrom SV Require Import C15.Graph C15.Artic C15.ArticSpec C15.KCore C15.KCoreSpec C15.PageRank C15.Louvain.\nOpen Scope nat_scope."


def lv_passes(nodes, o):
    """oracle for the model: per sweep, the chosen community of each node in node-list order; None if the trace is
    unusable (statement not found / shape unexpected)."""
    mv = o["moves"]
    n = len(nodes)
    if o["iterations"] == 0:
        return []
    if not mv or len(mv) != n * o["iterations"]:
        return None
    passes = []
    for i in range(o["iterations"]):
        chunk = mv[i * n:(i + 1) * n]
        if [m[1] for m in chunk] != list(nodes) or any(not _int(m[3]) for m in chunk):
            return None
        passes.append([m[3] for m in chunk])
    return passes


# ---------------------------------------------------------------- the check
def one_case(ctx, case, acc, judge_only=False):
    """Run all five functions on one case (presented under its label map / container shapes), judge with the Python
    references on nat ids, collect Coq cases in acc.  Returns the list of (what, replay) violations found."""
    from harness.props.C15_hard import IDENT, ORDERABLE

    nodes, nb, dpq, tol, max_iter, res = case[:6]
    pres = tuple(case[6]) if len(case) > 6 and case[6] else IDENT
    case = (nodes, nb, dpq, tol, max_iter, res, pres)
    orderable = pres[0] in ORDERABLE
    base = {"nodes": nodes, "nb": {str(k): v for k, v in nb.items()}, "damping": list(dpq), "tol": tol, "max_iter": max_iter,
            "resolution": res, "pres": list(pres)}
    bad = []
    asym = is_asymmetric(nodes, nb)
    E = sym_edges(nodes, nb)
    G = cgraph(nodes, nb)
    if not judge_only:
        ctx.count("n", len(nodes))
        ctx.count("edges", len(E))
        ctx.count("asymmetric", asym)
        ctx.count("components", n_components(nodes, E))
        ctx.count("L_labels", pres[0])
        ctx.count("I_nodes_as", pres[1])
        ctx.count("I_neighbours_as", pres[2])

    def call(kind, fn, *a, **kw):
        r = guarded(fn, *a, timeout=5, **kw)
        if not judge_only:
            ctx.evaluations += 1
        if r[0] != "ok":
            bad.append((f"{kind} (labels {pres[0]}, nodes as {pres[1]}, neighbours as {pres[2]}): implementation {r[0]} {r[1:]}", {**base, "kind": kind}))
            return None
        if not r[1].get("inputs_unchanged", True):
            bad.append((f"{kind}: the caller's node list / neighbour lists were modified by the call", {**base, "kind": kind}))
        return r[1]

    # ---- articulation points / bridges (bridges orders labels with <: only orderable label maps)
    oa = call("ap", run_ap, nodes, nb, pres)
    ob = call("br", run_br, nodes, nb, pres) if orderable else None
    for kind, o, judge in (("ap", oa, judge_ap), ("br", ob, judge_br)):
        if o is None:
            continue
        v = judge(nodes, nb, o)
        if v:
            bad.append((v, {**base, "kind": kind, "impl": o}))
    if oa is not None and not judge_only:
        if all(_int(x) for x in (oa["objective"], oa["iterations"], oa["evaluations"])):
            acc["ap"].append((f"({G}, ({clist(oa['solution'])}, {oa['objective']}, {oa['iterations']}, {oa['evaluations']}))", case, oa))
            if ob is None:
                acc["apspec1"].append((f"({G}, {clist(oa['solution'])})", case, oa))
        ctx.count("cut_vertices", len(oa["solution"]))
    if ob is not None and not judge_only:
        if all(_int(x) for x in (ob["objective"], ob["iterations"], ob["evaluations"])):
            acc["br"].append((f"({G}, ({cpairs(ob['solution'])}, {ob['objective']}, {ob['iterations']}, {ob['evaluations']}))", case, ob))
            if oa is not None:
                acc["apspec"].append((f"({G}, ({clist(oa['solution'])}, {cpairs(ob['solution'])}))", case, (oa, ob)))
        ctx.count("bridges", len(ob["solution"]))

    # ---- k-core (k swept from -1 to max core + 1, plus far-away values)
    ok_ = call("kc", run_kc, nodes, nb, pres, (-10**18, 2**60, 10**18))
    if ok_ is not None:
        v = judge_kc(nodes, nb, ok_)
        if v:
            bad.append((v, {**base, "kind": "kc", "impl": {**ok_, "solution": {str(k): x for k, x in ok_["solution"].items()},
                                                             "kcore": {str(k): x for k, x in ok_["kcore"].items()}}}))
        if not judge_only:
            sol = list(ok_["solution"].items())
            if all(_int(k) and _int(x) for k, x in sol) and all(_int(ok_[f]) for f in ("objective", "iterations", "evaluations")):
                ks = clist(sorted((k, x) for k, x in ok_["kcore"].items() if _int(k)),
                           lambda kv: f"({kv[0]}, ({clist(kv[1]['solution'])}, {kv[1]['objective']}, {kv[1]['iterations']}, {kv[1]['evaluations']}))")
                acc["kc"].append((f"({G}, (({cpairs(sol)}, {ok_['objective']}, {ok_['iterations']}, {ok_['evaluations']}), {ks}))", case, ok_))
            ctx.count("max_core", ok_["objective"])

    # ---- pagerank
    op = call("pr", run_pr, nodes, nb, dpq, tol, max_iter, pres)
    if op is not None:
        v = judge_pr(nodes, nb, dpq, tol, max_iter, op)
        if v:
            bad.append((v, {**base, "kind": "pr", "impl": {**op, "solution": {str(k): x for k, x in op["solution"].items()}}}))
        elif not judge_only and nodes:
            pr_coq_case(ctx, acc, case, op)

    # ---- louvain
    ol = call("lv", run_lv, nodes, nb, res, pres)
    if ol is not None:
        v = judge_lv(nodes, nb, res, ol)
        if v:
            bad.append((v, {**base, "kind": "lv", "impl": {k: x for k, x in ol.items() if k != "moves"}}))
        elif not judge_only:
            ctx.count("lv_communities", len(ol["solution"]))
            ctx.count("lv_iterations", ol["iterations"])
            passes = lv_passes(nodes, ol)
            obs = f"({clist(ol['solution'], clist)}, {cq(Fraction(ol['objective']))}, {cnat(ol['iterations'])}, {cnat(ol['evaluations'])})"
            eps = cq(EPS * max(1, abs(Fraction(ol["objective"]))))
            if passes is None:
                ctx.count("lv_trace", "unusable")
                acc["lvspec"].append((f"({G}, ({eps}, {cq(Fraction(res))}, {obs}))", case, ol))
            else:
                ctx.count("lv_trace", "replayed")
                ctx.traces_validated += 1
                ctx.count("lv_moves", sum(1 for m in ol["moves"] if m[2] != m[3]))
                acc["lv"].append((f"({G}, ({eps}, {cq(Fraction(res))}, {clist(passes, clist)}, {obs}))", case, ol))
    if not judge_only:
        if len(nodes) >= 3 and len(E) >= 2:
            ctx.nontriv(json.dumps([nodes, sorted(nb.items()), dpq, tol, max_iter, res, pres]))
        if acc.get("_events") is not None:
            from harness.props.C15_hard import events_of

            for ev in events_of(nodes, nb, dpq, tol, max_iter, op, ol):
                acc["_events"][ev] = acc["_events"].get(ev, 0) + 1
    return bad


def pr_coq_case(ctx, acc, case, op):
    nodes, nb, dpq, tol, max_iter = case[:5]
    G = cgraph(nodes, nb)
    ctx.count("pr_status", op["status"])
    ctx.count("pr_iterations", min(op["iterations"], 30) // 5 * 5)
    it = op["iterations"]
    if it > (COQ_PR_MAX_IT if dpq[1] <= 1000 else 8):  # Q numerators grow by log2(q) bits per iteration
        ctx.count("pr_coq", "skipped_long_run")
        return
    d = Fraction(dpq[0], dpq[1])
    diffs = pr_exact_diffs(nodes, nb, d, it)
    ft = Fraction(tol)
    near = any(abs(x - ft) < Fraction(1, 10**12) + ft / 10**9 for x in diffs)
    sc = cassq(nodes, op["solution"])
    bound = cq(d * len(nodes) * ft + Fraction(1, 10**12)) if op["status"] == "OPTIMAL" else cq(Fraction(10))
    st = "P_OPTIMAL" if op["status"] == "OPTIMAL" else "P_MAX_ITER"
    mode = "false" if near else "true"
    ctx.count("pr_coq", "threshold_too_close_iterate_only" if near else "strict")
    mi = min(max_iter, 5000)  # a nat literal; the model stops at the same iteration for every fuel > it
    obj = copt(None if math.isinf(op["objective"]) else Fraction(op["objective"]), cq)
    acc["pr"].append((f"({G}, (({cq(d)}, {cq(ft)}, {cnat(mi)}), ({mode}, ({sc}, {obj}, {cnat(it)}, {st}), {bound})))", case, op))


CHECKS = {
    "ap": ("graph * (list nat * nat * nat * nat)", "fun c => ap_corr (fst c) (snd c)"),
    "br": ("graph * (list (nat * nat) * nat * nat * nat)", "fun c => br_corr (fst c) (snd c)"),
    "apspec": ("graph * (list nat * list (nat * nat))",
               "fun c => ap_spec_check (fst c) (fst (snd c)) && br_spec_check (fst c) (snd (snd c))"),
    "apspec1": ("graph * list nat", "fun c => ap_spec_check (fst c) (snd c)"),
    "kc": ("graph * ((list (nat * nat) * nat * nat * nat) * list (nat * (list nat * nat * nat * nat)))",
           "fun c => let g := fst c in let '(sol, obj, it, ev) := fst (snd c) in "
           "match kcore_decomposition pick_first g with None => false | Some r => assoc_eqb (k_solution r) sol && (k_objective r =? obj) "
           "&& (k_iterations r =? it) && (k_evaluations r =? ev) end && kcore_check g sol && "
           "forallb (fun kq => let '(k, (s, o, i, e)) := kq in kcore_set_check sol k s && "
           "match kcore pick_first g k with Some (s', o', i', e') => set_eqb s' s && (o' =? o) && (i' =? i) && (e' =? e) | None => false end) (snd (snd c))"),
    "pr": ("graph * ((Q * Q * nat) * (bool * (list (nat * Q) * option Q * nat * pstatus) * Q))", "pr_case"),
    "lv": ("graph * (Q * Q * list (list nat) * (list (list nat) * Q * nat * nat))",
           "fun c => let g := fst c in let '(eps, res, passes, o) := snd c in let '(cs, obj, it, ev) := o in "
           "lv_corr eps g res passes o && lv_spec_check eps g res cs obj"),
    "lvspec": ("graph * (Q * Q * (list (list nat) * Q * nat * nat))",
               "fun c => let g := fst c in let '(eps, res, o) := snd c in let '(cs, obj, it, ev) := o in lv_spec_check eps g res cs obj"),
}

EDGE_CASES = [
    ([], {}), ([5], {5: []}), ([5], {5: [5, 5]}), ([0, 1], {0: [], 1: []}), ([0, 1], {0: [1], 1: []}), ([1, 0], {0: [1, 1], 1: [0]}),
    ([0, 1, 2], {0: [], 1: [0, 2], 2: []}),  # the path given one way (property text)
    ([0, 1, 2], {0: [1], 1: [2], 2: [0]}),  # triangle given one way: no cut vertex, no bridge
    ([2, 0, 1, 3], {0: [1, 2], 1: [0, 2], 2: [0, 1, 3], 3: [2]}),  # triangle + pendant
    ([0, 1, 2, 3, 4], {0: [1], 1: [2], 2: [0, 3], 3: [4], 4: [2]}),  # two triangles sharing vertex 2
    ([0, 1, 2, 3], {0: [1, 1], 1: [0, 0, 2], 2: [1, 3, 9], 3: [3]}),  # duplicates, self loop, outside label
    ([3, 1, 4, 0, 2], {0: [1, 2, 3, 4], 1: [2, 3, 4], 2: [3, 4], 3: [4], 4: []}),  # K5 one way
    ([0, 1, 2, 3, 4, 5], {0: [1, 2], 1: [2], 2: [3], 3: [4, 5], 4: [5], 5: []}),  # two triangles joined by a bridge
    ([0, 1, 2, 3], {0: [], 1: [], 2: [], 3: []}),  # no edges
]


def all_cases(ctx, n_random, big):
    from harness.props.C15_hard import IDENT, gen_params_corner, gen_pres

    cases = []
    for o in _corpus():
        cases.append(o)
    for nodes, nb in EDGE_CASES:
        cases.append((list(nodes), {k: list(v) for k, v in nb.items()}, (17, 20), 1e-6, 100, 1.0, IDENT))
        cases.append((list(nodes), {k: list(v) for k, v in nb.items()}, (1, 2), 1e-3, 5, 0.5, gen_pres(ctx.rng)))
    for i in range(n_random):
        nodes, nb = gen_graph(ctx.rng, big)
        if ctx.rng.random() < 0.3:
            dpq, tol, mi, res = gen_params_corner(ctx.rng)  # classes M / O: corners of the option space
        else:
            dpq, tol, mi = gen_pr_params(ctx.rng)
            res = gen_resolution(ctx.rng)
        cases.append((nodes, nb, dpq, tol, mi, res, gen_pres(ctx.rng)))  # classes L / I: label map and container shapes
    return cases


def run(ctx: Ctx):
    ctx.rule = ("random graphs n<=8 (thorough <=12) as (node list in random order with non-contiguous labels, neighbour lists): shapes "
                "sparse/dense/tree/cycle+tails/two cliques/two components; symmetric, one-way and mixed neighbour lists, self loops, "
                "duplicate neighbours, labels outside the node set, isolated nodes; damping from a rational grid in (0,1), tol 5e-2..1e-8, "
                "max_iter 1..100, resolution 0.05..4; each case is run through all five functions; non-trivial = at least 3 nodes "
                "and 2 undirected edges; distinct = canonical JSON of (nodes, neighbour lists, parameters, presentation).  Round-2 families "
                "(harness/props/C15_hard.py): every case is PRESENTED under a label map (fresh equal-but-not-identical ints >= 257 / 2^31 / 2^53 / 2^60 / "
                "10^18, negatives and falsy labels, floats, tuples, strings, a mixed-type pool with None/False/frozenset) and container shapes (nodes as "
                "list/tuple/generator/iterator/dict view/map; neighbours as list/tuple/generator/iterator/the caller's own list) while models and oracles "
                "work on nat ids; 30% of the cases take option corners (damping 1e-12..1-1e-12, tol 0..1e9, max_iter 0..10^9, resolution 1e-300..2^60, "
                "k from -10^18 to 2^60); max_iter sweep 0..40 with a prefix-consistency oracle, omitted-option defaults, resolution sweep; call "
                "sequences on one shared input in two orders, inputs unchanged, cleared results; structured instances with answers by construction up "
                "to 65537 nodes (thorough 300000); rare internal events counted by reference ports and searched for when missing.  Round-3 families "
                "(harness/props/C15_r3.py): work volume - every loop driven past 2^7..10^5 iterations (pagerank 196237 power iterations on a 3-node "
                "slow-mixing graph with the exact stationary vector, tol=0 runs at max_iter 2^7..10^5 +-1, 10^5 DFS calls / k-core pops / levels / "
                "adjacency entries, 11175 bucket moves, louvain 58 sweeps = 174000 node visits with the loop structure read from the trace); in-place "
                "edits of ONE live graph behind ONE neighbour-function object and ONE node list between calls of all six functions, judged against the "
                "brute-force references on the current graph and a deep copy; finite float extremes in every numeric argument")
    ctx.proof_step(["C15"])
    ctx.notes += [
        "pagerank model is exact in Q with the nominal rational damping p/q (the run uses float(p/q)); scores/objective compared with 1e-9; "
        "iteration count and status compared exactly unless an exact max_diff lies within 1e-12 + 1e-9*tol of tol (then only the scores after "
        "the same number of iterations are compared; counted in histogram pr_coq); runs longer than %d iterations are judged by the Python "
        "oracles only" % COQ_PR_MAX_IT,
        "louvain: the move choice (float gains, dict order) is an oracle read from the run by a line tracer (sys.settrace) on the louvain "
        "frame; the model replays the bookkeeping and recomputes modularity in Q; C15_louvain_modularity is definitional for the model, "
        "the independent check is lv_spec_check / the Python reference on the implementation's partition",
        "kcore: buckets[k].pop() order is not observable; the model pops the first element; compared observable (core numbers) is "
        "pick-independent by theorem C15_kcore",
        "articulation/bridges: model follows _undirected_adjacency insertion order; results compared as sets (the property leaves the order free); the model is proved exact (C15_artic_points_exact / C15_artic_bridges_exact) and the implementation answer is additionally certified per case by ap_spec_check / br_spec_check",
        "OUTSIDE the property, observation only (counted in histogram observation_only, never judged; POLICY_X a/b/d): NaN / +-inf / |x| >= 1e300 as "
        "tol, damping, resolution or k; damping outside [0,1]; a node listed twice in `nodes`",
        "node lists without repeated nodes; bridges is run only under strictly monotone orderable label maps (its documented (u < v) orientation needs an "
        "order); louvain modularity tolerance is 1e-9 * max(1, |Q|) (resolution up to 2^60 makes |Q| ~ 1e17, where 1e-9 absolute is below one ulp)",
        "pagerank cases with damping denominators > 1000 are replayed in Coq only up to 8 iterations, max_iter > 5000 is passed to the model as 5000 "
        "(same stopping iteration); structured large instances, call sequences and negative / huge k are judged by the Python references only",
    ]
    big = ctx.tier == "thorough"
    cases = all_cases(ctx, ctx.budget(230, 5000), big)
    acc = {k: [] for k in CHECKS}
    acc["_events"] = {}

    def run_case(case):
        for what, rep in one_case(ctx, case, acc):
            what, rep = shrink(ctx, what, rep)
            ctx.violation(what, rep)

    for case in cases:
        run_case(case)
        if len(ctx.violations) > 20:
            break
    from harness.props import C15_hard as H

    extra = []
    H.directed_search(ctx, acc, run_case, 1500 if ctx.tier == "quick" else 20000)
    H.run_sweeps(ctx, acc, extra)
    H.run_sequences(ctx, extra)
    H.run_structured(ctx, extra)
    from harness.props import C15_r3 as R3

    R3.run_all(ctx, extra)  # round 3: work volume, in-place edits between calls / duplicate labels, float extremes
    for what, rep in extra[:12]:
        if rep.get("kind") in ("pr", "lv") and "nodes" in rep and "max_iter" in rep:
            what, rep = shrink(ctx, what, rep)
        ctx.violation(what, rep)
    for case in cases[:3]:
        ctx.sample({"nodes": case[0], "nb": {str(k): v for k, v in case[1].items()}, "params": case[2:]}, 3)
    disagree = {}
    for tag, (ty, chk) in CHECKS.items():
        if acc[tag]:
            failing = ctx.coq_check(tag, IMP, ty, chk, [a[0] for a in acc[tag]], shard=60 if ctx.tier == "quick" else 150)
            if failing:
                disagree[tag] = [acc[tag][i] for i in failing]
    if (disagree or ctx.broken) and not ctx.violations:
        found = False
        pool = [d[1] for ds in disagree.values() for d in ds]
        for i in range(20000 if disagree else 4000):
            if pool and i % 3 == 0:
                case = mutate(ctx.rng, pool[i % len(pool)])
            else:
                nodes, nb = gen_graph(ctx.rng, True)
                case = (nodes, nb, *gen_pr_params(ctx.rng), gen_resolution(ctx.rng))
            bad = one_case(ctx, case, acc, judge_only=True)
            if bad:
                what, rep = shrink(ctx, *bad[0])
                ctx.violation(what, rep)
                found = True
                break
        if not found:
            for tag, ds in disagree.items():
                term, case, o = ds[0]
                model = model_output(ctx, tag, case, o)
                ctx.violation(f"correspondence lemma {tag}: Coq model/spec checker and implementation differ ({CHECKS[tag][1][:80]}...)",
                              {"kind": tag, "nodes": case[0], "nb": {str(k): v for k, v in case[1].items()}, "damping": list(case[2]), "tol": case[3],
                               "max_iter": case[4], "resolution": case[5], "impl": _jsonable(o), "model": model,
                               "lemma": f"Cases/C15/{tag}_*.v corr"}, no_input=True)


def _jsonable(o):
    return json.loads(json.dumps(o, default=str)) if not isinstance(o, dict) else {str(k): (_jsonable(v) if isinstance(v, dict) else v) for k, v in o.items()}


def model_output(ctx, tag, case, o):
    G = cgraph(case[0], case[1])
    term = {"ap": f"articulation_points {G}", "br": f"bridges {G}", "apspec": f"(articulation_points {G}, bridges {G})",
            "kc": f"kcore_decomposition pick_first {G}",
            "pr": f"pagerank {G} {cq(Fraction(*case[2]))} {cq(Fraction(case[3]))} {cnat(case[4])}"}.get(tag)
    if tag in ("lv", "lvspec"):
        passes = lv_passes(case[0], o)
        term = f"louvain {G} {cq(Fraction(case[5]))} {clist(passes or [], clist)}"
    return ctx.coq_eval(f"{tag}_show", IMP, term)[-1500:]


def mutate(rng, case):
    nodes, nb = list(case[0]), {k: list(v) for k, v in case[1].items()}
    if nodes:
        v = rng.choice(nodes)
        r = rng.random()
        if r < 0.4 and nb[v]:
            nb[v].pop(rng.randrange(len(nb[v])))
        elif r < 0.8:
            nb[v].append(rng.choice(nodes))
        else:
            rng.shuffle(nodes)
    return (nodes, nb, *gen_pr_params(rng), gen_resolution(rng), case[6] if len(case) > 6 else None)


def shrink(ctx, what, rep):
    """Greedy: drop nodes / neighbour entries while the same function still violates its reference."""
    kind = rep.get("kind")
    nodes, nb = list(rep["nodes"]), {int(k): list(v) for k, v in rep["nb"].items()}
    rest = (tuple(rep["damping"]), rep["tol"], rep["max_iter"], rep["resolution"], tuple(rep.get("pres") or ("ident", "list", "list")))

    def fails(nodes, nb):
        for w, r in one_case(ctx, (nodes, nb, *rest), None, judge_only=True):
            if r.get("kind") == kind:
                return w, r
        return None

    cur = fails(nodes, nb)
    if cur is None:
        return what, rep
    changed = True
    while changed:
        changed = False
        for v in list(nodes):
            n2 = [u for u in nodes if u != v]
            nb2 = {u: [w for w in nb[u] if w != v] for u in n2}
            f = fails(n2, nb2)
            if f:
                nodes, nb, cur, changed = n2, nb2, f, True
        for u in list(nodes):
            for i in range(len(nb[u]) - 1, -1, -1):
                nb2 = {k: list(x) for k, x in nb.items()}
                nb2[u].pop(i)
                f = fails(nodes, nb2)
                if f:
                    nb, cur, changed = nb2, f, True
    return cur


def _corpus():
    out = []
    d = VERIF / "corpus" / "C15"
    if d.exists():
        for f in sorted(d.glob("*.json")):
            o = json.loads(f.read_text())
            out.append((list(o["nodes"]), {int(k): list(v) for k, v in o["nb"].items()}, tuple(o.get("damping", (17, 20))), o.get("tol", 1e-6),
                        o.get("max_iter", 100), o.get("resolution", 1.0), tuple(o["pres"]) if o.get("pres") else None))
    return out


def replay(obj):
    if obj.get("kind") == "structured":
        from harness.props.C15_hard import replay_structured

        return replay_structured(obj)
    if obj.get("kind") in ("work", "inplace", "duplicate", "extreme"):
        print("found by the round-3 family `%s`:" % obj["kind"], obj.get("what"))
        for h in obj.get("history", []):
            print("   ", h)
        print("re-run: ./check C15 --seed", obj.get("seed"), "--tier", obj.get("tier"))
        if "nodes" not in obj or not isinstance(obj.get("resolution", 1.0), (int, float)):
            return 1
    if "nodes" not in obj:
        print("replay names an unchecked obligation:", obj.get("unchecked") or obj.get("what"))
        return 1
    pres = tuple(obj["pres"]) if obj.get("pres") else None
    case = (list(obj["nodes"]), {int(k): list(v) for k, v in obj["nb"].items()}, tuple(obj.get("damping", (17, 20))), obj.get("tol", 1e-6),
            obj.get("max_iter", 100), obj.get("resolution", 1.0), pres)
    ctx = Ctx.__new__(Ctx)
    ctx.known, ctx.known_hits, ctx.evaluations, ctx.tier, ctx.hist = [], {}, 0, "quick", {}
    import random

    ctx.rng = random.Random(0)
    bad = one_case(ctx, case, None, judge_only=True)
    if obj.get("kind") in ("sequence", "pr_defaults", "lv_defaults"):
        print("(found by the call-sequence / defaults family: rerun ./check C15 --seed", obj.get("seed"), "for the exact sequence)")
    for kind, fn, args in (("ap", run_ap, (*case[:2], pres)), ("br", run_br, (*case[:2], pres)), ("kc", run_kc, (*case[:2], pres)),
                           ("pr", run_pr, (*case[:5], pres)), ("lv", run_lv, (case[0], case[1], case[5], pres))):
        r = guarded(fn, *args)
        if r[0] == "ok" and isinstance(r[1], dict):
            r[1].pop("moves", None)
        print(kind, "->", str(r)[:400])
    for w, _ in bad:
        print("reference verdict:", w)
    if not bad:
        print("reference verdict: ok")
    return 1 if bad else 0
